(** C13: matching ([match_single], [match], [Notation.matches]/[assert_matches]) on the model of
    pattern.py is sound and, for substitution-free patterns, complete.  Statements are about full
    expansions; partial-correctness form over the fuel. *)
From Coq Require Import NArith List Bool Lia.
From Pi2 Require Import ML.Syntax Py.Pattern Py.PatFacts Py.ExpandFacts.
Import ListNotations.
Open Scope N_scope.

(** no pending substitution anywhere *)
Fixpoint nosub (p:pat) : bool :=
  match p with
  | EVar _ | SVar _ | Sym _ | MVar _ _ _ _ _ _ => true
  | Imp l r | App l r => nosub l && nosub r
  | Ex _ q | Mu _ q => nosub q
  | ESub _ _ _ | SSub _ _ _ => false
  end.

(** [t] extends [s] *)
Definition sub (s t:delta) : Prop := forall k v, alookup k s = Some v -> alookup k t = Some v.

Lemma sub_refl s : sub s s.
Proof. intros k v H; exact H. Qed.
Lemma sub_trans a b c : sub a b -> sub b c -> sub a c.
Proof. intros H1 H2 k v H. apply H2, H1, H. Qed.
Lemma sub_snoc s k v : alookup k s = None -> sub s (s ++ [(k, v)]).
Proof.
  intros Hn k' v' H. rewrite alookup_app, H. reflexivity.
Qed.

Section WithFlags.
Variable f : pyflags.
Hypothesis Hkeep : f_mv_keep_subst f = true.
Hypothesis Hext : f_inst_extend f = true.

(** the bindings of [t], expanded, are part of the notation-free map [s] *)
Definition esub (t:delta) (s:list (N*pat)) : Prop :=
  forall k v, alookup k t = Some v -> alookup k s = Some (expand f v).

Lemma esub_expand_delta t t' : sub t t' -> esub t (expand_delta f t').
Proof.
  intros H k v Hk. rewrite expand_delta_alookup, (H _ _ Hk). reflexivity.
Qed.
Lemma esub_sub t t' s : sub t t' -> esub t' s -> esub t s.
Proof. intros H1 H2 k v H. apply H2, H1, H. Qed.

Lemma p_inst_evar x s : p_inst f (EVar x) s = EVar x.
Proof. destruct s; reflexivity. Qed.
Lemma p_inst_svar x s : p_inst f (SVar x) s = SVar x.
Proof. destruct s; reflexivity. Qed.
Lemma p_inst_sym x s : p_inst f (Sym x) s = Sym x.
Proof. destruct s; reflexivity. Qed.

(** the dispatch of match_single after the metavariable test (pattern.py:28-67) *)
Definition dispatch (n:nat) (hp hi:ppat) (ret:delta) : option (option delta) :=
  match hp, hi with
  | PImp a b, PImp a' b' | PApp a b, PApp a' b' =>
      bind (match_single f n a a' ret) (fun r =>
        match r with None => Some None | Some ret' => match_single f n b b' ret' end)
  | PEVar x, PEVar y | PSVar x, PSVar y | PSym x, PSym y => Some (if N.eqb x y then Some ret else None)
  | PEx x a, PEx y b | PMu x a, PMu y b => if N.eqb x y then match_single f n a b ret else Some None
  | _, _ => Some None
  end.
Definition body (n:nat) (p i:ppat) (ret:delta) : option (option delta) :=
  if f_match_simplify f && is_inst p then bind (simplify f n p) (fun p' => match_single f n p' i ret) else
  bind (hnf f n p) (fun hp => bind (hnf f n i) (fun hi => dispatch n hp hi ret)).

Definition is_mvar (p:ppat) : bool := match p with PMVar _ _ _ _ _ _ => true | _ => false end.

Lemma match_single_S n p i ret : is_mvar p = false -> match_single f (S n) p i ret = body n p i ret.
Proof. destruct p; simpl; intro H; try discriminate; reflexivity. Qed.

Lemma hnf_noninst n p : is_inst p = false -> hnf f n p = Some p.
Proof. destruct p; simpl; intro H; try discriminate; destruct n; reflexivity. Qed.

(** ---------------- soundness ---------------- *)
Definition sound_at (p i:ppat) (ret th:delta) : Prop :=
  sub ret th /\
  (forall s, esub th s -> p_inst f (expand f p) s = expand f i) /\
  (forall k, In k (p_metavars (expand f p)) -> alookup k th <> None).

Lemma sound_at_expand p p' i i' ret th :
  expand f p' = expand f p -> expand f i' = expand f i -> sound_at p' i' ret th -> sound_at p i ret th.
Proof. intros E1 E2 [A [B C]]. unfold sound_at. rewrite <- E1, <- E2. auto. Qed.

Lemma match_sound_aux n : forall p i ret th,
  match_single f n p i ret = Some (Some th) -> sound_at p i ret th.
Proof.
  induction n as [|n IH]; intros p i ret th H; [discriminate|].
  destruct (is_mvar p) eqn:Emv.
  - (* pattern is a metavariable *)
    destruct p; try discriminate. simpl in H.
    destruct (alookup id ret) eqn:El.
    + bind_inv H as e He. destruct e; inversion H; subst; clear H.
      apply (py_eq_expand f Hkeep Hext) in He. symmetry in He. apply pat_eqb_iff in He.
      repeat split.
      * apply sub_refl.
      * intros s Hs. simpl expand. rewrite p_inst_mvar, (Hs _ _ El). exact He.
      * intros k [Hk|[]]. subst k. rewrite El. discriminate.
    + inversion H; subst; clear H. repeat split.
      * apply sub_snoc. exact El.
      * intros s Hs. simpl expand. rewrite p_inst_mvar.
        rewrite (Hs id i); [reflexivity|]. rewrite alookup_app, El. simpl. rewrite N.eqb_refl. reflexivity.
      * intros k [Hk|[]]. subst k. rewrite alookup_app, El. simpl. rewrite N.eqb_refl. discriminate.
  - rewrite (match_single_S _ _ _ _ Emv) in H. unfold body in H.
    destruct (f_match_simplify f && is_inst p) eqn:Ems.
    + bind_inv H as p' Hp'. apply IH in H. apply (simplify_expand f Hkeep Hext) in Hp'.
      eapply sound_at_expand; [exact Hp'|reflexivity|exact H].
    + bind_inv H as hp Hhp. bind_inv H as hi Hhi.
      apply (hnf_expand f Hkeep Hext) in Hhp as [Ep _]. apply (hnf_expand f Hkeep Hext) in Hhi as [Ei _].
      apply (sound_at_expand _ hp _ hi); auto. clear Ep Ei Emv Ems p i.
      destruct hp; destruct hi; simpl in H; try discriminate.
      * (* EVar *) destruct (N.eqb n0 n1) eqn:E; inversion H; subst. apply N.eqb_eq in E. subst.
        repeat split; [apply sub_refl| |intros k []]. intros; simpl; apply p_inst_evar.
      * destruct (N.eqb n0 n1) eqn:E; inversion H; subst. apply N.eqb_eq in E. subst.
        repeat split; [apply sub_refl| |intros k []]. intros; simpl; apply p_inst_svar.
      * destruct (N.eqb n0 n1) eqn:E; inversion H; subst. apply N.eqb_eq in E. subst.
        repeat split; [apply sub_refl| |intros k []]. intros; simpl; apply p_inst_sym.
      * (* Imp *) bind_inv H as r1 Hr1. destruct r1 as [ret'|]; [|discriminate].
        apply IH in Hr1 as [A1 [B1 C1]]. apply IH in H as [A2 [B2 C2]].
        repeat split.
        { eapply sub_trans; eauto. }
        { intros s Hs. simpl. rewrite p_inst_imp, (B2 _ Hs), (B1 s); [reflexivity|].
          eapply esub_sub; eauto. }
        { intros k Hk. simpl in Hk. apply in_app_or in Hk as [Hk|Hk]; [|auto].
          specialize (C1 _ Hk). destruct (alookup k ret') eqn:E; [|congruence].
          rewrite (A2 _ _ E). discriminate. }
      * (* App *) bind_inv H as r1 Hr1. destruct r1 as [ret'|]; [|discriminate].
        apply IH in Hr1 as [A1 [B1 C1]]. apply IH in H as [A2 [B2 C2]].
        repeat split.
        { eapply sub_trans; eauto. }
        { intros s Hs. simpl. rewrite p_inst_app, (B2 _ Hs), (B1 s); [reflexivity|].
          eapply esub_sub; eauto. }
        { intros k Hk. simpl in Hk. apply in_app_or in Hk as [Hk|Hk]; [|auto].
          specialize (C1 _ Hk). destruct (alookup k ret') eqn:E; [|congruence].
          rewrite (A2 _ _ E). discriminate. }
      * (* Ex *) destruct (N.eqb x x0) eqn:E; [|discriminate]. apply N.eqb_eq in E. subst.
        apply IH in H as [A [B C]]. repeat split; auto.
        intros s Hs. simpl. rewrite p_inst_ex, (B _ Hs). reflexivity.
      * (* Mu *) destruct (N.eqb X X0) eqn:E; [|discriminate]. apply N.eqb_eq in E. subst.
        apply IH in H as [A [B C]]. repeat split; auto.
        intros s Hs. simpl. rewrite p_inst_mu, (B _ Hs). reflexivity.
Qed.

(** C13 soundness: pre-supplied bindings are respected and instantiating the pattern with (any extension
    of) the returned substitution gives the instance, as equality of full expansions *)
Theorem match_sound n p i seed th :
  match_single f n p i seed = Some (Some th) ->
  sub seed th /\
  forall th', sub th th' -> p_inst f (expand f p) (expand_delta f th') = expand f i.
Proof.
  intro H. apply match_sound_aux in H as [A [B _]]. split; auto.
  intros th' Hs. apply B. apply esub_expand_delta. exact Hs.
Qed.

(** ... in terms of the Python operations: [pattern.instantiate(th) == instance] *)
Theorem match_sound_py n p i seed th :
  match_single f n p i seed = Some (Some th) ->
  forall m r k e, py_inst f m p th = Some r -> py_eq f k r i = Some e -> e = true.
Proof.
  intros H m r k e Hr He. apply match_sound in H as [_ H].
  apply (py_eq_expand f Hkeep Hext) in He. apply (py_inst_expand f Hkeep Hext) in Hr.
  rewrite He, Hr, (H th (sub_refl th)). apply pat_eqb_refl'.
Qed.

(** ---------------- completeness ---------------- *)
Hypothesis Hms : f_match_simplify f = true.

Lemma esub_snoc ret s k i : esub ret s -> alookup k ret = None -> alookup k s = Some (expand f i) ->
  esub (ret ++ [(k, i)]) s.
Proof.
  intros H Hn Hs k' v Hk. rewrite alookup_app in Hk. destruct (alookup k' ret) eqn:E.
  - inversion Hk; subst. apply H. exact E.
  - simpl in Hk. destruct (N.eqb k k') eqn:E2; [|discriminate]. apply N.eqb_eq in E2. subst.
    inversion Hk; subst. exact Hs.
Qed.

Lemma match_complete_aux n : forall p i ret s res,
  nosub (expand f p) = true ->
  p_inst f (expand f p) s = expand f i ->
  (forall k, In k (p_metavars (expand f p)) -> alookup k s <> None) ->
  esub ret s ->
  match_single f n p i ret = Some res ->
  exists th, res = Some th /\ esub th s.
Proof.
  induction n as [|n IH]; intros p i ret s res Hns Hinst Hcov Hret H; [discriminate|].
  destruct (is_mvar p) eqn:Emv.
  - destruct p; try discriminate. simpl in H. simpl expand in Hinst. rewrite p_inst_mvar in Hinst.
    destruct (alookup id ret) eqn:El.
    + bind_inv H as e He. apply (py_eq_expand f Hkeep Hext) in He.
      rewrite (Hret _ _ El) in Hinst. rewrite Hinst, pat_eqb_refl' in He. subst e.
      inversion H; subst. eauto.
    + inversion H; subst; clear H. eexists; split; [reflexivity|].
      apply esub_snoc; auto.
      destruct (alookup id s) eqn:Es.
      * rewrite Hinst. reflexivity.
      * exfalso. apply (Hcov id); [simpl; auto|exact Es].
  - rewrite (match_single_S _ _ _ _ Emv) in H. unfold body in H. rewrite Hms in H. simpl andb in H.
    destruct (is_inst p) eqn:Einst.
    + bind_inv H as p' Hp'. apply (simplify_expand f Hkeep Hext) in Hp'.
      eapply IH; [| | | exact Hret | exact H]; rewrite Hp'; auto.
    + rewrite (hnf_noninst _ _ Einst) in H. simpl bind in H. bind_inv H as hi Hhi.
      apply (hnf_expand f Hkeep Hext) in Hhi as [Ei Hni]. rewrite <- Ei in Hinst. clear Ei i.
      destruct p; try discriminate; simpl expand in *.
      * (* EVar *) rewrite p_inst_evar in Hinst.
        destruct hi; simpl in Hinst; try discriminate. inversion Hinst; subst.
        simpl in H. rewrite N.eqb_refl in H. inversion H; subst. eauto.
      * rewrite p_inst_svar in Hinst.
        destruct hi; simpl in Hinst; try discriminate. inversion Hinst; subst.
        simpl in H. rewrite N.eqb_refl in H. inversion H; subst. eauto.
      * rewrite p_inst_sym in Hinst.
        destruct hi; simpl in Hinst; try discriminate. inversion Hinst; subst.
        simpl in H. rewrite N.eqb_refl in H. inversion H; subst. eauto.
      * (* Imp *) rewrite p_inst_imp in Hinst. simpl in Hns. apply andb_true_iff in Hns as [Hn1 Hn2].
        destruct hi; simpl in Hinst; try discriminate. inversion Hinst as [[Hi1 Hi2]].
        simpl in H. bind_inv H as r1 Hr1.
        destruct (IH _ _ _ _ _ Hn1 Hi1 (fun k Hk => Hcov k (in_or_app _ _ _ (or_introl Hk))) Hret Hr1) as [t1 [-> Ht1]].
        exact (IH _ _ _ _ _ Hn2 Hi2 (fun k Hk => Hcov k (in_or_app _ _ _ (or_intror Hk))) Ht1 H).
      * (* App *) rewrite p_inst_app in Hinst. simpl in Hns. apply andb_true_iff in Hns as [Hn1 Hn2].
        destruct hi; simpl in Hinst; try discriminate. inversion Hinst as [[Hi1 Hi2]].
        simpl in H. bind_inv H as r1 Hr1.
        destruct (IH _ _ _ _ _ Hn1 Hi1 (fun k Hk => Hcov k (in_or_app _ _ _ (or_introl Hk))) Hret Hr1) as [t1 [-> Ht1]].
        exact (IH _ _ _ _ _ Hn2 Hi2 (fun k Hk => Hcov k (in_or_app _ _ _ (or_intror Hk))) Ht1 H).
      * (* Ex *) rewrite p_inst_ex in Hinst. simpl in Hns.
        destruct hi; simpl in Hinst; try discriminate. inversion Hinst as [[Hx Hi1]]. subst.
        simpl in H. rewrite N.eqb_refl in H.
        exact (IH _ _ _ _ _ Hns Hi1 Hcov Hret H).
      * (* Mu *) rewrite p_inst_mu in Hinst. simpl in Hns.
        destruct hi; simpl in Hinst; try discriminate. inversion Hinst as [[Hx Hi1]]. subst.
        simpl in H. rewrite N.eqb_refl in H.
        exact (IH _ _ _ _ _ Hns Hi1 Hcov Hret H).
Qed.

(** C13 completeness: if the instance is the instantiation, by a map [s] that covers the pattern's
    metavariables and agrees with the seed, of a pattern whose expansion has no pending substitution,
    then matching does not fail (and the answer is part of [s]) *)
Theorem match_complete n p i seed s res :
  nosub (expand f p) = true ->
  p_inst f (expand f p) s = expand f i ->
  (forall k, In k (p_metavars (expand f p)) -> alookup k s <> None) ->
  esub seed s ->
  match_single f n p i seed = Some res ->
  exists th, res = Some th /\ esub th s.
Proof. apply match_complete_aux. Qed.

(** ---------------- lists of equations ---------------- *)
Hypothesis Hml : f_match_list_none f = true.

Theorem match_list_sound n : forall eqs ret th,
  match_list f n eqs ret = Some (Some th) ->
  sub ret th /\
  forall p i, In (p, i) eqs -> forall th', sub th th' -> p_inst f (expand f p) (expand_delta f th') = expand f i.
Proof.
  induction eqs as [|[p i] eqs IH]; simpl; intros ret th H.
  - inversion H; subst. split; [apply sub_refl|]. intros ? ? [].
  - bind_inv H as r1 Hr1. destruct r1 as [ret'|]; [|discriminate].
    rewrite Hml in H. simpl in H. apply IH in H as [A B]. apply match_sound in Hr1 as [A1 B1].
    split; [eapply sub_trans; eauto|].
    intros p0 i0 [Heq|Hin] th' Hs.
    + inversion Heq; subst. apply B1. eapply sub_trans; eauto.
    + eapply B; eauto.
Qed.

Theorem match_list_complete n : forall eqs ret s res,
  (forall p i, In (p, i) eqs ->
     nosub (expand f p) = true /\ p_inst f (expand f p) s = expand f i /\
     (forall k, In k (p_metavars (expand f p)) -> alookup k s <> None)) ->
  esub ret s ->
  match_list f n eqs ret = Some res ->
  exists th, res = Some th /\ esub th s.
Proof.
  induction eqs as [|[p i] eqs IH]; simpl; intros ret s res Hall Hret H.
  - inversion H; subst. eauto.
  - bind_inv H as r1 Hr1. destruct (Hall p i (or_introl eq_refl)) as [H1 [H2 H3]].
    destruct (match_complete _ _ _ _ _ _ H1 H2 H3 Hret Hr1) as [t1 [-> Ht1]].
    rewrite Hml in H. simpl in H. eapply IH; [|exact Ht1|exact H].
    intros p0 i0 Hin. apply Hall. right. exact Hin.
Qed.

(** ---------------- notation round trip ---------------- *)
Hypothesis Han : f_assert_none f = true.

Lemma p_inst'_agree t : forall s1 s2,
  (forall k, In k (p_metavars t) -> alookup k s1 = alookup k s2) -> nosub t = true ->
  p_inst' f t s1 = p_inst' f t s2.
Proof.
  induction t; simpl; intros s1 s2 H Hn; try reflexivity; try discriminate.
  - apply andb_true_iff in Hn as [Hn1 Hn2]. rewrite (IHt1 s1 s2), (IHt2 s1 s2); auto; intros; apply H, in_or_app; auto.
  - apply andb_true_iff in Hn as [Hn1 Hn2]. rewrite (IHt1 s1 s2), (IHt2 s1 s2); auto; intros; apply H, in_or_app; auto.
  - rewrite (IHt s1 s2); auto.
  - rewrite (IHt s1 s2); auto.
  - rewrite (H id); auto.
Qed.
Lemma p_inst'_none t : forall s, (forall k, In k (p_metavars t) -> alookup k s = None) -> nosub t = true ->
  p_inst' f t s = t.
Proof.
  induction t; simpl; intros s H Hn; try reflexivity; try discriminate.
  - apply andb_true_iff in Hn as [Hn1 Hn2]. rewrite IHt1, IHt2; auto; intros; apply H, in_or_app; auto.
  - apply andb_true_iff in Hn as [Hn1 Hn2]. rewrite IHt1, IHt2; auto; intros; apply H, in_or_app; auto.
  - rewrite IHt; auto.
  - rewrite IHt; auto.
  - rewrite (H id); auto.
Qed.
Lemma p_inst_agree t s1 s2 :
  (forall k, In k (p_metavars t) -> alookup k s1 = alookup k s2) -> nosub t = true ->
  p_inst f t s1 = p_inst f t s2.
Proof.
  intros H Hn. destruct s1 as [|a s1]; destruct s2 as [|b s2]; try reflexivity.
  - rewrite p_inst_cons, p_inst_nil. symmetry. apply p_inst'_none; auto. intros k Hk. rewrite <- H; auto.
  - rewrite p_inst_cons, p_inst_nil. apply p_inst'_none; auto.
  - rewrite !p_inst_cons. apply p_inst'_agree; auto.
Qed.

Lemma alookup_enumerate args : forall k0 k,
  alookup k (enumerate_from k0 args) =
  if N.ltb k k0 then None else nth_error args (N.to_nat (k - k0)).
Proof.
  induction args as [|a args IH]; intros k0 k; simpl.
  - destruct (N.ltb k k0); [reflexivity|]. destruct (N.to_nat (k - k0)); reflexivity.
  - destruct (N.eqb k0 k) eqn:E.
    + apply N.eqb_eq in E. subst. rewrite N.ltb_irrefl, N.sub_diag. reflexivity.
    + apply N.eqb_neq in E. rewrite IH.
      destruct (N.ltb k k0) eqn:E1.
      * apply N.ltb_lt in E1. assert (E2 : N.ltb k (k0 + 1) = true) by (apply N.ltb_lt; lia). rewrite E2. reflexivity.
      * apply N.ltb_ge in E1. assert (E2 : N.ltb k (k0 + 1) = false) by (apply N.ltb_ge; lia). rewrite E2.
        replace (N.to_nat (k - k0)) with (S (N.to_nat (k - (k0 + 1)))) by lia. reflexivity.
Qed.

Lemma nth_error_map_nrange {A} (g:N -> A) : forall n k0 j,
  (j < n)%nat -> nth_error (map g (nrange k0 n)) j = Some (g (k0 + N.of_nat j)).
Proof.
  induction n as [|n IH]; intros k0 j Hj; [lia|].
  destruct j; simpl.
  - rewrite N.add_0_r. reflexivity.
  - rewrite IH by lia. f_equal. f_equal. lia.
Qed.

(** C13: deconstructing a notation application returns arguments that rebuild an equal pattern *)
Theorem notation_roundtrip n nt args res :
  length args = nt_arity nt ->
  nosub (expand f (nt_def nt)) = true ->
  (forall k, In k (p_metavars (expand f (nt_def nt))) -> (N.to_nat k < nt_arity nt)%nat) ->
  nassert f n nt (PInst (nt_def nt) (enumerate_from 0 args)) = Some res ->
  exists args', res = Some args' /\ length args' = nt_arity nt /\
    expand f (PInst (nt_def nt) (enumerate_from 0 args')) = expand f (PInst (nt_def nt) (enumerate_from 0 args)).
Proof.
  intros Hlen Hns Hmv H. unfold nassert, nmatches in H.
  bind_inv H as r0 Hr0. bind_inv Hr0 as r1 Hr1. inversion Hr0; subst; clear Hr0.
  set (i := PInst (nt_def nt) (enumerate_from 0 args)) in *.
  assert (Hcov : forall k, In k (p_metavars (expand f (nt_def nt))) ->
                  alookup k (expand_delta f (enumerate_from 0 args)) <> None).
  { intros k Hk. rewrite expand_delta_alookup, alookup_enumerate.
    replace (N.ltb k 0) with false by (symmetry; apply N.ltb_ge; lia). rewrite N.sub_0_r.
    specialize (Hmv _ Hk). destruct (nth_error args (N.to_nat k)) eqn:E; [discriminate|].
    apply nth_error_None in E. lia. }
  destruct (match_complete n (nt_def nt) i [] (expand_delta f (enumerate_from 0 args)) r1 Hns eq_refl Hcov) as [th [-> Hth]];
    [intros k v Hk; discriminate|exact Hr1|].
  rewrite Han in H. simpl in H. inversion H; subst; clear H.
  eexists. split; [reflexivity|]. split.
  { rewrite map_length. clear. generalize 0. induction (nt_arity nt); simpl; auto. }
  apply match_sound_aux in Hr1 as [_ [B C]].
  rewrite !expand_inst. fold i.
  rewrite <- (B (expand_delta f th)) by (apply esub_expand_delta, sub_refl).
  apply p_inst_agree; auto.
  intros k Hk. rewrite !expand_delta_alookup, alookup_enumerate.
  replace (N.ltb k 0) with false by (symmetry; apply N.ltb_ge; lia). rewrite N.sub_0_r.
  specialize (Hmv _ Hk). specialize (C _ Hk).
  rewrite nth_error_map_nrange by exact Hmv. simpl. rewrite N2Nat.id.
  destruct (alookup k th); [reflexivity|congruence].
Qed.

End WithFlags.

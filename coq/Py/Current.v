(** The property theorems for ANY value of [f_mv_keep_subst] -- in particular for [flags_current], the
    configuration the current /repo implements -- on corner-free inputs (Py/Bridge.v): each is the theorem for
    [with_keep f] transported along the bridge equalities. *)
From Coq Require Import NArith List Bool Lia.
From Pi2 Require Import ML.Syntax Py.Pattern Py.PatFacts Py.MetaFacts Py.ExpandFacts Py.MatchFacts Py.RulesFacts
  Py.Termination Py.Total Py.Bridge.
Import ListNotations.
Open Scope N_scope.

Section Current.
Variables se ss : list N.
Variable f : pyflags.
Hypothesis Hext : f_inst_extend f = true.
Notation g := (with_keep f).
Let Hkeep : f_mv_keep_subst g = true := eq_refl.
Let Hextg : f_inst_extend g = true := Hext.

Notation cf := (corner_free se ss).
Notation cfd' := (cfd se ss).

(** ---------------- C12 ---------------- *)
Theorem py_eq_expand_cur n a b r : cf a = true -> cf b = true ->
  py_eq f n a b = Some r -> r = pat_eqb (expand f a) (expand f b).
Proof.
  intros Ha Hb H. rewrite (py_eq_bridge se ss f n a b Ha Hb) in H.
  rewrite (expand_eq se ss f a Ha), (expand_eq se ss f b Hb). exact (py_eq_expand g Hkeep Hextg n a b r H).
Qed.

Theorem py_eq_total_cur a b n : cf a = true -> cf b = true -> (dm a one + dm b one <= n)%nat ->
  py_eq f n a b = Some (pat_eqb (expand f a) (expand f b)).
Proof.
  intros Ha Hb H. rewrite (py_eq_bridge se ss f n a b Ha Hb).
  rewrite (expand_eq se ss f a Ha), (expand_eq se ss f b Hb). exact (py_eq_total g Hkeep Hextg a b n H).
Qed.

Theorem py_inst_expand_cur n p d r : cf p = true -> cfd' d = true ->
  py_inst f n p d = Some r -> expand f r = p_inst f (expand f p) (expand_delta f d).
Proof.
  intros Hp Hd H. rewrite (py_inst_bridge se ss f n p d Hp Hd) in H.
  pose proof (py_inst_cf se ss g n p d r Hp Hd H) as Hr.
  rewrite (expand_eq se ss f r Hr), (expand_eq se ss f p Hp), (expand_delta_eq se ss f d Hd).
  rewrite (p_inst_bridge se ss f _ _ (expand_cfp se ss f p Hp) (expand_delta_cfs se ss f d Hd)).
  exact (py_inst_expand g Hkeep Hextg n p d r H).
Qed.

Theorem py_esubst_expand_cur n p x pl r : cf p = true -> mem x se = true -> cf pl = true ->
  py_esubst f n p x pl = Some r -> expand f r = p_esubst f (expand f p) x (expand f pl).
Proof.
  intros Hp Hx Hpl H. rewrite (py_esubst_bridge se ss f n p x pl Hp Hx Hpl) in H.
  pose proof (py_esubst_cf se ss g n p x pl r Hp Hx Hpl H) as Hr.
  rewrite (expand_eq se ss f r Hr), (expand_eq se ss f p Hp), (expand_eq se ss f pl Hpl).
  rewrite (p_esubst_bridge se ss f _ x _ (expand_cfp se ss f p Hp) Hx).
  exact (py_esubst_expand g Hkeep Hextg n p x pl r H).
Qed.
Theorem py_ssubst_expand_cur n p x pl r : cf p = true -> mem x ss = true -> cf pl = true ->
  py_ssubst f n p x pl = Some r -> expand f r = p_ssubst f (expand f p) x (expand f pl).
Proof.
  intros Hp Hx Hpl H. rewrite (py_ssubst_bridge se ss f n p x pl Hp Hx Hpl) in H.
  pose proof (py_ssubst_cf se ss g n p x pl r Hp Hx Hpl H) as Hr.
  rewrite (expand_eq se ss f r Hr), (expand_eq se ss f p Hp), (expand_eq se ss f pl Hpl).
  rewrite (p_ssubst_bridge se ss f _ x _ (expand_cfp se ss f p Hp) Hx).
  exact (py_ssubst_expand g Hkeep Hextg n p x pl r H).
Qed.

Theorem simplify_expand_cur n p r : cf p = true -> simplify f n p = Some r -> expand f r = expand f p.
Proof.
  intros Hp H. rewrite (simplify_bridge se ss f n p Hp) in H.
  pose proof (simplify_cf se ss g n p r Hp H) as Hr.
  rewrite (expand_eq se ss f r Hr), (expand_eq se ss f p Hp). exact (simplify_expand g Hkeep Hextg n p r H).
Qed.

Theorem py_fresh_expand_cur : f_fresh_simplify f = true -> forall n p x r, cf p = true ->
  py_fresh f n p x = Some r -> r = e_fresh (expand f p) x.
Proof.
  intros Hfr n p x r Hp H. rewrite (py_fresh_bridge se ss f n p x Hp) in H.
  rewrite (expand_eq se ss f p Hp). exact (py_fresh_expand g Hkeep Hextg Hfr n p x r H).
Qed.

(** ---------------- C11 (notation-free composition law) ---------------- *)
Lemma amap_ext_in {A B} (F G:A -> B) (d:list (N*A)) : (forall kv, In kv d -> F (snd kv) = G (snd kv)) -> amap F d = amap G d.
Proof. intro H. unfold amap. apply map_ext_in. intros kv Hin. rewrite (H kv Hin). reflexivity. Qed.

Theorem p_inst_comp_cur t s' s : cfp se ss t = true -> cfs se ss s' = true -> cfs se ss s = true ->
  p_inst f (p_inst f t s') s = p_inst f t (amap (fun v => p_inst f v s) s' ++ unshadowed s s').
Proof.
  intros Ht Hs' Hs.
  assert (E1 : amap (fun v => p_inst f v s) s' = amap (fun v => p_inst g v s) s').
  { apply amap_ext_in. intros kv Hin. apply p_inst_bridge with (se := se) (ss := ss); auto.
    unfold cfs in Hs'. rewrite forallb_forall in Hs'. apply (Hs' kv Hin). }
  assert (C1 : cfs se ss (amap (fun v => p_inst g v s) s' ++ unshadowed s s') = true).
  { unfold cfs. rewrite forallb_app. apply andb_true_iff. split.
    - apply forallb_forall. intros kv Hin. unfold amap in Hin. apply in_map_iff in Hin as [kv0 [<- Hin]]. simpl.
      apply p_inst_cfp; auto. unfold cfs in Hs'. rewrite forallb_forall in Hs'. apply (Hs' kv0 Hin).
    - apply forallb_filter. exact Hs. }
  rewrite (p_inst_bridge se ss f t s' Ht Hs').
  rewrite (p_inst_bridge se ss f _ s (p_inst_cfp se ss g t s' Ht Hs') Hs).
  rewrite E1. rewrite (p_inst_bridge se ss f t _ Ht C1).
  exact (p_inst_comp g Hkeep t s' s).
Qed.

(** ---------------- C13 ---------------- *)
Lemma nosub_p_inst'_any h1 h2 t s : nosub t = true -> p_inst' h1 t s = p_inst' h2 t s.
Proof.
  induction t; simpl; intro Hn; try reflexivity; try discriminate.
  - apply andb_true_iff in Hn as [? ?]. rewrite IHt1, IHt2; auto.
  - apply andb_true_iff in Hn as [? ?]. rewrite IHt1, IHt2; auto.
  - rewrite IHt; auto.
  - rewrite IHt; auto.
Qed.
Lemma nosub_p_inst_any h1 h2 t s : nosub t = true -> p_inst h1 t s = p_inst h2 t s.
Proof. intro H. unfold p_inst. destruct (isnil s); auto. apply nosub_p_inst'_any. exact H. Qed.

Lemma esub_cur th s : cfd' th = true -> (esub f th s <-> esub g th s).
Proof.
  intro Hth. unfold esub. split; intros H k v Hk; specialize (H k v Hk);
    rewrite (expand_eq se ss f v (cfd_alookup se ss th k v Hth Hk)) in *; exact H.
Qed.

Theorem match_sound_cur n p i seed th : cf p = true -> cf i = true -> cfd' seed = true ->
  match_single f n p i seed = Some (Some th) ->
  sub seed th /\ cfd' th = true /\
  forall th', cfd' th' = true -> sub th th' -> p_inst f (expand f p) (expand_delta f th') = expand f i.
Proof.
  intros Hp Hi Hs H. destruct (match_single_bridge se ss f n p i seed Hp Hi Hs) as [E C]. rewrite E in H.
  destruct (match_sound g Hkeep Hextg n p i seed th H) as [A B]. split; [exact A|]. split; [exact (C th H)|].
  intros th' Hth' Hsub.
  rewrite (expand_eq se ss f p Hp), (expand_eq se ss f i Hi), (expand_delta_eq se ss f th' Hth').
  rewrite (p_inst_bridge se ss f _ _ (expand_cfp se ss f p Hp) (expand_delta_cfs se ss f th' Hth')).
  apply B. exact Hsub.
Qed.

Theorem match_complete_cur : f_match_simplify f = true -> forall n p i seed s res,
  cf p = true -> cf i = true -> cfd' seed = true ->
  nosub (expand f p) = true ->
  p_inst f (expand f p) s = expand f i ->
  (forall k, In k (p_metavars (expand f p)) -> alookup k s <> None) ->
  esub f seed s ->
  match_single f n p i seed = Some res ->
  exists th, res = Some th /\ esub f th s.
Proof.
  intros Hms n p i seed s res Hp Hi Hsd Hns Hinst Hcov Hseed H.
  destruct (match_single_bridge se ss f n p i seed Hp Hi Hsd) as [E C]. rewrite E in H.
  rewrite (expand_eq se ss f p Hp) in Hns, Hinst, Hcov. rewrite (expand_eq se ss f i Hi) in Hinst.
  rewrite (nosub_p_inst_any f g _ s Hns) in Hinst.
  apply (esub_cur seed s Hsd) in Hseed.
  destruct (match_complete g Hkeep Hextg Hms n p i seed s res Hns Hinst Hcov Hseed H) as [th [-> Hth]].
  exists th. split; [reflexivity|]. apply (esub_cur th s (C th H)). exact Hth.
Qed.

(** equation lists *)
Theorem match_list_sound_cur : f_match_list_none f = true -> forall n eqs th,
  forallb (fun e => cf (fst e) && cf (snd e)) eqs = true ->
  match_list f n eqs [] = Some (Some th) ->
  forall p i, In (p, i) eqs -> forall th', cfd' th' = true -> sub th th' ->
    p_inst f (expand f p) (expand_delta f th') = expand f i.
Proof.
  intros Hml n eqs th Hall H p i Hin th' Hth' Hsub.
  rewrite (match_list_bridge se ss f n eqs [] Hall eq_refl) in H.
  destruct (match_list_sound g Hkeep Hextg Hml n eqs [] th H) as [_ B].
  rewrite forallb_forall in Hall. specialize (Hall (p, i) Hin). apply andb_true_iff in Hall as [Hp Hi]. simpl in Hp, Hi.
  rewrite (expand_eq se ss f p Hp), (expand_eq se ss f i Hi), (expand_delta_eq se ss f th' Hth').
  rewrite (p_inst_bridge se ss f _ _ (expand_cfp se ss f p Hp) (expand_delta_cfs se ss f th' Hth')).
  exact (B p i Hin th' Hsub).
Qed.

Theorem match_list_complete_cur : f_match_simplify f = true -> f_match_list_none f = true -> forall n eqs s res,
  forallb (fun e => cf (fst e) && cf (snd e)) eqs = true ->
  (forall p i, In (p, i) eqs ->
     nosub (expand f p) = true /\ p_inst f (expand f p) s = expand f i /\
     (forall k, In k (p_metavars (expand f p)) -> alookup k s <> None)) ->
  match_list f n eqs [] = Some res -> exists th, res = Some th.
Proof.
  intros Hms Hml n eqs s res Hall Hs H.
  rewrite (match_list_bridge se ss f n eqs [] Hall eq_refl) in H.
  destruct (match_list_complete g Hkeep Hextg Hms Hml n eqs [] s res) as [th [-> _]]; [| |exact H|eauto].
  - intros p i Hin. destruct (Hs p i Hin) as [H1 [H2 H3]].
    rewrite forallb_forall in Hall. specialize (Hall (p, i) Hin). apply andb_true_iff in Hall as [Hp Hi]. simpl in Hp, Hi.
    rewrite (expand_eq se ss f p Hp) in H1, H2, H3. rewrite (expand_eq se ss f i Hi) in H2.
    rewrite (nosub_p_inst_any f g _ s H1) in H2. auto.
  - intros k v Hk. discriminate.
Qed.

(** ---------------- C07 ---------------- *)
Theorem mp_exact_cur n L R res : cf L = true -> cf R = true -> basic_mp f n L R = Some res ->
  forall c', (exists c, res = Some c /\ cf c = true /\ expand f c = c') <-> expand f L = Imp (expand f R) c'.
Proof.
  intros HL HR H. rewrite (basic_mp_bridge se ss f n L R HL HR) in H.
  rewrite (expand_eq se ss f L HL), (expand_eq se ss f R HR). intro c'.
  pose proof (mp_exact g Hkeep Hextg n L R res H c') as M.
  assert (Hc : forall c, res = Some c -> cf c = true).
  { intros c ->. unfold basic_mp, unwrap_imp in H. bind_inv H as u Hu. bind_inv Hu as h0 Hh. inversion Hu; subst; clear Hu.
    pose proof (hnf_cf se ss g n L h0 HL Hh) as Ch. destruct h0; try discriminate.
    simpl in Ch. apply andb_true_iff in Ch as [C1 C2]. bind_inv H as e He. destruct e; inversion H; subst. exact C2. }
  split.
  - intros [c [Hr [_ Hx]]]. apply M. exists c. split; [exact Hr|]. rewrite <- (expand_eq se ss f c (Hc c Hr)). exact Hx.
  - intro Hx. apply M in Hx as [c [Hr Hx]]. exists c. split; [exact Hr|]. split; [exact (Hc c Hr)|].
    rewrite (expand_eq se ss f c (Hc c Hr)). exact Hx.
Qed.

Theorem gen_exact_cur : f_fresh_simplify f = true -> forall n C x res, cf C = true -> basic_gen f n C x = Some res ->
  forall c', (exists c, res = Some c /\ cf c = true /\ expand f c = c') <->
             (exists l r, expand f C = Imp l r /\ e_fresh r x = true /\ c' = Imp (Ex x l) r).
Proof.
  intros Hfr n C x res HC H. rewrite (basic_gen_bridge se ss f n C x HC) in H.
  rewrite (expand_eq se ss f C HC). intro c'.
  pose proof (gen_exact g Hkeep Hextg Hfr n C x res H c') as M.
  assert (Hc : forall c, res = Some c -> cf c = true).
  { intros c ->. unfold basic_gen, unwrap_imp in H. bind_inv H as u Hu. bind_inv Hu as h0 Hh. inversion Hu; subst; clear Hu.
    pose proof (hnf_cf se ss g n C h0 HC Hh) as Ch. destruct h0; try discriminate.
    simpl in Ch. apply andb_true_iff in Ch as [C1 C2]. bind_inv H as e He. destruct e; inversion H; subst.
    simpl. rewrite C1, C2. reflexivity. }
  split.
  - intros [c [Hr [_ Hx]]]. apply M. exists c. split; [exact Hr|]. rewrite <- (expand_eq se ss f c (Hc c Hr)). exact Hx.
  - intro Hx. apply M in Hx as [c [Hr Hx]]. exists c. split; [exact Hr|]. split; [exact (Hc c Hr)|].
    rewrite (expand_eq se ss f c (Hc c Hr)). exact Hx.
Qed.

Theorem inst_exact_cur n C d c : cf C = true -> cfd' d = true -> basic_inst f n C d = Some c ->
  expand f c = p_inst f (expand f C) (expand_delta f d).
Proof.
  intros HC Hd H. unfold basic_inst in H. destruct d as [|kv d0] eqn:Ed.
  - simpl in H. inversion H; subst. reflexivity.
  - rewrite <- Ed in *. assert (Hn : isnil d = false) by (subst d; reflexivity). rewrite Hn in H.
    apply py_inst_expand_cur in H; auto.
Qed.

End Current.

(** Total-correctness corollaries: the partial-correctness theorems of ExpandFacts/MatchFacts/RulesFacts
    combined with Termination.v, at an explicit amount of fuel computed from the arguments ([dm]). *)
From Coq Require Import NArith List Bool Lia Arith.
From Pi2 Require Import ML.Syntax Py.Pattern Py.PatFacts Py.MetaFacts Py.ExpandFacts Py.MatchFacts Py.RulesFacts Py.Termination.
Import ListNotations.
Close Scope N_scope.

Section WithFlags.
Variable f : pyflags.
Hypothesis Hkeep : f_mv_keep_subst f = true.
Hypothesis Hext : f_inst_extend f = true.

Theorem py_eq_total a b n : dm a one + dm b one <= n ->
  py_eq f n a b = Some (pat_eqb (expand f a) (expand f b)).
Proof.
  intro H. destruct (py_eq_terminates f Hext n a b H) as [r Hr].
  rewrite Hr. f_equal. eapply py_eq_expand; eauto.
Qed.

Theorem py_inst_total p d n : dm p (E d) <= n ->
  exists r, py_inst f n p d = Some r /\ expand f r = p_inst f (expand f p) (expand_delta f d).
Proof.
  intro H. destruct (py_inst_terminates f Hext n p d H) as [r [Hr _]].
  exists r. split; [exact Hr|]. eapply py_inst_expand; eauto.
Qed.
Theorem py_esubst_total p x g n : dm p one <= n ->
  exists r, py_esubst f n p x g = Some r /\ expand f r = p_esubst f (expand f p) x (expand f g).
Proof.
  intro H. destruct (py_esubst_terminates f Hext n p x g H) as [r [Hr _]].
  exists r. split; [exact Hr|]. eapply py_esubst_expand; eauto.
Qed.
Theorem py_ssubst_total p x g n : dm p one <= n ->
  exists r, py_ssubst f n p x g = Some r /\ expand f r = p_ssubst f (expand f p) x (expand f g).
Proof.
  intro H. destruct (py_ssubst_terminates f Hext n p x g H) as [r [Hr _]].
  exists r. split; [exact Hr|]. eapply py_ssubst_expand; eauto.
Qed.

Theorem py_fresh_total : f_fresh_simplify f = true -> forall p x n, dm p one <= n ->
  py_fresh f n p x = Some (e_fresh (expand f p) x).
Proof.
  intros Hfr p x n H. destruct (py_fresh_terminates f Hext n p x H) as [r Hr].
  rewrite Hr. f_equal. eapply py_fresh_expand; eauto.
Qed.

(** matching always answers; the answer is sound, and not [None] on instances of substitution-free patterns *)
Theorem match_single_total p i n : dm p one + dm i one + dm i one <= n ->
  exists res, match_single f n p i [] = Some res /\
    (forall th, res = Some th ->
       forall th', sub th th' -> p_inst f (expand f p) (expand_delta f th') = expand f i) /\
    (f_match_simplify f = true -> nosub (expand f p) = true ->
     forall s, p_inst f (expand f p) s = expand f i ->
       (forall k, In k (p_metavars (expand f p)) -> alookup k s <> None) -> res <> None).
Proof.
  intro H.
  destruct (match_single_terminates f Hext n p i [] (dm i one) H (le_n _) (fun kv Hin => match Hin with end)) as [res [Hr _]].
  exists res. split; [exact Hr|]. split.
  - intros th -> th' Hs. apply (match_sound f Hkeep Hext) in Hr as [_ Hr]. apply Hr. exact Hs.
  - intros Hms Hns s Hs Hcov.
    destruct (match_complete f Hkeep Hext Hms n p i [] s res Hns Hs Hcov) as [th [-> _]]; [|exact Hr|discriminate].
    intros k v Hk. discriminate.
Qed.

Theorem basic_mp_total L R n : dm L one + dm R one <= n ->
  exists res, basic_mp f n L R = Some res /\
    forall c', (exists c, res = Some c /\ expand f c = c') <-> expand f L = Imp (expand f R) c'.
Proof.
  intro H. destruct (basic_mp_terminates f Hext n L R H) as [res Hr].
  exists res. split; [exact Hr|]. eapply mp_exact; eauto.
Qed.
Theorem basic_gen_total : f_fresh_simplify f = true -> forall C x n, dm C one <= n ->
  exists res, basic_gen f n C x = Some res /\
    forall c', (exists c, res = Some c /\ expand f c = c') <->
               (exists l r, expand f C = Imp l r /\ e_fresh r x = true /\ c' = Imp (Ex x l) r).
Proof.
  intros Hfr C x n H. destruct (basic_gen_terminates f Hext n C x H) as [res Hr].
  exists res. split; [exact Hr|]. eapply gen_exact; eauto.
Qed.
Theorem basic_inst_total C d n : dm C (E d) <= n ->
  exists c, basic_inst f n C d = Some c /\ expand f c = p_inst f (expand f C) (expand_delta f d).
Proof.
  intro H. destruct (basic_inst_terminates f Hext n C d H) as [c Hc].
  exists c. split; [exact Hc|]. eapply inst_exact; eauto.
Qed.

End WithFlags.

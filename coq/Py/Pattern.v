(** M3: the generator's patterns (generation/src/proof_generation/pattern.py).
    Model only; proofs live in Py/*Facts.v.

    [ppat] is the Python class hierarchy [Pattern]; [PInst p d] is [Instantiate(pattern=p, inst=d)]
    with [d] the insertion-ordered [frozendict] (keys unique; first-match lookup).
    Symbols carry an [N] id (the harness numbers the Python [str] names injectively).

    Python never raises inside [instantiate]/[apply_esubst]/[apply_ssubst]/[__eq__]/[evar_is_free];
    these functions are not structurally recursive ([Instantiate.*] goes through [simplify()]), so they
    are modelled on explicit fuel: outer [None] = out of fuel (excluded in every theorem statement and
    shown impossible by [Py/Termination.v]); where Python can raise/return [None] there is an inner
    option.

    Known defects of the pinned sources are reproduced under the named flags of [pyflags]; the
    theorems are proved for [flags_sound], [_refuted] witnesses exist for each flag switched off. *)
From Coq Require Import NArith List Bool.
From Pi2 Require Import ML.Syntax.
Import ListNotations.
Open Scope N_scope.

Inductive ppat :=
| PEVar (n:N) | PSVar (n:N) | PSym (n:N)
| PImp (l r:ppat) | PApp (l r:ppat) | PEx (x:N) (p:ppat) | PMu (X:N) (p:ppat)
| PMVar (id:N) (ef sf pos neg holes: list N)
| PESub (p:ppat) (x:N) (plug:ppat) | PSSub (p:ppat) (X:N) (plug:ppat)
| PInst (p:ppat) (d:list (N*ppat)).

Definition delta := list (N * ppat).

Record pyflags := {
  f_fresh_simplify  : bool; (* D3 repaired: Instantiate.evar_is_free = self.simplify().evar_is_free *)
  f_inst_extend     : bool; (* D5 repaired: Instantiate.instantiate extends inst instead of pushing delta under it *)
  f_mv_keep_subst   : bool; (* MetaVar.apply_esubst/ssubst always wrap (no "declared fresh => drop"); D9d *)
  f_match_list_none : bool; (* D4a repaired: match() tests `submatch is None` *)
  f_assert_none     : bool; (* D4b repaired: Notation.assert_matches tests `is not None` *)
  f_match_simplify  : bool  (* D4c repaired: match_single simplifies an Instantiate pattern before dispatch *)
}.
Definition flags_sound : pyflags :=
  {| f_fresh_simplify := true; f_inst_extend := true; f_mv_keep_subst := true;
     f_match_list_none := true; f_assert_none := true; f_match_simplify := true |}.
(** the pinned tree before any fix commit *)
Definition flags_pinned : pyflags :=
  {| f_fresh_simplify := false; f_inst_extend := false; f_mv_keep_subst := false;
     f_match_list_none := false; f_assert_none := false; f_match_simplify := false |}.

(** ---- insertion-ordered maps ---- *)
Fixpoint alookup {A} (k:N) (d:list (N*A)) : option A :=
  match d with
  | [] => None
  | kv::t => if N.eqb (fst kv) k then Some (snd kv) else alookup k t
  end.
Definition amem {A} (k:N) (d:list (N*A)) : bool := existsb (fun kv => N.eqb (fst kv) k) d.
Definition amap {A B} (g:A -> B) (d:list (N*A)) : list (N*B) := map (fun kv => (fst kv, g (snd kv))) d.
Definition unshadowed {A B} (d:list (N*A)) (inst:list (N*B)) : list (N*A) :=
  filter (fun kv => negb (amem (fst kv) inst)) d.
Definition isnil {A} (l:list A) : bool := match l with [] => true | _ => false end.

Definition bind {A B} (o:option A) (g:A -> option B) : option B :=
  match o with Some a => g a | None => None end.
Fixpoint map_opt {A B} (g:A -> option B) (l:list A) : option (list B) :=
  match l with
  | [] => Some []
  | a::t => bind (g a) (fun b => bind (map_opt g t) (fun t' => Some (b::t')))
  end.

(** embedding of notation-free patterns *)
Fixpoint embed (p:pat) : ppat :=
  match p with
  | EVar n => PEVar n | SVar n => PSVar n | Sym n => PSym n
  | Imp l r => PImp (embed l) (embed r) | App l r => PApp (embed l) (embed r)
  | Ex x q => PEx x (embed q) | Mu X q => PMu X (embed q)
  | MVar i a b c d e => PMVar i a b c d e
  | ESub q x g => PESub (embed q) x (embed g) | SSub q X g => PSSub (embed q) X (embed g)
  end.

Section WithFlags.
Variable f : pyflags.

(** ================= notation-free fragment: the same Python methods on [pat] ================= *)

(** apply_esubst on EVar..SSubst (pattern.py:130-468) *)
Fixpoint p_esubst (p:pat) (x:N) (plug:pat) : pat :=
  match p with
  | EVar n => if N.eqb x n then plug else p
  | SVar _ | Sym _ => p
  | Imp l r => Imp (p_esubst l x plug) (p_esubst r x plug)
  | App l r => App (p_esubst l x plug) (p_esubst r x plug)
  | Ex y q => if N.eqb x y then p else Ex y (p_esubst q x plug)
  | Mu Y q => Mu Y (p_esubst q x plug)
  | MVar _ ef _ _ _ _ => if negb (f_mv_keep_subst f) && mem x ef then p else ESub p x plug
  | ESub _ _ _ | SSub _ _ _ => ESub p x plug
  end.

Fixpoint p_ssubst (p:pat) (X:N) (plug:pat) : pat :=
  match p with
  | SVar n => if N.eqb X n then plug else p
  | EVar _ | Sym _ => p
  | Imp l r => Imp (p_ssubst l X plug) (p_ssubst r X plug)
  | App l r => App (p_ssubst l X plug) (p_ssubst r X plug)
  | Ex y q => Ex y (p_ssubst q X plug)
  | Mu Y q => if N.eqb X Y then p else Mu Y (p_ssubst q X plug)
  | MVar _ _ sf _ _ _ => if negb (f_mv_keep_subst f) && mem X sf then p else SSub p X plug
  | ESub _ _ _ | SSub _ _ _ => SSub p X plug
  end.

(** instantiate with a non-empty delta (the map does not change during the recursion on a
    notation-free pattern, so the per-node `if not delta: return self` is one test at the top) *)
Fixpoint p_inst' (p:pat) (d:list (N*pat)) : pat :=
  match p with
  | EVar _ | SVar _ | Sym _ => p
  | MVar id _ _ _ _ _ => match alookup id d with Some v => v | None => p end
  | Imp l r => Imp (p_inst' l d) (p_inst' r d)
  | App l r => App (p_inst' l d) (p_inst' r d)
  | Ex y q => Ex y (p_inst' q d)
  | Mu Y q => Mu Y (p_inst' q d)
  | ESub q x plug => p_esubst (p_inst' q d) x (p_inst' plug d)
  | SSub q X plug => p_ssubst (p_inst' q d) X (p_inst' plug d)
  end.
Definition p_inst (p:pat) (d:list (N*pat)) : pat := if isnil d then p else p_inst' p d.

(** full notation expansion (the specification side: innermost first, structural) *)
Fixpoint expand (p:ppat) : pat :=
  match p with
  | PEVar n => EVar n | PSVar n => SVar n | PSym n => Sym n
  | PImp l r => Imp (expand l) (expand r) | PApp l r => App (expand l) (expand r)
  | PEx x q => Ex x (expand q) | PMu X q => Mu X (expand q)
  | PMVar i a b c d e => MVar i a b c d e
  | PESub q x g => ESub (expand q) x (expand g) | PSSub q X g => SSub (expand q) X (expand g)
  | PInst q d => p_inst (expand q) (map (fun kv => (fst kv, expand (snd kv))) d)
  end.
Definition expand_delta (d:delta) : list (N*pat) := map (fun kv => (fst kv, expand (snd kv))) d.

(** ================= the methods on [ppat] ================= *)

(** metavars() (a Python set: compare up to order and multiplicity), pattern.py:124-509; structural *)
Fixpoint metavars (p:ppat) : list N :=
  match p with
  | PEVar _ | PSVar _ | PSym _ => []
  | PImp l r | PApp l r => metavars l ++ metavars r
  | PEx _ q | PMu _ q => metavars q
  | PMVar id _ _ _ _ _ => [id]
  | PESub q _ plug | PSSub q _ plug => metavars q ++ metavars plug
  | PInst q d =>
      let dm := map (fun kv => (fst kv, metavars (snd kv))) d in
      flat_map (fun v => match alookup v dm with Some l => l | None => [v] end) (metavars q)
  end.

Fixpoint p_metavars (p:pat) : list N :=
  match p with
  | EVar _ | SVar _ | Sym _ => []
  | Imp l r | App l r => p_metavars l ++ p_metavars r
  | Ex _ q | Mu _ q => p_metavars q
  | MVar id _ _ _ _ _ => [id]
  | ESub q _ plug | SSub q _ plug => p_metavars q ++ p_metavars plug
  end.

Definition drop_e (ef:list N) (x:N) : bool := negb (f_mv_keep_subst f) && mem x ef.

Fixpoint py_inst (n:nat) (p:ppat) (d:delta) {struct n} : option ppat :=
  match n with O => None | S n =>
  match p with
  | PEVar _ | PSVar _ | PSym _ => Some p
  | PMVar id _ _ _ _ _ => Some (match alookup id d with Some v => v | None => p end)
  | PImp l r => if isnil d then Some p else
      bind (py_inst n l d) (fun l' => bind (py_inst n r d) (fun r' => Some (PImp l' r')))
  | PApp l r => if isnil d then Some p else
      bind (py_inst n l d) (fun l' => bind (py_inst n r d) (fun r' => Some (PApp l' r')))
  | PEx y q => if isnil d then Some p else bind (py_inst n q d) (fun q' => Some (PEx y q'))
  | PMu Y q => if isnil d then Some p else bind (py_inst n q d) (fun q' => Some (PMu Y q'))
  | PESub q x plug => if isnil d then Some p else
      bind (py_inst n q d) (fun q' => bind (py_inst n plug d) (fun g => py_esubst n q' x g))
  | PSSub q X plug => if isnil d then Some p else
      bind (py_inst n q d) (fun q' => bind (py_inst n plug d) (fun g => py_ssubst n q' X g))
  | PInst q d' =>
      (* pattern.py Instantiate.instantiate *)
      if f_inst_extend f then
        (* repaired: an empty inst can neither shadow nor capture, instantiate the pattern itself;
           otherwise keep the pattern and extend inst with the bindings of delta that are not shadowed
           and that the pattern can mention *)
        if isnil d' then bind (py_inst n q d) (fun q' => Some (PInst q' []))
        else
          bind (map_opt (fun kv => bind (py_inst n (snd kv) d) (fun v => Some (fst kv, v))) d') (fun d'' =>
          Some (PInst q (d'' ++ filter (fun kv => mem (fst kv) (metavars q)) (unshadowed d d'))))
      else
        (* pinned: the unshadowed part of delta is pushed under the notation (D5) *)
        bind (map_opt (fun kv => bind (py_inst n (snd kv) d) (fun v => Some (fst kv, v))) d') (fun d'' =>
        bind (py_inst n q (unshadowed d d')) (fun q' => Some (PInst q' d'')))
  end end
with py_esubst (n:nat) (p:ppat) (x:N) (plug:ppat) {struct n} : option ppat :=
  match n with O => None | S n =>
  match p with
  | PEVar m => Some (if N.eqb x m then plug else p)
  | PSVar _ | PSym _ => Some p
  | PImp l r => bind (py_esubst n l x plug) (fun l' => bind (py_esubst n r x plug) (fun r' => Some (PImp l' r')))
  | PApp l r => bind (py_esubst n l x plug) (fun l' => bind (py_esubst n r x plug) (fun r' => Some (PApp l' r')))
  | PEx y q => if N.eqb x y then Some p else bind (py_esubst n q x plug) (fun q' => Some (PEx y q'))
  | PMu Y q => bind (py_esubst n q x plug) (fun q' => Some (PMu Y q'))
  | PMVar _ ef _ _ _ _ => Some (if negb (f_mv_keep_subst f) && mem x ef then p else PESub p x plug)
  | PESub _ _ _ | PSSub _ _ _ => Some (PESub p x plug)
  | PInst q d => bind (py_inst n q d) (fun r => py_esubst n r x plug)
  end end
with py_ssubst (n:nat) (p:ppat) (X:N) (plug:ppat) {struct n} : option ppat :=
  match n with O => None | S n =>
  match p with
  | PSVar m => Some (if N.eqb X m then plug else p)
  | PEVar _ | PSym _ => Some p
  | PImp l r => bind (py_ssubst n l X plug) (fun l' => bind (py_ssubst n r X plug) (fun r' => Some (PImp l' r')))
  | PApp l r => bind (py_ssubst n l X plug) (fun l' => bind (py_ssubst n r X plug) (fun r' => Some (PApp l' r')))
  | PEx y q => bind (py_ssubst n q X plug) (fun q' => Some (PEx y q'))
  | PMu Y q => if N.eqb X Y then Some p else bind (py_ssubst n q X plug) (fun q' => Some (PMu Y q'))
  | PMVar _ _ sf _ _ _ => Some (if negb (f_mv_keep_subst f) && mem X sf then p else PSSub p X plug)
  | PESub _ _ _ | PSSub _ _ _ => Some (PSSub p X plug)
  | PInst q d => bind (py_inst n q d) (fun r => py_ssubst n r X plug)
  end end.

(** Instantiate.simplify (pattern.py:489): one level *)
Definition simplify (n:nat) (p:ppat) : option ppat :=
  match p with PInst q d => py_inst n q d | _ => Some p end.

(** what unwrap/deconstruct do before looking at the class: simplify while it is an Instantiate *)
Fixpoint hnf (n:nat) (p:ppat) {struct n} : option ppat :=
  match p with
  | PInst q d => match n with O => None | S n => bind (py_inst n q d) (hnf n) end
  | _ => Some p
  end.

Definition is_inst (p:ppat) : bool := match p with PInst _ _ => true | _ => false end.

(** [a == b]: dataclass __eq__ (same class: field tuples compared left to right; otherwise
    NotImplemented, so Python tries the reflected [b.__eq__(a)]), Instantiate.__eq__ (pattern.py:495) *)
Fixpoint py_eq (n:nat) (a b:ppat) {struct n} : option bool :=
  match n with O => None | S n =>
  let both (x x' y y':ppat) :=
    bind (py_eq n x x') (fun r => if r then py_eq n y y' else Some false) in
  match a, b with
  | PInst q d, _ => bind (py_inst n q d) (fun a' => py_eq n a' b)
  | _, PInst q d => bind (py_inst n q d) (fun b' => py_eq n b' a)
  | PEVar x, PEVar y | PSVar x, PSVar y | PSym x, PSym y => Some (N.eqb x y)
  | PImp l r, PImp l' r' | PApp l r, PApp l' r' => both l l' r r'
  | PEx x q, PEx y q' | PMu x q, PMu y q' => if N.eqb x y then py_eq n q q' else Some false
  | PMVar i a1 a2 a3 a4 a5, PMVar j b1 b2 b3 b4 b5 =>
      Some (N.eqb i j && list_eqb a1 b1 && list_eqb a2 b2 && list_eqb a3 b3 && list_eqb a4 b4 && list_eqb a5 b5)
  | PESub q x g, PESub q' y g' | PSSub q x g, PSSub q' y g' =>
      bind (py_eq n q q') (fun r => if r && N.eqb x y then py_eq n g g' else Some false)
  | _, _ => Some false
  end end.

(** evar_is_free (returns True when the variable is FRESH), pattern.py:121-500 *)
Fixpoint py_fresh (n:nat) (p:ppat) (x:N) {struct n} : option bool :=
  match n with O => None | S n =>
  let both (a b:ppat) := bind (py_fresh n a x) (fun r => if r then py_fresh n b x else Some false) in
  match p with
  | PEVar m => Some (negb (N.eqb x m))
  | PSVar _ | PSym _ => Some true
  | PImp l r | PApp l r => both l r
  | PEx y q => if N.eqb x y then Some true else py_fresh n q x
  | PMu _ q => py_fresh n q x
  | PMVar _ ef _ _ _ _ => Some (mem x ef)
  | PESub q y plug => if N.eqb y x then py_fresh n plug x else both q plug
  | PSSub q _ plug => both q plug
  | PInst q d =>
      if f_fresh_simplify f then bind (py_inst n q d) (fun r => py_fresh n r x)
      else (* pinned: self.pattern.evar_is_free(name) or any(value.evar_is_free(name) ...) *)
        bind (py_fresh n q x) (fun r => if r then Some true else
          (fix any (l:delta) : option bool :=
             match l with
             | [] => Some false
             | kv::t => bind (py_fresh n (snd kv) x) (fun r => if r then Some true else any t)
             end) d)
  end end.

(** ================= matching (pattern.py:12-77) ================= *)

(** [match_single(pattern, instance, extend)]: outer option = fuel, inner = Python's [None] *)
Fixpoint match_single (n:nat) (p i:ppat) (ret:delta) {struct n} : option (option delta) :=
  match n with O => None | S n =>
  let seq2 (a a' b b':ppat) :=
    bind (match_single n a a' ret) (fun r =>
      match r with None => Some None | Some ret' => match_single n b b' ret' end) in
  match p with
  | PMVar id _ _ _ _ _ =>
      match alookup id ret with
      | Some v => bind (py_eq n v i) (fun e => Some (if e then Some ret else None))
      | None => Some (Some (ret ++ [(id, i)]))      (* can_be_replaced_by is constantly True *)
      end
  | _ =>
    if f_match_simplify f && is_inst p then bind (simplify n p) (fun p' => match_single n p' i ret) else
    bind (hnf n p) (fun hp => bind (hnf n i) (fun hi =>
      match hp, hi with
      | PImp a b, PImp a' b' | PApp a b, PApp a' b' => seq2 a a' b b'
      | PEVar x, PEVar y | PSVar x, PSVar y | PSym x, PSym y => Some (if N.eqb x y then Some ret else None)
      | PEx x a, PEx y b | PMu x a, PMu y b => if N.eqb x y then match_single n a b ret else Some None
      | _, _ => Some None
      end))
  end end.

(** [match(equations)] *)
Fixpoint match_list (n:nat) (eqs:list (ppat*ppat)) (ret:delta) : option (option delta) :=
  match eqs with
  | [] => Some (Some ret)
  | e::t => bind (match_single n (fst e) (snd e) ret) (fun r =>
      match r with
      | None => Some None
      | Some ret' => if negb (f_match_list_none f) && isnil ret' then Some None   (* `if not submatch` *)
                     else match_list n t ret'
      end)
  end.

(** ================= Notation (pattern.py:542-577) ================= *)

Inductive chunk := Lit (s:list N) | Hole (i:nat).
Record notation := { nt_label : list N; nt_arity : nat; nt_def : ppat; nt_fmt : list chunk }.

Fixpoint enumerate_from (k:N) (l:list ppat) : delta :=
  match l with [] => [] | a::t => (k,a) :: enumerate_from (k+1) t end.
(** [__call__]: [None] = AssertionError (wrong number of arguments) *)
Definition ncall (nt:notation) (args:list ppat) : option ppat :=
  if Nat.eqb (length args) (nt_arity nt) then Some (PInst (nt_def nt) (enumerate_from 0 args)) else None.

Definition plain_mv (i:N) : ppat := PMVar i [] [] [] [] [].
Fixpoint nrange (k:N) (n:nat) : list N := match n with O => [] | S n => k :: nrange (k+1) n end.
Definition nmatches (n:nat) (nt:notation) (p:ppat) : option (option (list ppat)) :=
  bind (match_single n (nt_def nt) p []) (fun r =>
    Some (match r with
          | None => None
          | Some m => Some (map (fun i => match alookup i m with Some v => v | None => plain_mv i end)
                                (nrange 0 (nt_arity nt)))
          end)).
(** [assert_matches]: inner [None] = AssertionError *)
Definition nassert (n:nat) (nt:notation) (p:ppat) : option (option (list ppat)) :=
  bind (nmatches n nt p) (fun r =>
    Some (match r with
          | None => None
          | Some args => if negb (f_assert_none f) && isnil args then None else Some args   (* `if match := ...` *)
          end)).

(** ================= unwrap / extract / deconstruct ================= *)
(** [Implies.unwrap] / [App.unwrap]: inner None = Python None ([extract] raises there) *)
Definition unwrap_imp (n:nat) (p:ppat) : option (option (ppat*ppat)) :=
  bind (hnf n p) (fun h => Some (match h with PImp l r => Some (l, r) | _ => None end)).
Definition unwrap_app (n:nat) (p:ppat) : option (option (ppat*ppat)) :=
  bind (hnf n p) (fun h => Some (match h with PApp l r => Some (l, r) | _ => None end)).
Definition decon_evar (n:nat) (p:ppat) : option (option N) :=
  bind (hnf n p) (fun h => Some (match h with PEVar x => Some x | _ => None end)).
Definition decon_svar (n:nat) (p:ppat) : option (option N) :=
  bind (hnf n p) (fun h => Some (match h with PSVar x => Some x | _ => None end)).
Definition decon_sym (n:nat) (p:ppat) : option (option N) :=
  bind (hnf n p) (fun h => Some (match h with PSym x => Some x | _ => None end)).
Definition decon_ex (n:nat) (p:ppat) : option (option (N*ppat)) :=
  bind (hnf n p) (fun h => Some (match h with PEx x q => Some (x, q) | _ => None end)).
Definition decon_mu (n:nat) (p:ppat) : option (option (N*ppat)) :=
  bind (hnf n p) (fun h => Some (match h with PMu x q => Some (x, q) | _ => None end)).

(** [deconstruct_nary_application] (proofs/kore.py:131-141; the @cache is a pure memo and is not modelled):
    the application spine of a pattern, seen through notation *)
Fixpoint decon_nary (n:nat) (p:ppat) {struct n} : option (ppat * list ppat) :=
  match n with O => None | S n =>
  match p with
  | PInst q d => bind (py_inst n q d) (fun r => decon_nary n r)
  | PApp l r => bind (decon_nary n l) (fun ha => Some (fst ha, snd ha ++ [r]))
  | _ => Some (p, [])
  end end.

(** [cls.unwrap(pattern)] / [cls.extract(pattern)] for ANY class [cls] (pattern.py:102-114), including the base class
    [Pattern] (every pattern is one) and [Instantiate] itself (never, after simplification).  Classes are numbered
    0 EVar 1 SVar 2 Symbol 3 Implies 4 App 5 Exists 6 Mu 7 MetaVar 8 ESubst 9 SSubst 10 Instantiate 11 Pattern.
    The result lists the Pattern-valued fields in the order of their names ([vars()] sorted): the variable object of a
    pending substitution is a Pattern too. *)
Definition head_code (p:ppat) : N :=
  match p with
  | PEVar _ => 0 | PSVar _ => 1 | PSym _ => 2 | PImp _ _ => 3 | PApp _ _ => 4 | PEx _ _ => 5 | PMu _ _ => 6
  | PMVar _ _ _ _ _ _ => 7 | PESub _ _ _ => 8 | PSSub _ _ _ => 9 | PInst _ _ => 10
  end.
Definition children (p:ppat) : list ppat :=
  match p with
  | PImp l r | PApp l r => [l; r]
  | PEx _ q | PMu _ q => [q]
  | PESub q x g => [q; g; PEVar x]
  | PSSub q X g => [q; g; PSVar X]
  | _ => []
  end.
Definition unwrap_cls (n:nat) (c:N) (p:ppat) : option (option (list ppat)) :=
  bind (hnf n p) (fun h => Some (if N.eqb c 11 || N.eqb c (head_code h) then Some (children h) else None)).

(** ================= BasicInterpreter rules (basic_interpreter.py:97-117) ================= *)
(** inner None = AssertionError *)
Definition basic_mp (n:nat) (left right:ppat) : option (option ppat) :=
  bind (unwrap_imp n left) (fun u =>
    match u with
    | None => Some None
    | Some (l, r) => bind (py_eq n l right) (fun e => Some (if e then Some r else None))
    end).
Definition basic_gen (n:nat) (conc:ppat) (x:N) : option (option ppat) :=
  bind (unwrap_imp n conc) (fun u =>
    match u with
    | None => Some None
    | Some (l, r) => bind (py_fresh n r x) (fun fr => Some (if fr then Some (PImp (PEx x l) r) else None))
    end).
Definition basic_inst (n:nat) (conc:ppat) (d:delta) : option ppat :=
  if isnil d then Some conc else py_inst n conc d.

End WithFlags.

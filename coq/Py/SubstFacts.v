(** C11 (Python side): small algebraic laws of the notation-free Python substitution/instantiation
    ([p_esubst], [p_ssubst], [p_inst] of Py/Pattern.v).  Composition and commutation are in Py/PatFacts.v. *)
From Coq Require Import NArith List Bool.
From Pi2 Require Import ML.Syntax Py.Pattern Py.PatFacts.
Import ListNotations.
Open Scope N_scope.

(** no metavariable, no pending substitution *)
Fixpoint concrete (p:pat) : bool :=
  match p with
  | EVar _ | SVar _ | Sym _ => true
  | Imp l r | App l r => concrete l && concrete r
  | Ex _ q | Mu _ q => concrete q
  | MVar _ _ _ _ _ _ | ESub _ _ _ | SSub _ _ _ => false
  end.

Section WithFlags.
Variable f : pyflags.

(** identity when the variable does not occur free (concrete patterns; [e_fresh]/[s_fresh] are then exact) *)
Lemma p_esubst_fresh_id p x g : concrete p = true -> e_fresh p x = true -> p_esubst f p x g = p.
Proof.
  induction p; simpl; intros Hc Hf; try reflexivity; try discriminate.
  - rewrite N.eqb_sym. apply negb_true_iff in Hf. rewrite Hf. reflexivity.
  - apply andb_true_iff in Hc as [? ?]. apply andb_true_iff in Hf as [? ?]. rewrite IHp1, IHp2; auto.
  - apply andb_true_iff in Hc as [? ?]. apply andb_true_iff in Hf as [? ?]. rewrite IHp1, IHp2; auto.
  - destruct (N.eqb x x0) eqn:E; [reflexivity|]. simpl in Hf. rewrite IHp; auto.
  - rewrite IHp; auto.
Qed.
Lemma p_ssubst_fresh_id p x g : concrete p = true -> s_fresh p x = true -> p_ssubst f p x g = p.
Proof.
  induction p; simpl; intros Hc Hf; try reflexivity; try discriminate.
  - rewrite N.eqb_sym. apply negb_true_iff in Hf. rewrite Hf. reflexivity.
  - apply andb_true_iff in Hc as [? ?]. apply andb_true_iff in Hf as [? ?]. rewrite IHp1, IHp2; auto.
  - apply andb_true_iff in Hc as [? ?]. apply andb_true_iff in Hf as [? ?]. rewrite IHp1, IHp2; auto.
  - rewrite IHp; auto.
  - destruct (N.eqb x X) eqn:E; [reflexivity|]. simpl in Hf. rewrite IHp; auto.
Qed.

(** substitution is deferred on metavariables and on pending substitutions (when nothing is dropped) *)
Lemma p_esubst_deferred i a b c d e x g : f_mv_keep_subst f = true ->
  p_esubst f (MVar i a b c d e) x g = ESub (MVar i a b c d e) x g.
Proof. intro H. simpl. rewrite H. reflexivity. Qed.
Lemma p_ssubst_deferred i a b c d e x g : f_mv_keep_subst f = true ->
  p_ssubst f (MVar i a b c d e) x g = SSub (MVar i a b c d e) x g.
Proof. intro H. simpl. rewrite H. reflexivity. Qed.

(** instantiation is the identity on concrete patterns, and resolves a pending substitution as soon as its
    metavariable is instantiated *)
Lemma p_inst_concrete p d : concrete p = true -> p_inst f p d = p.
Proof.
  destruct d as [|kv d]; [reflexivity|]. rewrite p_inst_cons.
  induction p; simpl; intro Hc; try reflexivity; try discriminate.
  - apply andb_true_iff in Hc as [? ?]. rewrite IHp1, IHp2; auto.
  - apply andb_true_iff in Hc as [? ?]. rewrite IHp1, IHp2; auto.
  - rewrite IHp; auto.
  - rewrite IHp; auto.
Qed.
Lemma p_inst_resolves i a b c d e x g v s : alookup i s = Some v ->
  p_inst f (ESub (MVar i a b c d e) x g) s = p_esubst f v x (p_inst f g s).
Proof.
  intro H. destruct s as [|kv s]; [discriminate|]. rewrite !p_inst_cons.
  change (p_inst' f (ESub (MVar i a b c d e) x g) (kv :: s))
    with (p_esubst f (match alookup i (kv :: s) with Some v0 => v0 | None => MVar i a b c d e end) x (p_inst' f g (kv :: s))).
  rewrite H. reflexivity.
Qed.

End WithFlags.

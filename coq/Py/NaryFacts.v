(** [deconstruct_nary_application] sees through notation: head and arguments of a pattern are head and arguments
    of its expansion (C12 destructuring, C13 "returns arguments that rebuild an equal pattern"). *)
From Coq Require Import NArith List Bool Lia Arith.
From Pi2 Require Import ML.Syntax Py.Pattern Py.PatFacts Py.MetaFacts Py.ExpandFacts Py.Termination Py.Bridge.
Import ListNotations.
Open Scope N_scope.

(** application spine of a notation-free pattern *)
Fixpoint p_spine (t:pat) : pat * list pat :=
  match t with
  | App l r => (fst (p_spine l), snd (p_spine l) ++ [r])
  | _ => (t, [])
  end.
Definition p_apps (h:pat) (args:list pat) : pat := fold_left App args h.

Lemma p_apps_snoc h args r : p_apps h (args ++ [r]) = App (p_apps h args) r.
Proof. unfold p_apps. rewrite fold_left_app. reflexivity. Qed.
Lemma p_spine_rebuild t : p_apps (fst (p_spine t)) (snd (p_spine t)) = t.
Proof. induction t; simpl; try reflexivity. rewrite p_apps_snoc, IHt1. reflexivity. Qed.

Section WithFlags.
Variable f : pyflags.
Hypothesis Hkeep : f_mv_keep_subst f = true.
Hypothesis Hext : f_inst_extend f = true.

Theorem decon_nary_expand n : forall p h args, decon_nary f n p = Some (h, args) ->
  p_spine (expand f p) = (expand f h, map (expand f) args).
Proof.
  induction n as [|n IH]; intros p h args H; [discriminate|].
  destruct p; simpl in H; try (inversion H; subst; reflexivity).
  - (* App *) bind_inv H as ha Hha. destruct ha as [h0 a0]. inversion H; subst; clear H.
    apply IH in Hha. simpl. rewrite Hha. simpl. rewrite map_app. reflexivity.
  - (* Instantiate *) bind_inv H as r Hr. apply IH in H. apply (py_inst_expand f Hkeep Hext) in Hr.
    rewrite <- H, Hr. reflexivity.
Qed.

(** ... hence the returned head applied to the returned arguments is a pattern equal to the input *)
Corollary decon_nary_rebuild n p h args : decon_nary f n p = Some (h, args) ->
  p_apps (expand f h) (map (expand f) args) = expand f p.
Proof.
  intro H. apply decon_nary_expand in H. rewrite <- (p_spine_rebuild (expand f p)), H. reflexivity.
Qed.
End WithFlags.

Close Scope N_scope.
Theorem decon_nary_terminates f : f_inst_extend f = true -> forall n p, (dm p one <= n)%nat ->
  exists ha, decon_nary f n p = Some ha.
Proof.
  intro Hext. induction n as [|n IH]; intros p H.
  - pose proof (dm_pos p one (fun _ => le_n 1)). lia.
  - destruct p; try (eexists; reflexivity).
    + simpl in H. destruct (IH p1 ltac:(lia)) as [ha Hha]. simpl. rewrite Hha. eexists. reflexivity.
    + destruct (simplify_terminates f Hext n p d H) as [r [Hr L]]. simpl. rewrite Hr. simpl. apply IH. lia.
Qed.
Open Scope N_scope.

(** bridge to the configuration of the current code (Py/Bridge.v) *)
Theorem decon_nary_bridge se ss f n : forall p, corner_free se ss p = true ->
  decon_nary f n p = decon_nary (with_keep f) n p /\
  forall h args, decon_nary (with_keep f) n p = Some (h, args) ->
    corner_free se ss h = true /\ forallb (corner_free se ss) args = true.
Proof.
  induction n as [|n IH]; intros p Hp; [split; [reflexivity|discriminate]|].
  destruct p; simpl; try (split; [reflexivity|intros h args H; inversion H; subst; split; [exact Hp|reflexivity]]).
  - simpl in Hp. apply andb_true_iff in Hp as [H1 H2]. destruct (IH p1 H1) as [E C]. rewrite E. split; [reflexivity|].
    intros h args H. bind_inv H as ha Hha. destruct ha as [h0 a0]. inversion H; subst; clear H.
    destruct (C _ _ Hha) as [C1 C2]. split; [exact C1|]. simpl. rewrite forallb_app, C2. simpl. rewrite H2. reflexivity.
  - simpl in Hp. apply andb_true_iff in Hp as [H1 H2]. rewrite (py_inst_bridge se ss f n p d H1 H2).
    destruct (py_inst (with_keep f) n p d) as [r|] eqn:Er; [|split; [reflexivity|discriminate]]. simpl.
    apply IH. exact (py_inst_cf se ss (with_keep f) n p d r H1 H2 Er).
Qed.

Theorem decon_nary_expand_cur se ss f : f_inst_extend f = true -> forall n p h args,
  corner_free se ss p = true -> decon_nary f n p = Some (h, args) ->
  p_spine (expand f p) = (expand f h, map (expand f) args).
Proof.
  intros Hext n p h args Hp H. destruct (decon_nary_bridge se ss f n p Hp) as [E C]. rewrite E in H.
  destruct (C _ _ H) as [Ch Ca].
  rewrite (expand_eq se ss f p Hp), (expand_eq se ss f h Ch).
  assert (Em : map (expand f) args = map (expand (with_keep f)) args).
  { apply map_ext_in. intros a Hin. rewrite forallb_forall in Ca. apply (expand_eq se ss f a (Ca a Hin)). }
  rewrite Em. exact (decon_nary_expand (with_keep f) eq_refl Hext n p h args H).
Qed.

(** ---- cls.unwrap / cls.extract for every class, the base class included ---- *)
Definition p_head_code (t:pat) : N :=
  match t with
  | EVar _ => 0 | SVar _ => 1 | Sym _ => 2 | Imp _ _ => 3 | App _ _ => 4 | Ex _ _ => 5 | Mu _ _ => 6
  | MVar _ _ _ _ _ _ => 7 | ESub _ _ _ => 8 | SSub _ _ _ => 9
  end.
Definition p_children (t:pat) : list pat :=
  match t with
  | Imp l r | App l r => [l; r]
  | Ex _ q | Mu _ q => [q]
  | ESub q x g => [q; g; EVar x]
  | SSub q X g => [q; g; SVar X]
  | _ => []
  end.

Theorem unwrap_cls_expand f : f_mv_keep_subst f = true -> f_inst_extend f = true ->
  forall n c p u, unwrap_cls f n c p = Some u ->
  match u with
  | Some l => (c = 11 \/ c = p_head_code (expand f p)) /\ map (expand f) l = p_children (expand f p)
  | None => c <> 11 /\ c <> p_head_code (expand f p)
  end.
Proof.
  intros Hk He n c p u H. unfold unwrap_cls in H. bind_inv H as h Hh. inversion H; subst; clear H.
  apply (hnf_expand f Hk He) in Hh as [E Hi]. rewrite <- E.
  assert (Hc : head_code h = p_head_code (expand f h)) by (destruct h; try reflexivity; discriminate).
  assert (Hch : map (expand f) (children h) = p_children (expand f h)) by (destruct h; try reflexivity; discriminate).
  rewrite <- Hc, <- Hch.
  destruct (N.eqb c 11) eqn:E1; simpl.
  - apply N.eqb_eq in E1. auto.
  - destruct (N.eqb c (head_code h)) eqn:E2.
    + apply N.eqb_eq in E2. auto.
    + apply N.eqb_neq in E1, E2. auto.
Qed.

Theorem unwrap_cls_bridge se ss f n c p : corner_free se ss p = true ->
  unwrap_cls f n c p = unwrap_cls (with_keep f) n c p.
Proof. intro Hp. unfold unwrap_cls. rewrite (hnf_bridge se ss f n p Hp). reflexivity. Qed.

(** C19: facts about format strings and notation rendering (Py/Pretty.v, Py/Families.v). *)
From Coq Require Import NArith List Bool Lia Arith.
From Pi2 Require Import ML.Syntax Py.Pattern Py.Pretty Py.Families Py.PatFacts Py.ExpandFacts.
Import ListNotations.

(** ---------------- the n-ary application family covers all its arguments ---------------- *)
Lemma metavars_nary_def n : forall p k, metavars (nary_def p k n) = metavars p ++ nrange k n.
Proof.
  induction n as [|n IH]; intros p k; simpl.
  - rewrite app_nil_r. reflexivity.
  - rewrite IH. simpl. rewrite <- app_assoc. reflexivity.
Qed.

Lemma has_hole_app a b i : has_hole (a ++ b) i = has_hole a i || has_hole b i.
Proof. unfold has_hole. apply existsb_app. Qed.

Lemma has_hole_holes_sep sep n : forall k j, (k <= j < k + n)%nat ->
  has_hole (holes_sep sep k n) (N.of_nat j) = true.
Proof.
  induction n as [|n IH]; intros k j Hj; [lia|].
  destruct n as [|n].
  - assert (j = k) by lia. subst. simpl. rewrite N.eqb_refl. reflexivity.
  - change (holes_sep sep k (S (S n))) with (Hole k :: Lit sep :: holes_sep sep (S k) (S n)).
    destruct (Nat.eq_dec j k) as [->|Hne].
    + simpl. rewrite N.eqb_refl. reflexivity.
    + change (Hole k :: Lit sep :: holes_sep sep (S k) (S n)) with ([Hole k; Lit sep] ++ holes_sep sep (S k) (S n)).
      rewrite has_hole_app, IH by lia. apply orb_true_r.
Qed.

Lemma nrange_of_nat n : forall k, nrange (N.of_nat k) n = map N.of_nat (seq k n).
Proof.
  induction n as [|n IH]; intro k; simpl; [reflexivity|].
  f_equal. rewrite <- IH. f_equal. lia.
Qed.

Theorem nary_app_covers sym name n cell : covers (nary_app sym name n cell) = true.
Proof.
  unfold covers, nary_app. simpl nt_def. simpl nt_fmt.
  rewrite metavars_nary_def. simpl metavars. simpl app.
  change 0%N with (N.of_nat 0). rewrite nrange_of_nat.
  apply forallb_forall. intros x Hx. apply in_map_iff in Hx as [j [<- Hj]]. apply in_seq in Hj.
  unfold nary_fmt. destruct cell.
  - change (Lit ([60%N] ++ name ++ [62%N; 32%N]) :: holes_sep [32%N] 0 n ++ [Lit ([32%N; 60%N; 47%N] ++ name ++ [62%N])])
      with ([Lit ([60%N] ++ name ++ [62%N; 32%N])] ++ holes_sep [32%N] 0 n ++ [Lit ([32%N; 60%N; 47%N] ++ name ++ [62%N])]).
    rewrite !has_hole_app, has_hole_holes_sep by lia. rewrite orb_true_r. reflexivity.
  - change (Lit (name ++ [40%N]) :: holes_sep [44%N; 32%N] 0 n ++ [Lit [41%N]])
      with ([Lit (name ++ [40%N])] ++ holes_sep [44%N; 32%N] 0 n ++ [Lit [41%N]]).
    rewrite !has_hole_app, has_hole_holes_sep by lia. rewrite orb_true_r. reflexivity.
Qed.

(** ---------------- a covered hole distinguishes ---------------- *)
Fixpoint cnt (fmt:list chunk) (i:nat) : nat :=
  match fmt with
  | [] => 0
  | Hole j :: t => (if Nat.eqb j i then 1 else 0) + cnt t i
  | Lit _ :: t => cnt t i
  end.

Lemma has_hole_cnt fmt i : has_hole fmt (N.of_nat i) = true -> (cnt fmt i >= 1)%nat.
Proof.
  induction fmt as [|c fmt IH]; simpl; [discriminate|].
  destruct c as [s|j]; simpl; auto.
  destruct (N.eqb (N.of_nat j) (N.of_nat i)) eqn:E.
  - apply N.eqb_eq in E. apply Nat2N.inj in E. subst. rewrite Nat.eqb_refl. lia.
  - simpl. intro H. apply IH in H. lia.
Qed.

Section Distinguish.
Context {A:Type}.
Variables (args args':list (list A)) (i:nat) (r r':list A).
Hypothesis Hr : nth_error args i = Some r.
Hypothesis Hr' : nth_error args' i = Some r'.
Hypothesis Hother : forall j, j <> i -> nth_error args j = nth_error args' j.

(** format over an arbitrary alphabet (instantiated with code points below) *)
Fixpoint gformat (fmt:list chunk) (conv:list N -> list A) (a:list (list A)) : option (list A) :=
  match fmt with
  | [] => Some []
  | Lit s :: t => match gformat t conv a with Some x => Some (conv s ++ x) | None => None end
  | Hole j :: t => match nth_error a j with
                   | Some y => match gformat t conv a with Some x => Some (y ++ x) | None => None end
                   | None => None
                   end
  end.

Lemma gformat_length conv fmt : forall s s',
  gformat fmt conv args = Some s -> gformat fmt conv args' = Some s' ->
  (length s + cnt fmt i * length r' = length s' + cnt fmt i * length r)%nat.
Proof.
  induction fmt as [|c fmt IH]; simpl; intros s s' H H'.
  - inversion H; inversion H'; subst. reflexivity.
  - destruct c as [l|j].
    + destruct (gformat fmt conv args) as [x|]; [|discriminate].
      destruct (gformat fmt conv args') as [x'|]; [|discriminate].
      inversion H; inversion H'; subst. rewrite !app_length. specialize (IH _ _ eq_refl eq_refl). lia.
    + destruct (Nat.eqb j i) eqn:E.
      * apply Nat.eqb_eq in E. subst j. rewrite Hr in H. rewrite Hr' in H'.
        destruct (gformat fmt conv args) as [x|]; [|discriminate].
        destruct (gformat fmt conv args') as [x'|]; [|discriminate].
        inversion H; inversion H'; subst. rewrite !app_length. specialize (IH _ _ eq_refl eq_refl). lia.
      * apply Nat.eqb_neq in E. rewrite <- (Hother _ E) in H'.
        destruct (nth_error args j) as [y|]; [|discriminate].
        destruct (gformat fmt conv args) as [x|]; [|discriminate].
        destruct (gformat fmt conv args') as [x'|]; [|discriminate].
        inversion H; inversion H'; subst. rewrite !app_length. specialize (IH _ _ eq_refl eq_refl). lia.
Qed.

Lemma app_same_length_inj (a a' b b':list A) : length a = length a' -> a ++ b = a' ++ b' -> a = a' /\ b = b'.
Proof.
  revert a'. induction a as [|x a IH]; intros [|y a'] Hl H; simpl in *; try discriminate; auto.
  inversion H; subst. destruct (IH a') as [-> ->]; auto.
Qed.

Lemma gformat_same_length conv fmt : length r = length r' -> r <> r' -> forall s s',
  (cnt fmt i >= 1)%nat ->
  gformat fmt conv args = Some s -> gformat fmt conv args' = Some s' -> s <> s'.
Proof.
  intros Hl Hne. induction fmt as [|c fmt IH]; simpl; intros s s' Hc H H'; [lia|].
  destruct c as [l|j].
  - destruct (gformat fmt conv args) as [x|]; [|discriminate].
    destruct (gformat fmt conv args') as [x'|]; [|discriminate].
    inversion H; inversion H'; subst. intro E. apply app_inv_head in E. revert E. apply IH; auto.
  - destruct (Nat.eqb j i) eqn:E.
    + apply Nat.eqb_eq in E. subst j. rewrite Hr in H. rewrite Hr' in H'.
      destruct (gformat fmt conv args) as [x|]; [|discriminate].
      destruct (gformat fmt conv args') as [x'|]; [|discriminate].
      inversion H; inversion H'; subst. intro E. apply app_same_length_inj in E as [E _]; auto.
    + apply Nat.eqb_neq in E. rewrite <- (Hother _ E) in H'.
      destruct (nth_error args j) as [y|]; [|discriminate].
      destruct (gformat fmt conv args) as [x|]; [|discriminate].
      destruct (gformat fmt conv args') as [x'|]; [|discriminate].
      inversion H; inversion H'; subst. intro E2. apply app_inv_head in E2. revert E2. apply IH; auto.
Qed.

Theorem gformat_distinguishes conv fmt s s' : r <> r' -> (cnt fmt i >= 1)%nat ->
  gformat fmt conv args = Some s -> gformat fmt conv args' = Some s' -> s <> s'.
Proof.
  intros Hne Hc H H'. destruct (Nat.eq_dec (length r) (length r')) as [Hl|Hl].
  - eapply gformat_same_length; eauto.
  - pose proof (gformat_length conv fmt _ _ H H') as HL. intro E. subst s'.
    assert (cnt fmt i * length r' = cnt fmt i * length r)%nat by lia.
    apply Nat.mul_cancel_l in H0; lia.
Qed.
End Distinguish.

Lemma format_gformat fmt args : format fmt args = gformat fmt (fun s => s) args.
Proof.
  unfold str in *. induction fmt as [|c fmt IH]; simpl; auto. destruct c as [l|j]; rewrite IH; unfold str.
  - destruct (gformat fmt (fun s => s) args); reflexivity.
  - destruct (nth_error args j); [|reflexivity]. destruct (gformat fmt (fun s => s) args); reflexivity.
Qed.

(** C19: if the format string has a hole for position i, two argument tuples whose renderings differ at
    position i only are rendered differently *)
Theorem format_distinguishes fmt (args args':list str) i r r' s s' :
  has_hole fmt (N.of_nat i) = true ->
  nth_error args i = Some r -> nth_error args' i = Some r' ->
  (forall j, j <> i -> nth_error args j = nth_error args' j) ->
  r <> r' ->
  format fmt args = Some s -> format fmt args' = Some s' -> s <> s'.
Proof.
  intros Hh Hr Hr' Ho Hne H H'. rewrite format_gformat in H, H'.
  eapply (gformat_distinguishes args args' i r r' Hr Hr' Ho); eauto. apply has_hole_cnt. exact Hh.
Qed.

(** ---------------- rendering of a notation application ---------------- *)
Section WithFlags.
Variable f : pyflags.

(** what [Instantiate.pretty] does when the pattern is a registered notation: render the values in dict
    order and substitute them into the format string *)
Fixpoint pretty_vals (n:nat) (o:popts) (l:delta) : option (option (list (N*str))) :=
  match l with
  | [] => Some (Some [])
  | kv::t => bind (pretty f n o (snd kv)) (fun a => match a with None => Some None | Some a =>
             bind (pretty_vals n o t) (fun r => match r with None => Some None | Some r =>
               Some (Some ((fst kv, a) :: r)) end) end)
  end.

Lemma pretty_notation n o q d nt :
  o_simplify o = false -> find_notation (o_notations o) q = Some nt ->
  pretty f (S n) o (PInst q d) =
  bind (pretty_vals n o d) (fun vs => match vs with None => Some None | Some vs => Some (format (nt_fmt nt) (map snd vs)) end).
Proof.
  intros Hs Hf. simpl. rewrite Hs, Hf.
  match goal with |- bind ?a _ = bind ?b _ => assert (E : a = b) end.
  { clear. induction d as [|kv d IH]; simpl; [reflexivity|]. rewrite IH. reflexivity. }
  rewrite E. reflexivity.
Qed.

Lemma pretty_vals_nth n o : forall d vs, pretty_vals n o d = Some (Some vs) ->
  forall j, nth_error (map snd vs) j =
            match nth_error d j with Some kv => match pretty f n o (snd kv) with Some (Some s) => Some s | _ => None end | None => None end.
Proof.
  induction d as [|kv d IH]; simpl; intros vs H j.
  - inversion H; subst. destruct j; reflexivity.
  - bind_inv H as a Ha. destruct a as [a|]; [|discriminate]. bind_inv H as r0 Hr0.
    destruct r0 as [r0|]; [|discriminate]. inversion H; subst; clear H.
    destruct j; simpl.
    + rewrite Ha. reflexivity.
    + apply IH. exact Hr0.
Qed.

Lemma nth_error_enumerate args : forall k j,
  nth_error (enumerate_from k args) j = option_map (fun a => (k + N.of_nat j, a)%N) (nth_error args j).
Proof.
  induction args as [|a args IH]; intros k j; destruct j; simpl; try reflexivity.
  - rewrite N.add_0_r. reflexivity.
  - rewrite IH. destruct (nth_error args j); simpl; [|reflexivity]. f_equal. f_equal. lia.
Qed.

(** C19 [hole_distinguishes]: for a registered notation whose format string has a hole for argument i,
    two applications whose arguments are rendered identically except at position i are rendered differently *)
Theorem hole_distinguishes n o nt args args' i r r' s s' :
  o_simplify o = false -> find_notation (o_notations o) (nt_def nt) = Some nt ->
  has_hole (nt_fmt nt) (N.of_nat i) = true ->
  (exists a, nth_error args i = Some a /\ pretty f n o a = Some (Some r)) ->
  (exists a', nth_error args' i = Some a' /\ pretty f n o a' = Some (Some r')) ->
  (forall j, j <> i ->
     match nth_error args j, nth_error args' j with
     | Some a, Some a' => pretty f n o a = pretty f n o a'
     | None, None => True
     | _, _ => False
     end) ->
  r <> r' ->
  pretty f (S n) o (PInst (nt_def nt) (enumerate_from 0 args)) = Some (Some s) ->
  pretty f (S n) o (PInst (nt_def nt) (enumerate_from 0 args')) = Some (Some s') ->
  s <> s'.
Proof.
  intros Hs Hf Hh [a [Ha Hpa]] [a' [Ha' Hpa']] Ho Hne H H'.
  rewrite (pretty_notation _ _ _ _ _ Hs Hf) in H. rewrite (pretty_notation _ _ _ _ _ Hs Hf) in H'.
  bind_inv H as vs Hvs. destruct vs as [vs|]; [|discriminate]. inversion H as [Hfmt]; clear H.
  bind_inv H' as vs' Hvs'. destruct vs' as [vs'|]; [|discriminate]. inversion H' as [Hfmt']; clear H'.
  pose proof (pretty_vals_nth _ _ _ _ Hvs) as N1. pose proof (pretty_vals_nth _ _ _ _ Hvs') as N2.
  eapply (format_distinguishes (nt_fmt nt) (map snd vs) (map snd vs') i r r'); eauto.
  - rewrite N1, nth_error_enumerate, Ha. simpl. rewrite Hpa. reflexivity.
  - rewrite N2, nth_error_enumerate, Ha'. simpl. rewrite Hpa'. reflexivity.
  - intros j Hj. rewrite N1, N2, !nth_error_enumerate. specialize (Ho j Hj).
    destruct (nth_error args j), (nth_error args' j); simpl; try contradiction; auto.
    rewrite Ho. reflexivity.
Qed.

End WithFlags.

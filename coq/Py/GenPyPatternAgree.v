(** The functions GENERATED from the current pattern.py / basic_interpreter.py (coq/Gen/PyPattern.v, translators/
    pypattern.py) are equal to the hand-written model (coq/Py/Pattern.v) in the configuration of the current code
    ([flags_current], Py/Bridge.v).  The proofs are by fuel induction and case analysis and do not mention the text
    of the generated arms, so a harmless rewrite of the Python re-proves, while a changed guard / constructor /
    dropped simplify makes an arm differ from the model and the corresponding case fail. *)
From Coq Require Import NArith List Bool Lia.
From Pi2 Require Import ML.Syntax Py.Pattern Py.PatFacts Py.MetaFacts Py.ExpandFacts Py.Bridge Py.GenSupport Gen.PyPattern.
Import ListNotations.
Open Scope N_scope.

Notation fc := flags_current.

(** ---- metavars ---- *)
Theorem src_metavars_eq : forall p, src_metavars p = metavars p.
Proof.
  induction p using ppat_ind'; simpl; try reflexivity; try congruence.
  rewrite fold_left_if_app. simpl. rewrite IHp. apply flat_map_ext_in. intros v _.
  change (map (fun kv : N * ppat => (fst kv, src_metavars (snd kv))) d) with (amap src_metavars d).
  change (map (fun kv : N * ppat => (fst kv, metavars (snd kv))) d) with (amap metavars d).
  rewrite !alookup_amap, amem_alookup.
  destruct (alookup v d) as [pv|] eqn:E; simpl; [|reflexivity].
  apply alookup_in in E. rewrite Forall_forall in H. exact (H (v, pv) E).
Qed.

(** ---- instantiate / apply_esubst / apply_ssubst ---- *)
Ltac step IHi IHe IHs :=
  repeat (rewrite ?IHi, ?IHe, ?IHs);
  repeat match goal with
         | |- context [if ?c then _ else _] => destruct c eqn:?; simpl
         | |- context [bind ?o _] => destruct o eqn:?; simpl
         end; try reflexivity; try congruence.

Theorem src_ops_eq n :
  (forall p d, src_instantiate n p d = py_inst fc n p d) /\
  (forall p x g, src_apply_esubst n p x g = py_esubst fc n p x g) /\
  (forall p x g, src_apply_ssubst n p x g = py_ssubst fc n p x g).
Proof.
  induction n as [|n [IHi [IHe IHs]]]; [repeat split; reflexivity|].
  repeat split.
  - intros p d. destruct p; simpl; try (step IHi IHe IHs; fail).
    + (* MetaVar *) rewrite amem_alookup. destruct (alookup id d); reflexivity.
    + (* Instantiate *)
      destruct d0 as [|kv0 d0]; [simpl; rewrite IHi; reflexivity|].
      remember (kv0 :: d0) as d1. assert (Hn : isnil d1 = false) by (subst; reflexivity). rewrite Hn.
      assert (Em : map_opt (fun kv1 : N * ppat => bind (src_instantiate n (snd kv1) d) (fun c2 => Some (fst kv1, c2))) d1
                   = map_opt (fun kv : N * ppat => bind (py_inst fc n (snd kv) d) (fun v => Some (fst kv, v))) d1).
      { apply map_opt_ext_in. intros a _. rewrite IHi. reflexivity. }
      rewrite Em. clear Em.
      destruct (map_opt (fun kv : N * ppat => bind (py_inst fc n (snd kv) d) (fun v => Some (fst kv, v))) d1) as [l|] eqn:El;
        simpl; [|reflexivity].
      (* a defensive `assert instantiated.keys().isdisjoint(unshadowed.keys())`, when the source has one, holds *)
      assert (G : forall g, disjointb (keys l) (keys (filter (fun kv => negb (amem (fst kv) d1) && g kv) d)) = true)
        by (intro g; apply disjoint_unshadowed; exact (map_opt_keys (fun kv => py_inst fc n (snd kv) d) _ _ El)).
      rewrite ?G. clear G.
      rewrite src_metavars_eq. unfold unshadowed. rewrite filter_filter. reflexivity.
  - intros p x g. destruct p; simpl; try (step IHi IHe IHs; fail).
  - intros p x g. destruct p; simpl; try (step IHi IHe IHs; fail).
Qed.

Theorem src_instantiate_eq n p d : src_instantiate n p d = py_inst fc n p d.
Proof. apply src_ops_eq. Qed.
Theorem src_apply_esubst_eq n p x g : src_apply_esubst n p x g = py_esubst fc n p x g.
Proof. apply src_ops_eq. Qed.
Theorem src_apply_ssubst_eq n p x g : src_apply_ssubst n p x g = py_ssubst fc n p x g.
Proof. apply src_ops_eq. Qed.

(** ---- evar_is_free ---- *)
Theorem src_evar_is_free_eq n : forall p x, src_evar_is_free n p x = py_fresh fc n p x.
Proof.
  induction n as [|n IH]; intros p x; [reflexivity|].
  destruct p; simpl; rewrite ?src_instantiate_eq; repeat (rewrite ?IH);
    repeat match goal with
           | |- context [if ?c then _ else _] => destruct c eqn:?; simpl
           | |- context [bind ?o _] => destruct o eqn:?; simpl
           end; try reflexivity; try congruence.
Qed.

(** ---- the three rules of BasicInterpreter: [None] of the generated function = AssertionError or out of fuel ---- *)
Definition flat {A} (o:option (option A)) : option A := bind o (fun u => u).

Theorem src_modus_ponens_eq n L R : src_modus_ponens n L R = flat (basic_mp fc n L R).
Proof.
  unfold src_modus_ponens, basic_mp, extract_imp, flat. destruct (unwrap_imp fc n L) as [[[l r]|]|]; simpl; try reflexivity.
  destruct (py_eq fc n l R) as [[|]|]; reflexivity.
Qed.
Theorem src_exists_generalization_eq n C x : src_exists_generalization n C x = flat (basic_gen fc n C x).
Proof.
  unfold src_exists_generalization, basic_gen, extract_imp, flat. destruct (unwrap_imp fc n C) as [[[l r]|]|]; simpl; try reflexivity.
  rewrite src_evar_is_free_eq. destruct (py_fresh fc n r x) as [[|]|]; reflexivity.
Qed.
Theorem src_instantiate_rule_eq n C d : src_instantiate_rule n C d = basic_inst fc n C d.
Proof.
  unfold src_instantiate_rule, basic_inst. destruct (isnil d); [reflexivity|]. rewrite src_instantiate_eq, bind_eta. reflexivity.
Qed.

(** ---- match_single / match ---- *)
From Pi2 Require Import Py.MatchFacts.

Ltac prim_unfold := unfold unwrap_imp, unwrap_app, decon_evar, decon_svar, decon_sym, decon_ex, decon_mu.

Ltac ev := lazy beta iota zeta delta [bind fst snd negb].
Ltac match_other IH n i :=
  cbn [match_single]; change (f_match_simplify fc) with true; cbn [andb is_inst];
  prim_unfold;
  rewrite ?hnf_noninst by reflexivity;
  destruct (hnf fc n i) as [hi|] eqn:Hhi;
  [ destruct hi | ];
  (* walk down the chain of tests: evaluate, open the next shared continuation, evaluate ... *)
  repeat (ev; autounfold with pysrc; prim_unfold; rewrite ?hnf_noninst by reflexivity; rewrite ?Hhi);
  ev;
  repeat match goal with
         | |- context [src_match_single ?k ?a ?b ?c] => rewrite (IH a b c)
         | |- context [N.eqb ?a ?b] => destruct (N.eqb a b); ev
         | |- context [match_single fc ?k ?a ?b ?c] => destruct (match_single fc k a b c) as [[?|]|]; ev
         end; reflexivity.

Theorem src_match_single_eq n : forall p i ret, src_match_single n p i ret = match_single fc n p i ret.
Proof.
  induction n as [|n IH]; intros p i ret; [reflexivity|].
  cbn [src_match_single]. rewrite ?truthy_dict, ?truthy_dict'.
  (* the nine classes other than MetaVar / Instantiate: the primitives look at the head of the pattern and at the
     head-normal form of the instance *)
  destruct p.
  1: match_other IH n i.
  1: match_other IH n i.
  1: match_other IH n i.
  1: match_other IH n i.
  1: match_other IH n i.
  1: match_other IH n i.
  1: match_other IH n i.
  2: match_other IH n i.
  2: match_other IH n i.
  - (* MetaVar *)
    cbv zeta. cbn [match_single]. rewrite amem_alookup. destruct (alookup id ret) eqn:E; cbn [bind].
    + destruct (py_eq fc n p i) as [[|]|]; reflexivity.
    + rewrite (aset_fresh _ _ _ E). reflexivity.
  - (* Instantiate *)
    cbv zeta. cbn [match_single]. change (f_match_simplify fc) with true. cbn [andb is_inst simplify].
    rewrite src_instantiate_eq. destruct (py_inst fc n p d); cbn [bind]; [apply IH|reflexivity].
Qed.

Theorem src_match_eq n eqs : src_match n eqs = match_list fc n eqs [].
Proof.
  unfold src_match. cbv zeta. generalize (@nil (N * ppat)) as ret.
  induction eqs as [|e eqs IH]; intro ret; [reflexivity|].
  cbn [match_list]. rewrite <- src_match_single_eq.
  destruct (src_match_single n (fst e) (snd e) ret) as [[ret'|]|]; cbn [bind]; try reflexivity.
  change (f_match_list_none fc) with true. cbn [negb andb]. apply IH.
Qed.

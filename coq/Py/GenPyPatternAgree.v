(** The functions GENERATED from the current pattern.py / basic_interpreter.py (coq/Gen/PyPattern.v, translators/
    pypattern.py) are equal to the hand-written model (coq/Py/Pattern.v) in the configuration of the current code
    ([flags_current], Py/Bridge.v).  The proofs are by fuel induction and case analysis and do not mention the text
    of the generated arms, so a harmless rewrite of the Python re-proves, while a changed guard / constructor /
    dropped simplify makes an arm differ from the model and the corresponding case fail. *)
From Coq Require Import NArith List Bool Lia.
From Pi2 Require Import ML.Syntax Py.Pattern Py.PatFacts Py.MetaFacts Py.ExpandFacts Py.Bridge Py.GenSupport Gen.PyPattern.
Import ListNotations.
Open Scope N_scope.

Notation fc := flags_current.

(** ---- metavars ---- *)
Theorem src_metavars_eq : forall p, src_metavars p = metavars p.
Proof.
  induction p using ppat_ind'; simpl; try reflexivity; try congruence.
  rewrite fold_left_if_app. simpl. rewrite IHp. apply flat_map_ext_in. intros v _.
  change (map (fun kv : N * ppat => (fst kv, src_metavars (snd kv))) d) with (amap src_metavars d).
  change (map (fun kv : N * ppat => (fst kv, metavars (snd kv))) d) with (amap metavars d).
  rewrite !alookup_amap, amem_alookup.
  destruct (alookup v d) as [pv|] eqn:E; simpl; [|reflexivity].
  apply alookup_in in E. rewrite Forall_forall in H. exact (H (v, pv) E).
Qed.

(** ---- instantiate / apply_esubst / apply_ssubst ---- *)
Ltac step IHi IHe IHs :=
  repeat (rewrite ?IHi, ?IHe, ?IHs);
  repeat match goal with
         | |- context [if ?c then _ else _] => destruct c eqn:?; simpl
         | |- context [bind ?o _] => destruct o eqn:?; simpl
         end; try reflexivity; try congruence.

Theorem src_ops_eq n :
  (forall p d, src_instantiate n p d = py_inst fc n p d) /\
  (forall p x g, src_apply_esubst n p x g = py_esubst fc n p x g) /\
  (forall p x g, src_apply_ssubst n p x g = py_ssubst fc n p x g).
Proof.
  induction n as [|n [IHi [IHe IHs]]]; [repeat split; reflexivity|].
  repeat split.
  - intros p d. destruct p; simpl; try (step IHi IHe IHs; fail).
    + (* MetaVar *) rewrite amem_alookup. destruct (alookup id d); reflexivity.
    + (* Instantiate *)
      destruct d0 as [|kv0 d0]; [simpl; rewrite IHi; reflexivity|].
      remember (kv0 :: d0) as d1. assert (Hn : isnil d1 = false) by (subst; reflexivity). rewrite Hn.
      assert (Em : map_opt (fun kv1 : N * ppat => bind (src_instantiate n (snd kv1) d) (fun c2 => Some (fst kv1, c2))) d1
                   = map_opt (fun kv : N * ppat => bind (py_inst fc n (snd kv) d) (fun v => Some (fst kv, v))) d1).
      { apply map_opt_ext_in. intros a _. rewrite IHi. reflexivity. }
      rewrite Em. clear Em.
      destruct (map_opt (fun kv : N * ppat => bind (py_inst fc n (snd kv) d) (fun v => Some (fst kv, v))) d1); simpl; [|reflexivity].
      rewrite src_metavars_eq. unfold unshadowed. rewrite filter_filter. reflexivity.
  - intros p x g. destruct p; simpl; try (step IHi IHe IHs; fail).
  - intros p x g. destruct p; simpl; try (step IHi IHe IHs; fail).
Qed.

Theorem src_instantiate_eq n p d : src_instantiate n p d = py_inst fc n p d.
Proof. apply src_ops_eq. Qed.
Theorem src_apply_esubst_eq n p x g : src_apply_esubst n p x g = py_esubst fc n p x g.
Proof. apply src_ops_eq. Qed.
Theorem src_apply_ssubst_eq n p x g : src_apply_ssubst n p x g = py_ssubst fc n p x g.
Proof. apply src_ops_eq. Qed.

(** ---- evar_is_free ---- *)
Theorem src_evar_is_free_eq n : forall p x, src_evar_is_free n p x = py_fresh fc n p x.
Proof.
  induction n as [|n IH]; intros p x; [reflexivity|].
  destruct p; simpl; rewrite ?src_instantiate_eq; repeat (rewrite ?IH);
    repeat match goal with
           | |- context [if ?c then _ else _] => destruct c eqn:?; simpl
           | |- context [bind ?o _] => destruct o eqn:?; simpl
           end; try reflexivity; try congruence.
Qed.

(** ---- the three rules of BasicInterpreter: [None] of the generated function = AssertionError or out of fuel ---- *)
Definition flat {A} (o:option (option A)) : option A := bind o (fun u => u).

Theorem src_modus_ponens_eq n L R : src_modus_ponens n L R = flat (basic_mp fc n L R).
Proof.
  unfold src_modus_ponens, basic_mp, extract_imp, flat. destruct (unwrap_imp fc n L) as [[[l r]|]|]; simpl; try reflexivity.
  destruct (py_eq fc n l R) as [[|]|]; reflexivity.
Qed.
Theorem src_exists_generalization_eq n C x : src_exists_generalization n C x = flat (basic_gen fc n C x).
Proof.
  unfold src_exists_generalization, basic_gen, extract_imp, flat. destruct (unwrap_imp fc n C) as [[[l r]|]|]; simpl; try reflexivity.
  rewrite src_evar_is_free_eq. destruct (py_fresh fc n r x) as [[|]|]; reflexivity.
Qed.
Theorem src_instantiate_rule_eq n C d : src_instantiate_rule n C d = basic_inst fc n C d.
Proof.
  unfold src_instantiate_rule, basic_inst. destruct (isnil d); [reflexivity|]. rewrite src_instantiate_eq, bind_eta. reflexivity.
Qed.

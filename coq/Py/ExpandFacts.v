(** Transparency of notation (C12) on the model of pattern.py: every operation commutes with full
    expansion.  All statements are in partial-correctness form over the fuel ("whenever the function
    returns, ..."); Py/Termination.v shows that enough fuel always exists. *)
From Coq Require Import NArith List Bool Lia.
From Pi2 Require Import ML.Syntax Py.Pattern Py.PatFacts Py.MetaFacts.
Import ListNotations.
Open Scope N_scope.

Lemma bind_some {A B} (o:option A) (g:A -> option B) r :
  bind o g = Some r -> exists a, o = Some a /\ g a = Some r.
Proof. destruct o; simpl; intro H; [eauto|discriminate]. Qed.

Tactic Notation "bind_inv" hyp(H) "as" ident(a) ident(Ha) :=
  apply bind_some in H; destruct H as [a [Ha H]].

Section WithFlags.
Variable f : pyflags.

Lemma p_inst_nonnil t s : isnil s = false -> p_inst f t s = p_inst' f t s.
Proof. unfold p_inst. intros ->. reflexivity. Qed.
Lemma expand_delta_alookup k d : alookup k (expand_delta f d) = option_map (expand f) (alookup k d).
Proof. apply (alookup_amap (expand f)). Qed.
Lemma expand_delta_app a b : expand_delta f (a ++ b) = expand_delta f a ++ expand_delta f b.
Proof. apply map_app. Qed.
Lemma expand_delta_isnil d : isnil (expand_delta f d) = isnil d.
Proof. destruct d; reflexivity. Qed.
Lemma expand_delta_unshadowed d d0 :
  expand_delta f (unshadowed d d0) = unshadowed (expand_delta f d) (expand_delta f d0).
Proof.
  change (amap (expand f) (unshadowed d d0) = unshadowed (amap (expand f) d) (amap (expand f) d0)).
  rewrite unshadowed_amap, unshadowed_amap_r. reflexivity.
Qed.
Lemma expand_inst q d : expand f (PInst q d) = p_inst f (expand f q) (expand_delta f d).
Proof. reflexivity. Qed.
Lemma expand_embed p : expand f (embed p) = p.
Proof. induction p; simpl; congruence. Qed.

Hypothesis Hkeep : f_mv_keep_subst f = true.
Hypothesis Hext : f_inst_extend f = true.

Definition P_inst n := forall p d r, py_inst f n p d = Some r ->
  expand f r = p_inst f (expand f p) (expand_delta f d).
Definition P_esub n := forall p x g r, py_esubst f n p x g = Some r ->
  expand f r = p_esubst f (expand f p) x (expand f g).
Definition P_ssub n := forall p x g r, py_ssubst f n p x g = Some r ->
  expand f r = p_ssubst f (expand f p) x (expand f g).

Lemma map_opt_inst n d d' d'' :
  P_inst n ->
  map_opt (fun kv => bind (py_inst f n (snd kv) d) (fun v => Some (fst kv, v))) d' = Some d'' ->
  expand_delta f d'' = amap (fun v => p_inst f v (expand_delta f d)) (expand_delta f d').
Proof.
  intro IH. revert d''. induction d' as [|kv d' IHd]; simpl; intros d'' H.
  - inversion H. reflexivity.
  - bind_inv H as b Hb. bind_inv Hb as v Hv. inversion Hb; subst; clear Hb. bind_inv H as t Ht.
    inversion H; subst; clear H.
    simpl. rewrite (IH _ _ _ Hv). rewrite (IHd _ Ht). reflexivity.
Qed.

Lemma ops_expand n : P_inst n /\ P_esub n /\ P_ssub n.
Proof.
  induction n as [|n [IHi [IHe IHs]]].
  - repeat split; intros ? ? ? ; try intros ?; discriminate.
  - repeat split.
    + (* py_inst *)
      intros p d r H. destruct p; simpl in H.
      * inversion H; subst. simpl. destruct (expand_delta f d); reflexivity.
      * inversion H; subst. simpl. destruct (expand_delta f d); reflexivity.
      * inversion H; subst. simpl. destruct (expand_delta f d); reflexivity.
      * simpl expand. rewrite p_inst_imp. destruct d as [|kv d]; simpl in H.
        { inversion H; subst. reflexivity. }
        bind_inv H as l' Hl. bind_inv H as r' Hr. inversion H; subst. simpl. rewrite (IHi _ _ _ Hl), (IHi _ _ _ Hr). reflexivity.
      * simpl expand. rewrite p_inst_app. destruct d as [|kv d]; simpl in H.
        { inversion H; subst. reflexivity. }
        bind_inv H as l' Hl. bind_inv H as r' Hr. inversion H; subst. simpl. rewrite (IHi _ _ _ Hl), (IHi _ _ _ Hr). reflexivity.
      * simpl expand. rewrite p_inst_ex. destruct d as [|kv d]; simpl in H.
        { inversion H; subst. reflexivity. }
        bind_inv H as q' Hq. inversion H; subst. simpl. rewrite (IHi _ _ _ Hq). reflexivity.
      * simpl expand. rewrite p_inst_mu. destruct d as [|kv d]; simpl in H.
        { inversion H; subst. reflexivity. }
        bind_inv H as q' Hq. inversion H; subst. simpl. rewrite (IHi _ _ _ Hq). reflexivity.
      * inversion H; subst. simpl expand at 2. rewrite p_inst_mvar, expand_delta_alookup.
        destruct (alookup id d); reflexivity.
      * simpl expand. rewrite p_inst_esub, expand_delta_isnil. destruct d as [|kv d]; simpl in H.
        { inversion H; subst. reflexivity. }
        bind_inv H as q' Hq. bind_inv H as g' Hg. simpl isnil. cbv iota.
        rewrite (IHe _ _ _ _ H), (IHi _ _ _ Hq), (IHi _ _ _ Hg). reflexivity.
      * simpl expand. rewrite p_inst_ssub, expand_delta_isnil. destruct d as [|kv d]; simpl in H.
        { inversion H; subst. reflexivity. }
        bind_inv H as q' Hq. bind_inv H as g' Hg. simpl isnil. cbv iota.
        rewrite (IHs _ _ _ _ H), (IHi _ _ _ Hq), (IHi _ _ _ Hg). reflexivity.
      * rewrite Hext in H. destruct d0 as [|kv0 d0'].
        { (* empty inst: the pattern itself is instantiated *)
          simpl isnil in H. cbv iota in H. bind_inv H as q' Hq. inversion H; subst; clear H.
          rewrite !expand_inst. simpl expand_delta. rewrite !p_inst_nil. apply (IHi _ _ _ Hq). }
        remember (kv0 :: d0') as d1 eqn:Ed1.
        assert (Hnn : isnil d1 = false) by (subst d1; reflexivity).
        rewrite Hnn in H. bind_inv H as d'' Hd. inversion H; subst r; clear H.
        rewrite !expand_inst, expand_delta_app.
        rewrite (map_opt_inst _ _ _ _ IHi Hd).
        rewrite (p_inst_comp f Hkeep).
        assert (Hne : forall (l:list (N*pat)),
                   isnil (amap (fun v => p_inst f v (expand_delta f d)) (expand_delta f d1) ++ l) = false).
        { intro l. subst d1. reflexivity. }
        rewrite (p_inst_nonnil (expand f p) _ (Hne _)), (p_inst_nonnil (expand f p) _ (Hne _)).
        apply p_inst'_agree. intros k Hk.
        rewrite !alookup_app.
        destruct (alookup k (amap (fun v => p_inst f v (expand_delta f d)) (expand_delta f d1))); [reflexivity|].
        change (alookup k (amap (expand f) (filter (fun kv => mem (fst kv) (metavars p)) (unshadowed d d1)))
                = alookup k (unshadowed (expand_delta f d) (expand_delta f d1))).
        rewrite <- expand_delta_unshadowed. change (expand_delta f (unshadowed d d1)) with (amap (expand f) (unshadowed d d1)).
        rewrite !alookup_amap.
        rewrite (alookup_filter_key (fun k0 => mem k0 (metavars p))); [reflexivity|].
        apply mem_In. apply (metavars_incl f). exact Hk.
    + (* py_esubst *)
      intros p x g r H. destruct p; simpl in H.
      * inversion H; subst. simpl. destruct (N.eqb x n0); reflexivity.
      * inversion H; subst. reflexivity.
      * inversion H; subst. reflexivity.
      * bind_inv H as l' Hl. bind_inv H as r' Hr. inversion H; subst. simpl. rewrite (IHe _ _ _ _ Hl), (IHe _ _ _ _ Hr). reflexivity.
      * bind_inv H as l' Hl. bind_inv H as r' Hr. inversion H; subst. simpl. rewrite (IHe _ _ _ _ Hl), (IHe _ _ _ _ Hr). reflexivity.
      * simpl. destruct (N.eqb x x0).
        { inversion H; subst. reflexivity. }
        bind_inv H as q' Hq. inversion H; subst. simpl. rewrite (IHe _ _ _ _ Hq). reflexivity.
      * bind_inv H as q' Hq. inversion H; subst. simpl. rewrite (IHe _ _ _ _ Hq). reflexivity.
      * inversion H; subst. simpl. destruct (negb (f_mv_keep_subst f) && mem x ef); reflexivity.
      * inversion H; subst. reflexivity.
      * inversion H; subst. reflexivity.
      * bind_inv H as r0 Hr0. rewrite (IHe _ _ _ _ H), (IHi _ _ _ Hr0). reflexivity.
    + (* py_ssubst *)
      intros p x g r H. destruct p; simpl in H.
      * inversion H; subst. reflexivity.
      * inversion H; subst. simpl. destruct (N.eqb x n0); reflexivity.
      * inversion H; subst. reflexivity.
      * bind_inv H as l' Hl. bind_inv H as r' Hr. inversion H; subst. simpl. rewrite (IHs _ _ _ _ Hl), (IHs _ _ _ _ Hr). reflexivity.
      * bind_inv H as l' Hl. bind_inv H as r' Hr. inversion H; subst. simpl. rewrite (IHs _ _ _ _ Hl), (IHs _ _ _ _ Hr). reflexivity.
      * bind_inv H as q' Hq. inversion H; subst. simpl. rewrite (IHs _ _ _ _ Hq). reflexivity.
      * simpl. destruct (N.eqb x X).
        { inversion H; subst. reflexivity. }
        bind_inv H as q' Hq. inversion H; subst. simpl. rewrite (IHs _ _ _ _ Hq). reflexivity.
      * inversion H; subst. simpl. destruct (negb (f_mv_keep_subst f) && mem x sf); reflexivity.
      * inversion H; subst. reflexivity.
      * inversion H; subst. reflexivity.
      * bind_inv H as r0 Hr0. rewrite (IHs _ _ _ _ H), (IHi _ _ _ Hr0). reflexivity.
Qed.

(** C11/C12: [instantiate], [apply_esubst], [apply_ssubst] are transparent *)
Theorem py_inst_expand n p d r : py_inst f n p d = Some r ->
  expand f r = p_inst f (expand f p) (expand_delta f d).
Proof. apply ops_expand. Qed.
Theorem py_esubst_expand n p x g r : py_esubst f n p x g = Some r ->
  expand f r = p_esubst f (expand f p) x (expand f g).
Proof. apply ops_expand. Qed.
Theorem py_ssubst_expand n p x g r : py_ssubst f n p x g = Some r ->
  expand f r = p_ssubst f (expand f p) x (expand f g).
Proof. apply ops_expand. Qed.

(** one step of simplification does not change the expansion *)
Theorem simplify_expand n p r : simplify f n p = Some r -> expand f r = expand f p.
Proof.
  destruct p; simpl; intro H; try (inversion H; reflexivity).
  apply py_inst_expand in H. exact H.
Qed.

Theorem hnf_expand n : forall p r, hnf f n p = Some r -> expand f r = expand f p /\ is_inst r = false.
Proof.
  induction n as [|n IH]; intros p r H; destruct p; simpl in H; try (inversion H; subst; split; reflexivity).
  bind_inv H as r0 Hr0. apply IH in H as [H1 H2]. split; auto. rewrite H1.
    apply py_inst_expand in Hr0. exact Hr0.
Qed.

(** C12: equality is structural equality of the full expansions *)
Theorem py_eq_expand n : forall a b r, py_eq f n a b = Some r -> r = pat_eqb (expand f a) (expand f b).
Proof.
  induction n as [|n IH]; intros a b r H; [discriminate|].
  destruct a.
  11: { (* a is an Instantiate *)
    simpl in H. bind_inv H as a' Ha'. apply IH in H. subst r.
    apply py_inst_expand in Ha'. rewrite Ha'. reflexivity. }
  all: destruct b.
  all: try (simpl in H; inversion H; subst; reflexivity).
  all: try ( (* b is an Instantiate: reflected comparison *)
    simpl in H; bind_inv H as b' Hb'; apply IH in H; subst r;
    apply py_inst_expand in Hb'; rewrite Hb'; rewrite pat_eqb_sym; reflexivity).
  - (* Imp *) simpl in H. bind_inv H as e1 He1. apply IH in He1. subst e1. simpl.
    destruct (pat_eqb (expand f a1) (expand f b1)); simpl.
    + apply IH in H. exact H.
    + inversion H. reflexivity.
  - (* App *) simpl in H. bind_inv H as e1 He1. apply IH in He1. subst e1. simpl.
    destruct (pat_eqb (expand f a1) (expand f b1)); simpl.
    + apply IH in H. exact H.
    + inversion H. reflexivity.
  - (* Ex *) simpl in H. simpl. destruct (N.eqb x x0); simpl.
    + apply IH in H. exact H.
    + inversion H. reflexivity.
  - (* Mu *) simpl in H. simpl. destruct (N.eqb X X0); simpl.
    + apply IH in H. exact H.
    + inversion H. reflexivity.
  - (* ESub *) simpl in H. bind_inv H as e1 He1. apply IH in He1. subst e1. simpl.
    destruct (pat_eqb (expand f a1) (expand f b1)); simpl.
    + destruct (N.eqb x x0); simpl.
      * apply IH in H. exact H.
      * inversion H. reflexivity.
    + inversion H. reflexivity.
  - (* SSub *) simpl in H. bind_inv H as e1 He1. apply IH in He1. subst e1. simpl.
    destruct (pat_eqb (expand f a1) (expand f b1)); simpl.
    + destruct (N.eqb X X0); simpl.
      * apply IH in H. exact H.
      * inversion H. reflexivity.
    + inversion H. reflexivity.
Qed.

(** hence an equivalence relation (on terminating runs; see Termination.v for the fuel) *)
Corollary py_eq_refl n a r : py_eq f n a a = Some r -> r = true.
Proof. intro H. apply py_eq_expand in H. rewrite H. apply pat_eqb_refl'. Qed.
Corollary py_eq_sym n m a b r r' : py_eq f n a b = Some r -> py_eq f m b a = Some r' -> r = r'.
Proof. intros H H'. apply py_eq_expand in H, H'. rewrite H, H'. apply pat_eqb_sym. Qed.
Corollary py_eq_trans n m k a b c r :
  py_eq f n a b = Some true -> py_eq f m b c = Some true -> py_eq f k a c = Some r -> r = true.
Proof.
  intros H1 H2 H3. apply py_eq_expand in H1, H2, H3. symmetry in H1, H2.
  apply pat_eqb_iff in H1, H2. rewrite H3, H1, H2. apply pat_eqb_refl'.
Qed.

(** C06/C12: the freshness judgement is the checker's judgement on the expansion *)
Hypothesis Hfresh : f_fresh_simplify f = true.

Theorem py_fresh_expand n : forall p x r, py_fresh f n p x = Some r -> r = e_fresh (expand f p) x.
Proof.
  induction n as [|n IH]; intros p x r H; [discriminate|].
  destruct p; simpl in H.
  - inversion H. simpl. rewrite N.eqb_sym. reflexivity.
  - inversion H. reflexivity.
  - inversion H. reflexivity.
  - bind_inv H as e1 He1. apply IH in He1. subst e1. simpl. destruct (e_fresh (expand f p1) x); simpl.
    + apply IH in H. exact H.
    + inversion H. reflexivity.
  - bind_inv H as e1 He1. apply IH in He1. subst e1. simpl. destruct (e_fresh (expand f p1) x); simpl.
    + apply IH in H. exact H.
    + inversion H. reflexivity.
  - simpl. destruct (N.eqb x x0); simpl.
    + inversion H. reflexivity.
    + apply IH in H. exact H.
  - simpl. apply IH in H. exact H.
  - inversion H. reflexivity.
  - simpl. rewrite (N.eqb_sym x x0). destruct (N.eqb x0 x).
    + apply IH in H. exact H.
    + bind_inv H as e1 He1. apply IH in He1. subst e1. destruct (e_fresh (expand f p1) x); simpl.
      * apply IH in H. exact H.
      * inversion H. reflexivity.
  - simpl. bind_inv H as e1 He1. apply IH in He1. subst e1. destruct (e_fresh (expand f p1) x); simpl.
    + apply IH in H. exact H.
    + inversion H. reflexivity.
  - rewrite Hfresh in H. bind_inv H as r0 Hr0. apply IH in H. subst r.
    apply py_inst_expand in Hr0. rewrite Hr0. reflexivity.
Qed.

(** C12: destructuring sees through notation *)
Theorem unwrap_imp_expand n p u : unwrap_imp f n p = Some u ->
  match u with
  | Some (l, r) => expand f p = Imp (expand f l) (expand f r)
  | None => forall a b, expand f p <> Imp a b
  end.
Proof.
  unfold unwrap_imp. intro H. bind_inv H as h Hh. inversion H; subst; clear H.
  apply hnf_expand in Hh as [H1 H2]. rewrite <- H1.
  destruct h; simpl; try (intros ? ?; discriminate); try reflexivity.
Qed.
Theorem unwrap_app_expand n p u : unwrap_app f n p = Some u ->
  match u with
  | Some (l, r) => expand f p = App (expand f l) (expand f r)
  | None => forall a b, expand f p <> App a b
  end.
Proof.
  unfold unwrap_app. intro H. bind_inv H as h Hh. inversion H; subst; clear H.
  apply hnf_expand in Hh as [H1 H2]. rewrite <- H1.
  destruct h; simpl; try (intros ? ?; discriminate); try reflexivity.
Qed.
Theorem decon_evar_expand n p u : decon_evar f n p = Some u ->
  match u with Some x => expand f p = EVar x | None => forall x, expand f p <> EVar x end.
Proof.
  unfold decon_evar. intro H. bind_inv H as h Hh. inversion H; subst; clear H.
  apply hnf_expand in Hh as [H1 H2]. rewrite <- H1.
  destruct h; simpl; try (intros ?; discriminate); try reflexivity.
Qed.
Theorem decon_svar_expand n p u : decon_svar f n p = Some u ->
  match u with Some x => expand f p = SVar x | None => forall x, expand f p <> SVar x end.
Proof.
  unfold decon_svar. intro H. bind_inv H as h Hh. inversion H; subst; clear H.
  apply hnf_expand in Hh as [H1 H2]. rewrite <- H1.
  destruct h; simpl; try (intros ?; discriminate); try reflexivity.
Qed.
Theorem decon_sym_expand n p u : decon_sym f n p = Some u ->
  match u with Some x => expand f p = Sym x | None => forall x, expand f p <> Sym x end.
Proof.
  unfold decon_sym. intro H. bind_inv H as h Hh. inversion H; subst; clear H.
  apply hnf_expand in Hh as [H1 H2]. rewrite <- H1.
  destruct h; simpl; try (intros ?; discriminate); try reflexivity.
Qed.
Theorem decon_ex_expand n p u : decon_ex f n p = Some u ->
  match u with
  | Some (x, q) => expand f p = Ex x (expand f q)
  | None => forall x q, expand f p <> Ex x q
  end.
Proof.
  unfold decon_ex. intro H. bind_inv H as h Hh. inversion H; subst; clear H.
  apply hnf_expand in Hh as [H1 H2]. rewrite <- H1.
  destruct h; simpl; try (intros ? ?; discriminate); try reflexivity.
Qed.
Theorem decon_mu_expand n p u : decon_mu f n p = Some u ->
  match u with
  | Some (x, q) => expand f p = Mu x (expand f q)
  | None => forall x q, expand f p <> Mu x q
  end.
Proof.
  unfold decon_mu. intro H. bind_inv H as h Hh. inversion H; subst; clear H.
  apply hnf_expand in Hh as [H1 H2]. rewrite <- H1.
  destruct h; simpl; try (intros ? ?; discriminate); try reflexivity.
Qed.

End WithFlags.

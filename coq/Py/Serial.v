(** C19 (second half): one interpreter call = one binary instruction = one pretty-printed step.
    Model of what [SerializingInterpreter] (serializing_interpreter.py) writes for each [Interpreter] call and
    of the header [PrettyPrintingInterpreter] (pretty_printing_interpreter.py) prints for the same call, plus a
    decoder of the instruction stream (operand arities of docs/proof-language.md).  Model only. *)
From Coq Require Import NArith List Bool.
From Pi2 Require Import ML.Syntax Py.Pattern Py.Pretty.
Import ListNotations.
Open Scope N_scope.

(** the abstract methods of [Interpreter] that produce output (pattern constructors, axioms, rules, stack,
    memory, journal); [KInst] is both [instantiate] and [instantiate_pattern] (keys of delta in dict order) *)
Inductive call :=
| KEVar (id:N) | KSVar (id:N) | KSymbol (name:str)
| KMetaVar (id:N) (ef sf pos neg app:list N)
| KImplies | KApp | KExists (v:N) | KMu (v:N) | KESubst (id:N) | KSSubst (id:N)
| KProp1 | KProp2 | KProp3 | KModusPonens | KQuantifier | KGeneralization (v:N)
| KInst (keys:list N)
| KPop | KSave | KLoad (name:str) (idx:N) | KPublish.

(** decoded instructions (instruction.py opcodes) *)
Inductive instr :=
| IEVar (id:N) | ISVar (id:N) | ISymbol (id:N)
| IMetaVar (id:N) (l1 l2 l3 l4 l5:list N) | ICleanMetaVar (id:N)
| IImplies | IApp | IExists (v:N) | IMu (v:N) | IESubst (id:N) | ISSubst (id:N)
| IProp1 | IProp2 | IProp3 | IModusPonens | IQuantifier | IGeneralization (v:N)
| IInstantiate (ids:list N)        (* as stored: reversed dict order *)
| IPop | ISave | ILoad (idx:N) | IPublish.

(** [_symbol_identifiers]: first-occurrence numbering *)
Fixpoint index_of (s:str) (tbl:list str) (k:N) : option N :=
  match tbl with
  | [] => None
  | t::r => if list_eqb s t then Some k else index_of s r (k+1)
  end.
Definition sym_id (tbl:list str) (name:str) : list str * N :=
  match index_of name tbl 0 with
  | Some i => (tbl, i)
  | None => (tbl ++ [name], N.of_nat (length tbl))
  end.

Definition nlen (l:list N) : N := N.of_nat (length l).
Definition vec (l:list N) : list N := nlen l :: l.
Definition all_nil (ls:list (list N)) : bool := forallb (fun l => match l with [] => true | _ => false end) ls.

(** the instruction a call is serialised to *)
Definition instr_of (tbl:list str) (c:call) : list str * instr :=
  match c with
  | KEVar id => (tbl, IEVar id) | KSVar id => (tbl, ISVar id)
  | KSymbol name => let (tbl', i) := sym_id tbl name in (tbl', ISymbol i)
  | KMetaVar id a b c d e =>
      (tbl, if all_nil [a;b;c;d;e] then ICleanMetaVar id else IMetaVar id a b c d e)
  | KImplies => (tbl, IImplies) | KApp => (tbl, IApp)
  | KExists v => (tbl, IExists v) | KMu v => (tbl, IMu v)
  | KESubst id => (tbl, IESubst id) | KSSubst id => (tbl, ISSubst id)
  | KProp1 => (tbl, IProp1) | KProp2 => (tbl, IProp2) | KProp3 => (tbl, IProp3)
  | KModusPonens => (tbl, IModusPonens) | KQuantifier => (tbl, IQuantifier)
  | KGeneralization v => (tbl, IGeneralization v)
  | KInst keys => (tbl, IInstantiate (rev keys))
  | KPop => (tbl, IPop) | KSave => (tbl, ISave) | KLoad _ idx => (tbl, ILoad idx) | KPublish => (tbl, IPublish)
  end.

(** bytes of one instruction *)
Definition encode (i:instr) : list N :=
  match i with
  | IEVar id => [2; id] | ISVar id => [3; id] | ISymbol id => [4; id]
  | IImplies => [5] | IApp => [6] | IMu v => [7; v] | IExists v => [8; v]
  | IMetaVar id a b c d e => 9 :: id :: vec a ++ vec b ++ vec c ++ vec d ++ vec e
  | ICleanMetaVar id => [137; id]
  | IESubst id => [10; id] | ISSubst id => [11; id]
  | IProp1 => [12] | IProp2 => [13] | IProp3 => [14] | IQuantifier => [15]
  | IModusPonens => [21] | IGeneralization v => [22; v]
  | IInstantiate ids => 26 :: vec ids
  | IPop => [27] | ISave => [28] | ILoad idx => [29; idx] | IPublish => [30]
  end.

(** what the serialiser writes for a sequence of calls *)
Fixpoint instrs_of (tbl:list str) (cs:list call) : list instr :=
  match cs with
  | [] => []
  | c::r => let (tbl', i) := instr_of tbl c in i :: instrs_of tbl' r
  end.
Definition emits (tbl:list str) (cs:list call) : list N := flat_map encode (instrs_of tbl cs).

(** ---- decoder ---- *)
Fixpoint take (n:nat) (bs:list N) : option (list N * list N) :=
  match n with
  | O => Some ([], bs)
  | S n' => match bs with
            | [] => None
            | b::r => match take n' r with Some (v, rest) => Some (b::v, rest) | None => None end
            end
  end.
Definition read_vec (bs:list N) : option (list N * list N) :=
  match bs with [] => None | n::r => take (N.to_nat n) r end.

Definition decode1 (bs:list N) : option (instr * list N) :=
  match bs with
  | [] => None
  | op::r =>
    let one (k:N -> instr) := match r with id::r' => Some (k id, r') | [] => None end in
    match op with
    | 2 => one IEVar | 3 => one ISVar | 4 => one ISymbol
    | 5 => Some (IImplies, r) | 6 => Some (IApp, r) | 7 => one IMu | 8 => one IExists
    | 9 => match r with
           | [] => None
           | id::r1 =>
             match read_vec r1 with None => None | Some (a, r2) =>
             match read_vec r2 with None => None | Some (b, r3) =>
             match read_vec r3 with None => None | Some (c, r4) =>
             match read_vec r4 with None => None | Some (d, r5) =>
             match read_vec r5 with None => None | Some (e, r6) => Some (IMetaVar id a b c d e, r6)
             end end end end end
           end
    | 137 => one ICleanMetaVar
    | 10 => one IESubst | 11 => one ISSubst
    | 12 => Some (IProp1, r) | 13 => Some (IProp2, r) | 14 => Some (IProp3, r) | 15 => Some (IQuantifier, r)
    | 21 => Some (IModusPonens, r) | 22 => one IGeneralization
    | 26 => match read_vec r with Some (ids, r') => Some (IInstantiate ids, r') | None => None end
    | 27 => Some (IPop, r) | 28 => Some (ISave, r) | 29 => one ILoad | 30 => Some (IPublish, r)
    | _ => None
    end
  end.

(** fuel: number of instructions still allowed (every instruction has at least one byte) *)
Fixpoint decode (n:nat) (bs:list N) : option (list instr) :=
  match bs with
  | [] => Some []
  | _ => match n with
         | O => None
         | S n' => match decode1 bs with
                   | Some (i, rest) => match decode n' rest with Some l => Some (i::l) | None => None end
                   | None => None
                   end
         end
  end.

(** ---- the pretty-printed step of a call (the text before the stack dump) ---- *)
Definition spaced (pre:str) (l:list N) (var:N) : str :=
  (* write_list: "<name>, len=<k> x1 x2 \n" for a non-empty list, nothing otherwise *)
  match l with
  | [] => []
  | _ => pre ++ [44;32;108;101;110;61] ++ dec (nlen l) ++ [32]
         ++ flat_map (fun v => var :: dec v ++ [32]) l ++ [10]
  end.
Fixpoint join_keys (l:list N) : str :=
  match l with
  | [] => []
  | [k] => dec k
  | k::t => dec k ++ [44;32] ++ join_keys t
  end.
Definition pretty_step (c:call) : str :=
  match c with
  | KEVar id => [69;86;97;114;32] ++ dec id
  | KSVar id => [83;86;97;114;32] ++ dec id
  | KSymbol name => [83;121;109;98;111;108;32] ++ name
  | KMetaVar id a b c d e =>
      [77;101;116;97;86;97;114;32] ++ dec id
      ++ spaced [101;70;114;101;115;104] a 120 ++ spaced [115;70;114;101;115;104] b 88
      ++ spaced [112;111;115] c 88 ++ spaced [110;101;103] d 88 ++ spaced [97;112;112;99;116;120] e 120
  | KImplies => [73;109;112;108;105;101;115]
  | KApp => [65;112;112]
  | KExists v => [69;120;105;115;116;115;32] ++ dec v
  | KMu v => [77;117;32] ++ dec v
  | KESubst id => [69;83;117;98;115;116;32;105;100;61] ++ dec id
  | KSSubst id => [83;83;117;98;115;116;32;105;100;61] ++ dec id
  | KProp1 => [80;114;111;112;49] | KProp2 => [80;114;111;112;50] | KProp3 => [80;114;111;112;51]
  | KModusPonens => [77;111;100;117;115;80;111;110;101;110;115]
  | KQuantifier => [81;117;97;110;116;105;102;105;101;114]
  | KGeneralization v => [71;101;110;101;114;97;108;105;122;97;116;105;111;110;32] ++ dec v
  | KInst keys => [73;110;115;116;97;110;116;105;97;116;101;32] ++ join_keys keys
  | KPop => [80;111;112] | KSave => [83;97;118;101]
  | KLoad name idx => [76;111;97;100;32] ++ name ++ [61] ++ dec idx
  | KPublish => [80;117;98;108;105;115;104]
  end.

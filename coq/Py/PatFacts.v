(** Facts about the notation-free fragment: the Python methods on [pat] (Py/Pattern.v, first part).
    Main results: [p_inst_esubst]/[p_inst_ssubst] (instantiation commutes with the deferred
    substitutions) and [p_inst_comp] (instantiating twice = instantiating once with the composed map),
    both for the configuration in which a metavariable never drops a substitution. *)
From Coq Require Import NArith List Bool Lia.
From Pi2 Require Import ML.Syntax Py.Pattern.
Import ListNotations.
Open Scope N_scope.

(** ---- equality ---- *)
Lemma list_eqb_eq a : forall b, list_eqb a b = true <-> a = b.
Proof.
  induction a as [|x a IH]; intros [|y b]; simpl; split; intro H; try discriminate; auto.
  - apply andb_true_iff in H as [H1 H2]. apply N.eqb_eq in H1. apply IH in H2. congruence.
  - inversion H; subst. rewrite N.eqb_refl. simpl. apply IH. reflexivity.
Qed.
Lemma list_eqb_refl a : list_eqb a a = true.
Proof. apply list_eqb_eq. reflexivity. Qed.

Lemma pat_eqb_refl' p : pat_eqb p p = true.
Proof.
  induction p; simpl; rewrite ?N.eqb_refl, ?list_eqb_refl, ?IHp, ?IHp1, ?IHp2; reflexivity.
Qed.

Lemma pat_eqb_true a : forall b, pat_eqb a b = true -> a = b.
Proof.
  induction a; intros b H; destruct b; simpl in H; try discriminate;
    repeat (apply andb_true_iff in H; destruct H as [H ?]);
    repeat match goal with
           | H : N.eqb _ _ = true |- _ => apply N.eqb_eq in H
           | H : list_eqb _ _ = true |- _ => apply list_eqb_eq in H
           | IH : forall b, pat_eqb ?a b = true -> _, H : pat_eqb ?a _ = true |- _ => apply IH in H
           end; subst; reflexivity.
Qed.
Lemma pat_eqb_iff a b : pat_eqb a b = true <-> a = b.
Proof. split; [apply pat_eqb_true | intros ->; apply pat_eqb_refl']. Qed.
Lemma pat_eqb_sym a b : pat_eqb a b = pat_eqb b a.
Proof.
  destruct (pat_eqb a b) eqn:E.
  - apply pat_eqb_iff in E. subst. symmetry. apply pat_eqb_refl'.
  - destruct (pat_eqb b a) eqn:E'; auto. apply pat_eqb_iff in E'. subst.
    rewrite pat_eqb_refl' in E. discriminate.
Qed.

(** ---- insertion-ordered maps ---- *)
Lemma alookup_app {A} k (a b:list (N*A)) :
  alookup k (a ++ b) = match alookup k a with Some v => Some v | None => alookup k b end.
Proof. induction a as [|kv a IH]; simpl; auto. destruct (N.eqb (fst kv) k); auto. Qed.

Lemma alookup_amap {A B} (g:A -> B) k (d:list (N*A)) :
  alookup k (amap g d) = option_map g (alookup k d).
Proof. induction d as [|kv d IH]; simpl; auto. destruct (N.eqb (fst kv) k); auto. Qed.

Lemma amem_alookup {A} k (d:list (N*A)) : amem k d = match alookup k d with Some _ => true | None => false end.
Proof. induction d as [|kv d IH]; simpl; auto. destruct (N.eqb (fst kv) k); simpl; auto. Qed.

Lemma amem_amap {A B} (g:A -> B) k (d:list (N*A)) : amem k (amap g d) = amem k d.
Proof. induction d as [|kv d IH]; simpl; auto. rewrite IH. reflexivity. Qed.

Lemma alookup_unshadowed {A B} k (d:list (N*A)) (i:list (N*B)) :
  alookup k (unshadowed d i) = if amem k i then None else alookup k d.
Proof.
  induction d as [|kv d IH]; simpl.
  - destruct (amem k i); reflexivity.
  - destruct (amem (fst kv) i) eqn:E; simpl.
    + rewrite IH. destruct (N.eqb (fst kv) k) eqn:E2; auto.
      apply N.eqb_eq in E2. subst. rewrite E. reflexivity.
    + rewrite IH. destruct (N.eqb (fst kv) k) eqn:E2; auto.
      apply N.eqb_eq in E2. subst. rewrite E. reflexivity.
Qed.

Lemma unshadowed_nil_r {A B} (d:list (N*A)) : unshadowed d (@nil (N*B)) = d.
Proof. unfold unshadowed. induction d as [|kv d IH]; simpl; auto. f_equal. exact IH. Qed.

Lemma unshadowed_amap {A B C} (g:A -> B) (d:list (N*A)) (i:list (N*C)) :
  unshadowed (amap g d) i = amap g (unshadowed d i).
Proof.
  unfold unshadowed, amap. induction d as [|kv d IH]; simpl; auto.
  destruct (amem (fst kv) i); simpl; rewrite IH; reflexivity.
Qed.
Lemma unshadowed_amap_r {A B C} (g:B -> C) (d:list (N*A)) (i:list (N*B)) :
  unshadowed d (amap g i) = unshadowed d i.
Proof.
  unfold unshadowed. apply filter_ext. intro kv. rewrite amem_amap. reflexivity.
Qed.

Lemma amap_id {A} (d:list (N*A)) : amap (fun v => v) d = d.
Proof. unfold amap. induction d as [|[k v] d IH]; simpl; auto. rewrite IH. reflexivity. Qed.
Lemma amap_ext {A B} (g h:A -> B) (d:list (N*A)) : (forall v, g v = h v) -> amap g d = amap h d.
Proof. intro H. unfold amap. apply map_ext. intro kv. rewrite H. reflexivity. Qed.
Lemma amap_amap {A B C} (g:A -> B) (h:B -> C) (d:list (N*A)) : amap h (amap g d) = amap (fun v => h (g v)) d.
Proof. unfold amap. rewrite map_map. reflexivity. Qed.
Lemma amap_app {A B} (g:A -> B) (a b:list (N*A)) : amap g (a ++ b) = amap g a ++ amap g b.
Proof. unfold amap. apply map_app. Qed.
Lemma isnil_amap {A B} (g:A -> B) (d:list (N*A)) : isnil (amap g d) = isnil d.
Proof. destruct d; reflexivity. Qed.

Section WithFlags.
Variable f : pyflags.

Lemma p_inst_nil p : p_inst f p [] = p.
Proof. reflexivity. Qed.

Lemma p_inst_cons p kv d : p_inst f p (kv::d) = p_inst' f p (kv::d).
Proof. reflexivity. Qed.

Lemma p_inst_imp l r d : p_inst f (Imp l r) d = Imp (p_inst f l d) (p_inst f r d).
Proof. destruct d; reflexivity. Qed.
Lemma p_inst_app l r d : p_inst f (App l r) d = App (p_inst f l d) (p_inst f r d).
Proof. destruct d; reflexivity. Qed.
Lemma p_inst_ex x q d : p_inst f (Ex x q) d = Ex x (p_inst f q d).
Proof. destruct d; reflexivity. Qed.
Lemma p_inst_mu x q d : p_inst f (Mu x q) d = Mu x (p_inst f q d).
Proof. destruct d; reflexivity. Qed.
Lemma p_inst_esub q x g d :
  p_inst f (ESub q x g) d = if isnil d then ESub q x g else p_esubst f (p_inst f q d) x (p_inst f g d).
Proof. destruct d; reflexivity. Qed.
Lemma p_inst_ssub q x g d :
  p_inst f (SSub q x g) d = if isnil d then SSub q x g else p_ssubst f (p_inst f q d) x (p_inst f g d).
Proof. destruct d; reflexivity. Qed.
Lemma p_inst_mvar i a b c e h d :
  p_inst f (MVar i a b c e h) d = match alookup i d with Some v => v | None => MVar i a b c e h end.
Proof. destruct d; reflexivity. Qed.

Hypothesis Hkeep : f_mv_keep_subst f = true.

(** instantiation commutes with Python's apply_esubst / apply_ssubst *)
Lemma p_inst'_esubst a x b s :
  p_inst' f (p_esubst f a x b) s = p_esubst f (p_inst' f a s) x (p_inst' f b s).
Proof.
  induction a; simpl; try reflexivity.
  - destruct (N.eqb x n); reflexivity.
  - rewrite IHa1, IHa2. reflexivity.
  - rewrite IHa1, IHa2. reflexivity.
  - destruct (N.eqb x x0) eqn:E; simpl; rewrite ?E; try reflexivity. rewrite IHa. reflexivity.
  - rewrite IHa. reflexivity.
  - rewrite Hkeep. simpl. reflexivity.
Qed.
Lemma p_inst'_ssubst a x b s :
  p_inst' f (p_ssubst f a x b) s = p_ssubst f (p_inst' f a s) x (p_inst' f b s).
Proof.
  induction a; simpl; try reflexivity.
  - destruct (N.eqb x n); reflexivity.
  - rewrite IHa1, IHa2. reflexivity.
  - rewrite IHa1, IHa2. reflexivity.
  - rewrite IHa. reflexivity.
  - destruct (N.eqb x X) eqn:E; simpl; rewrite ?E; try reflexivity. rewrite IHa. reflexivity.
  - rewrite Hkeep. simpl. reflexivity.
Qed.

Lemma p_inst_esubst a x b s :
  p_inst f (p_esubst f a x b) s = p_esubst f (p_inst f a s) x (p_inst f b s).
Proof. destruct s; [reflexivity|]. rewrite !p_inst_cons. apply p_inst'_esubst. Qed.
Lemma p_inst_ssubst a x b s :
  p_inst f (p_ssubst f a x b) s = p_ssubst f (p_inst f a s) x (p_inst f b s).
Proof. destruct s; [reflexivity|]. rewrite !p_inst_cons. apply p_inst'_ssubst. Qed.

(** composition, both maps non-empty *)
Lemma p_inst'_comp t s' s :
  p_inst' f (p_inst' f t s') s = p_inst' f t (amap (fun v => p_inst' f v s) s' ++ unshadowed s s').
Proof.
  induction t; simpl; try reflexivity.
  - rewrite IHt1, IHt2. reflexivity.
  - rewrite IHt1, IHt2. reflexivity.
  - rewrite IHt. reflexivity.
  - rewrite IHt. reflexivity.
  - rewrite alookup_app, alookup_amap, alookup_unshadowed, amem_alookup.
    destruct (alookup id s'); simpl; reflexivity.
  - rewrite p_inst'_esubst, IHt1, IHt2. reflexivity.
  - rewrite p_inst'_ssubst, IHt1, IHt2. reflexivity.
Qed.

(** C11 (Python side): instantiating twice equals instantiating once with the composed map *)
Theorem p_inst_comp t s' s :
  p_inst f (p_inst f t s') s = p_inst f t (amap (fun v => p_inst f v s) s' ++ unshadowed s s').
Proof.
  destruct s' as [|kv' s'].
  - simpl. rewrite unshadowed_nil_r. reflexivity.
  - destruct s as [|kv s].
    + change (unshadowed (@nil (N*pat)) (kv' :: s')) with (@nil (N*pat)). rewrite app_nil_r.
      rewrite (amap_ext _ (fun v => v)) by reflexivity. rewrite amap_id. reflexivity.
    + rewrite (amap_ext (fun v => p_inst f v (kv :: s)) (fun v => p_inst' f v (kv :: s))) by reflexivity.
      rewrite !p_inst_cons. rewrite p_inst'_comp. reflexivity.
Qed.

End WithFlags.

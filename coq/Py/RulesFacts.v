(** C07: BasicInterpreter.modus_ponens / exists_generalization / instantiate (basic_interpreter.py:97-117)
    apply exactly when the documented rule applies to the expansions of their premises. *)
From Coq Require Import NArith List Bool.
From Pi2 Require Import ML.Syntax Py.Pattern Py.PatFacts Py.ExpandFacts.
Import ListNotations.
Open Scope N_scope.

Section WithFlags.
Variable f : pyflags.
Hypothesis Hkeep : f_mv_keep_subst f = true.
Hypothesis Hext : f_inst_extend f = true.

(** Modus ponens: from [a -> c] and [a] conclude [c]; nothing else *)
Theorem mp_exact n L R res : basic_mp f n L R = Some res ->
  forall c', (exists c, res = Some c /\ expand f c = c') <-> expand f L = Imp (expand f R) c'.
Proof.
  unfold basic_mp. intro H. bind_inv H as u Hu. apply (unwrap_imp_expand f Hkeep Hext) in Hu.
  destruct u as [[l r]|].
  - bind_inv H as e He. apply (py_eq_expand f Hkeep Hext) in He. inversion H; subst; clear H.
    intro c'. rewrite Hu. destruct (pat_eqb (expand f l) (expand f R)) eqn:E.
    + apply pat_eqb_iff in E. rewrite E. split.
      * intros [c [Hc <-]]. inversion Hc; subst. reflexivity.
      * intro H. inversion H; subst. eauto.
    + split.
      * intros [c [Hc _]]. discriminate.
      * intro H. inversion H as [[H1 H2]]. rewrite H1, pat_eqb_refl' in E. discriminate.
  - inversion H; subst. intro c'. split.
    + intros [c [Hc _]]. discriminate.
    + intro H1. exfalso. eapply Hu. exact H1.
Qed.

Hypothesis Hfresh : f_fresh_simplify f = true.

(** Generalization: from [l -> r] with x fresh in r conclude [(exists x. l) -> r]; nothing else *)
Theorem gen_exact n C x res : basic_gen f n C x = Some res ->
  forall c', (exists c, res = Some c /\ expand f c = c') <->
             (exists l r, expand f C = Imp l r /\ e_fresh r x = true /\ c' = Imp (Ex x l) r).
Proof.
  unfold basic_gen. intro H. bind_inv H as u Hu. apply (unwrap_imp_expand f Hkeep Hext) in Hu.
  destruct u as [[l r]|].
  - bind_inv H as e He. apply (py_fresh_expand f Hkeep Hext Hfresh) in He. inversion H; subst; clear H.
    intro c'. destruct (e_fresh (expand f r) x) eqn:E.
    + split.
      * intros [c [Hc <-]]. inversion Hc; subst. exists (expand f l), (expand f r). simpl. auto.
      * intros [l0 [r0 [H1 [H2 H3]]]]. rewrite Hu in H1. inversion H1; subst. eexists. split; [reflexivity|]. reflexivity.
    + split.
      * intros [c [Hc _]]. discriminate.
      * intros [l0 [r0 [H1 [H2 H3]]]]. rewrite Hu in H1. inversion H1; subst. congruence.
  - inversion H; subst. intro c'. split.
    + intros [c [Hc _]]. discriminate.
    + intros [l0 [r0 [H1 _]]]. exfalso. eapply Hu. exact H1.
Qed.

(** Instantiate: the conclusion is the simultaneous instantiation of the premise's expansion *)
Theorem inst_exact n C d c : basic_inst f n C d = Some c ->
  expand f c = p_inst f (expand f C) (expand_delta f d).
Proof.
  unfold basic_inst. destruct d as [|kv d]; simpl isnil; cbv iota.
  - intro H. inversion H; subst. reflexivity.
  - apply (py_inst_expand f Hkeep Hext).
Qed.

End WithFlags.

(** Python's instantiation of a notation-free pattern agrees with the checker's [inst] (ML/Subst.v, any guard
    configuration) whenever the checker does not reject *)
From Pi2 Require Import ML.Subst.

Section Checker.
Variable f : pyflags.
Hypothesis Hkeep : f_mv_keep_subst f = true.
Variable g : guards.

Lemma apply_esubst_py p x plug q : apply_esubst g p x plug = Some q -> p_esubst f p x plug = q.
Proof.
  revert q. induction p; simpl; intros q H.
  - inversion H. rewrite N.eqb_sym. reflexivity.
  - inversion H; reflexivity.
  - inversion H; reflexivity.
  - destruct (apply_esubst g p1 x plug); [|discriminate]. destruct (apply_esubst g p2 x plug); [|discriminate].
    inversion H. rewrite (IHp1 _ eq_refl), (IHp2 _ eq_refl). reflexivity.
  - destruct (apply_esubst g p1 x plug); [|discriminate]. destruct (apply_esubst g p2 x plug); [|discriminate].
    inversion H. rewrite (IHp1 _ eq_refl), (IHp2 _ eq_refl). reflexivity.
  - rewrite (N.eqb_sym x x0). destruct (N.eqb x0 x); [inversion H; reflexivity|].
    destruct (chk (g_esubst_exists_capture g) (e_fresh plug x0)); [|discriminate].
    destruct (apply_esubst g p x plug); [|discriminate]. inversion H. rewrite (IHp _ eq_refl). reflexivity.
  - destruct (chk (g_esubst_mu_capture g) (s_fresh plug X)); [|discriminate].
    destruct (apply_esubst g p x plug); [|discriminate]. inversion H. rewrite (IHp _ eq_refl). reflexivity.
  - rewrite Hkeep. simpl. inversion H. reflexivity.
  - inversion H. reflexivity.
  - inversion H. reflexivity.
Qed.

Lemma apply_ssubst_py p x plug q : apply_ssubst g p x plug = Some q -> p_ssubst f p x plug = q.
Proof.
  revert q. induction p; simpl; intros q H.
  - inversion H; reflexivity.
  - inversion H. rewrite N.eqb_sym. reflexivity.
  - inversion H; reflexivity.
  - destruct (apply_ssubst g p1 x plug); [|discriminate]. destruct (apply_ssubst g p2 x plug); [|discriminate].
    inversion H. rewrite (IHp1 _ eq_refl), (IHp2 _ eq_refl). reflexivity.
  - destruct (apply_ssubst g p1 x plug); [|discriminate]. destruct (apply_ssubst g p2 x plug); [|discriminate].
    inversion H. rewrite (IHp1 _ eq_refl), (IHp2 _ eq_refl). reflexivity.
  - destruct (chk (g_ssubst_exists_capture g) (e_fresh plug x0)); [|discriminate].
    destruct (apply_ssubst g p x plug); [|discriminate]. inversion H. rewrite (IHp _ eq_refl). reflexivity.
  - rewrite (N.eqb_sym x X). destruct (N.eqb X x); [inversion H; reflexivity|].
    destruct (chk (g_ssubst_mu_capture g) (s_fresh plug X)); [|discriminate].
    destruct (apply_ssubst g p x plug); [|discriminate]. inversion H. rewrite (IHp _ eq_refl). reflexivity.
  - rewrite Hkeep. simpl. inversion H. reflexivity.
  - inversion H. reflexivity.
  - inversion H. reflexivity.
Qed.

(** the checker's (ids, plugs) as a Python dict: first binding of an id wins *)
Fixpoint zipd (vars:list N) (plugs:list pat) : list (N*pat) :=
  match vars, plugs with
  | v::vs, p::ps => (v, p) :: zipd vs ps
  | _, _ => []
  end.

Lemma lookup_zipd id : forall vars plugs r, length vars = length plugs ->
  lookup id vars plugs = r ->
  match r with
  | Some (Some p) => alookup id (zipd vars plugs) = Some p
  | Some None => False
  | None => alookup id (zipd vars plugs) = None
  end.
Proof.
  induction vars as [|v vars IH]; intros plugs r Hl H; simpl in H.
  - subst. reflexivity.
  - destruct plugs as [|p plugs]; [discriminate|]. simpl in Hl. simpl.
    destruct (N.eqb v id).
    + subst. reflexivity.
    + apply IH; auto.
Qed.

(** every pending substitution sits on a metavariable or another pending substitution (lib.rs well_formed) *)
Fixpoint wf_meta (p:pat) : bool :=
  match p with
  | EVar _ | SVar _ | Sym _ | MVar _ _ _ _ _ _ => true
  | Imp l r | App l r => wf_meta l && wf_meta r
  | Ex _ q | Mu _ q => wf_meta q
  | ESub q _ plug | SSub q _ plug => is_meta_head q && wf_meta q && wf_meta plug
  end.

Lemma mem_zipd id vars : forall plugs, mem id vars = false -> alookup id (zipd vars plugs) = None.
Proof.
  induction vars as [|v vars IH]; intros plugs H; simpl; [reflexivity|].
  destruct plugs as [|p plugs]; [reflexivity|]. simpl in *.
  rewrite N.eqb_sym. destruct (N.eqb id v); [discriminate|]. apply IH. exact H.
Qed.

Lemma p_esubst_meta_head q x plug : is_meta_head q = true -> p_esubst f q x plug = ESub q x plug.
Proof. destruct q; simpl; try discriminate; intros _; try reflexivity. rewrite Hkeep. reflexivity. Qed.
Lemma p_ssubst_meta_head q x plug : is_meta_head q = true -> p_ssubst f q x plug = SSub q x plug.
Proof. destruct q; simpl; try discriminate; intros _; try reflexivity. rewrite Hkeep. reflexivity. Qed.

Lemma untouched_p_inst' vars plugs p : wf_meta p = true -> touches p vars = false ->
  p_inst' f p (zipd vars plugs) = p.
Proof.
  induction p; simpl; intros Hw Ht; try reflexivity.
  - apply andb_true_iff in Hw as [? ?]. apply orb_false_iff in Ht as [? ?]. rewrite IHp1, IHp2; auto.
  - apply andb_true_iff in Hw as [? ?]. apply orb_false_iff in Ht as [? ?]. rewrite IHp1, IHp2; auto.
  - rewrite IHp; auto.
  - rewrite IHp; auto.
  - rewrite mem_zipd; auto.
  - apply andb_true_iff in Hw as [Hw ?]. apply andb_true_iff in Hw as [? ?]. apply orb_false_iff in Ht as [? ?].
    rewrite IHp1, IHp2; auto. apply p_esubst_meta_head; auto.
  - apply andb_true_iff in Hw as [Hw ?]. apply andb_true_iff in Hw as [? ?]. apply orb_false_iff in Ht as [? ?].
    rewrite IHp1, IHp2; auto. apply p_ssubst_meta_head; auto.
Qed.

(** C07/C11: whenever the checker's Instantiate accepts, Python's instantiate returns the same pattern *)
Theorem inst_checker_py vars plugs : length vars = length plugs -> forall p q,
  wf_meta p = true -> inst g p vars plugs = Some q -> p_inst' f p (zipd vars plugs) = q.
Proof.
  intros Hl. induction p; simpl; intros q Hw H.
  - inversion H; reflexivity.
  - inversion H; reflexivity.
  - inversion H; reflexivity.
  - apply andb_true_iff in Hw as [? ?].
    destruct (inst g p1 vars plugs); [|discriminate]. destruct (inst g p2 vars plugs); [|discriminate].
    inversion H. rewrite (IHp1 _ H0 eq_refl), (IHp2 _ H1 eq_refl). reflexivity.
  - apply andb_true_iff in Hw as [? ?].
    destruct (inst g p1 vars plugs); [|discriminate]. destruct (inst g p2 vars plugs); [|discriminate].
    inversion H. rewrite (IHp1 _ H0 eq_refl), (IHp2 _ H1 eq_refl). reflexivity.
  - destruct (inst g p vars plugs); [|discriminate]. inversion H. rewrite (IHp _ Hw eq_refl). reflexivity.
  - destruct (inst g p vars plugs); [|discriminate]. inversion H. rewrite (IHp _ Hw eq_refl). reflexivity.
  - pose proof (lookup_zipd id vars plugs _ Hl eq_refl) as L.
    destruct (lookup id vars plugs) as [[plug|]|].
    + rewrite L. destruct (chk (g_inst_constraints g) (check_constraints ef sf pos neg plug)); [|discriminate].
      inversion H. reflexivity.
    + contradiction.
    + rewrite L. inversion H. reflexivity.
  - apply andb_true_iff in Hw as [Hw Hw2]. apply andb_true_iff in Hw as [Hm Hw1].
    destruct (touches p1 vars || touches p2 vars) eqn:Et.
    + destruct (inst g p1 vars plugs); [|discriminate]. destruct (inst g p2 vars plugs); [|discriminate].
      rewrite (IHp1 _ Hw1 eq_refl), (IHp2 _ Hw2 eq_refl). apply apply_esubst_py. exact H.
    + apply orb_false_iff in Et as [? ?]. inversion H; subst.
      rewrite !untouched_p_inst'; auto. apply p_esubst_meta_head. exact Hm.
  - apply andb_true_iff in Hw as [Hw Hw2]. apply andb_true_iff in Hw as [Hm Hw1].
    destruct (touches p1 vars || touches p2 vars) eqn:Et.
    + destruct (inst g p1 vars plugs); [|discriminate]. destruct (inst g p2 vars plugs); [|discriminate].
      rewrite (IHp1 _ Hw1 eq_refl), (IHp2 _ Hw2 eq_refl). apply apply_ssubst_py. exact H.
    + apply orb_false_iff in Et as [? ?]. inversion H; subst.
      rewrite !untouched_p_inst'; auto. apply p_ssubst_meta_head. exact Hm.
Qed.

End Checker.

(** The property theorems stated of the functions generated from the current source (coq/Gen/PyPattern.v), obtained
    by rewriting with the agreement lemmas of Py/GenPyPatternAgree.v and the theorems for the configuration of the
    current code (Py/Current.v; corner-free inputs, Py/Bridge.v). *)
From Coq Require Import NArith List Bool Lia.
From Pi2 Require Import ML.Syntax Py.Pattern Py.PatFacts Py.MetaFacts Py.ExpandFacts Py.MatchFacts Py.RulesFacts
  Py.Termination Py.Total Py.Bridge Py.Current Py.GenSupport Gen.PyPattern Py.GenPyPatternAgree.
Import ListNotations.
Open Scope N_scope.

Notation fc := flags_current.

Section Source.
Variables se ss : list N.
Notation cf := (corner_free se ss).

Theorem source_fresh_expand n p x r : cf p = true -> src_evar_is_free n p x = Some r -> r = e_fresh (expand fc p) x.
Proof. intros Hp H. rewrite src_evar_is_free_eq in H. exact (py_fresh_expand_cur se ss fc eq_refl eq_refl n p x r Hp H). Qed.

Theorem source_fresh_total p x n : cf p = true -> (dm p one <= n)%nat ->
  src_evar_is_free n p x = Some (e_fresh (expand fc p) x).
Proof.
  intros Hp Hn. rewrite src_evar_is_free_eq.
  destruct (py_fresh_terminates fc eq_refl n p x Hn) as [r Hr]. rewrite Hr. f_equal.
  exact (py_fresh_expand_cur se ss fc eq_refl eq_refl n p x r Hp Hr).
Qed.

Theorem source_inst_expand n p d r : cf p = true -> cfd se ss d = true -> src_instantiate n p d = Some r ->
  expand fc r = p_inst fc (expand fc p) (expand_delta fc d).
Proof. intros Hp Hd H. rewrite src_instantiate_eq in H. exact (py_inst_expand_cur se ss fc eq_refl n p d r Hp Hd H). Qed.
Theorem source_esubst_expand n p x g r : cf p = true -> mem x se = true -> cf g = true ->
  src_apply_esubst n p x g = Some r -> expand fc r = p_esubst fc (expand fc p) x (expand fc g).
Proof. intros Hp Hx Hg H. rewrite src_apply_esubst_eq in H. exact (py_esubst_expand_cur se ss fc eq_refl n p x g r Hp Hx Hg H). Qed.
Theorem source_ssubst_expand n p x g r : cf p = true -> mem x ss = true -> cf g = true ->
  src_apply_ssubst n p x g = Some r -> expand fc r = p_ssubst fc (expand fc p) x (expand fc g).
Proof. intros Hp Hx Hg H. rewrite src_apply_ssubst_eq in H. exact (py_ssubst_expand_cur se ss fc eq_refl n p x g r Hp Hx Hg H). Qed.

Theorem source_metavars_incl p k : In k (p_metavars (expand fc p)) -> In k (src_metavars p).
Proof. rewrite src_metavars_eq. apply metavars_incl. Qed.
Theorem source_metavars_exact p : psubfree p = true -> forall k, In k (src_metavars p) <-> In k (p_metavars (expand fc p)).
Proof. intros Hp k. rewrite src_metavars_eq. split; [apply metavars_exact; exact Hp|apply metavars_incl]. Qed.

(** the substitution returned by matching rebuilds the instance through the SOURCE instantiate *)
Theorem source_match_rebuilds n p i seed th m r : cf p = true -> cf i = true -> cfd se ss seed = true ->
  match_single fc n p i seed = Some (Some th) -> src_instantiate m p th = Some r -> expand fc r = expand fc i.
Proof.
  intros Hp Hi Hs Hm Hr. destruct (match_sound_cur se ss fc eq_refl n p i seed th Hp Hi Hs Hm) as [_ [Cth B]].
  rewrite (source_inst_expand m p th r Hp Cth Hr). apply B; [exact Cth|apply sub_refl].
Qed.

(** matching, stated of the generated [src_match_single] / [src_match] *)
Theorem source_match_sound n p i seed th : cf p = true -> cf i = true -> cfd se ss seed = true ->
  src_match_single n p i seed = Some (Some th) ->
  sub seed th /\ cfd se ss th = true /\
  forall th', cfd se ss th' = true -> sub th th' -> p_inst fc (expand fc p) (expand_delta fc th') = expand fc i.
Proof. intros Hp Hi Hs H. rewrite src_match_single_eq in H. exact (match_sound_cur se ss fc eq_refl n p i seed th Hp Hi Hs H). Qed.

Theorem source_match_complete n p i seed s res : cf p = true -> cf i = true -> cfd se ss seed = true ->
  nosub (expand fc p) = true -> p_inst fc (expand fc p) s = expand fc i ->
  (forall k, In k (p_metavars (expand fc p)) -> alookup k s <> None) -> esub fc seed s ->
  src_match_single n p i seed = Some res -> exists th, res = Some th /\ esub fc th s.
Proof.
  intros Hp Hi Hs Hn Hinst Hcov Hseed H. rewrite src_match_single_eq in H.
  exact (match_complete_cur se ss fc eq_refl eq_refl n p i seed s res Hp Hi Hs Hn Hinst Hcov Hseed H).
Qed.

Theorem source_match_list_sound n eqs th : forallb (fun e => cf (fst e) && cf (snd e)) eqs = true ->
  src_match n eqs = Some (Some th) ->
  forall p i, In (p, i) eqs -> forall th', cfd se ss th' = true -> sub th th' ->
    p_inst fc (expand fc p) (expand_delta fc th') = expand fc i.
Proof. intros Hall H. rewrite src_match_eq in H. exact (match_list_sound_cur se ss fc eq_refl eq_refl n eqs th Hall H). Qed.

Theorem source_match_list_complete n eqs s res : forallb (fun e => cf (fst e) && cf (snd e)) eqs = true ->
  (forall p i, In (p, i) eqs ->
     nosub (expand fc p) = true /\ p_inst fc (expand fc p) s = expand fc i /\
     (forall k, In k (p_metavars (expand fc p)) -> alookup k s <> None)) ->
  src_match n eqs = Some res -> exists th, res = Some th.
Proof.
  intros Hall Hs H. rewrite src_match_eq in H.
  exact (match_list_complete_cur se ss fc eq_refl eq_refl eq_refl n eqs s res Hall Hs H).
Qed.

(** the rules: with fuel beyond the structural measure, the source function returns a conclusion exactly when the
    documented rule applies (None = AssertionError); the conclusion is corner-free again *)
Theorem source_mp_exact n L R : cf L = true -> cf R = true -> (dm L one + dm R one <= n)%nat ->
  forall c', (exists c, src_modus_ponens n L R = Some c /\ cf c = true /\ expand fc c = c') <->
             expand fc L = Imp (expand fc R) c'.
Proof.
  intros HL HR Hn c'. rewrite src_modus_ponens_eq.
  destruct (basic_mp_terminates fc eq_refl n L R Hn) as [res Hres]. rewrite Hres. unfold flat. simpl.
  exact (mp_exact_cur se ss fc eq_refl n L R res HL HR Hres c').
Qed.
Theorem source_gen_exact n C x : cf C = true -> (dm C one <= n)%nat ->
  forall c', (exists c, src_exists_generalization n C x = Some c /\ cf c = true /\ expand fc c = c') <->
             (exists l r, expand fc C = Imp l r /\ e_fresh r x = true /\ c' = Imp (Ex x l) r).
Proof.
  intros HC Hn c'. rewrite src_exists_generalization_eq.
  destruct (basic_gen_terminates fc eq_refl n C x Hn) as [res Hres]. rewrite Hres. unfold flat. simpl.
  exact (gen_exact_cur se ss fc eq_refl eq_refl n C x res HC Hres c').
Qed.
Theorem source_inst_exact n C d c : cf C = true -> cfd se ss d = true -> src_instantiate_rule n C d = Some c ->
  expand fc c = p_inst fc (expand fc C) (expand_delta fc d).
Proof. intros HC Hd H. rewrite src_instantiate_rule_eq in H. exact (inst_exact_cur se ss fc eq_refl n C d c HC Hd H). Qed.
End Source.

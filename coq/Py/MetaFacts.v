(** Structural induction on [ppat] (nested through the instantiation dict) and facts about [metavars]:
    [Instantiate.metavars()] over-approximates the metavariables of the expansion, and is exact for
    patterns without pending substitutions. *)
From Coq Require Import NArith List Bool Lia.
From Pi2 Require Import ML.Syntax Py.Pattern Py.PatFacts.
Import ListNotations.
Open Scope N_scope.

Section Ind.
Variable P : ppat -> Prop.
Hypothesis HEVar : forall n, P (PEVar n).
Hypothesis HSVar : forall n, P (PSVar n).
Hypothesis HSym : forall n, P (PSym n).
Hypothesis HImp : forall l r, P l -> P r -> P (PImp l r).
Hypothesis HApp : forall l r, P l -> P r -> P (PApp l r).
Hypothesis HEx : forall x q, P q -> P (PEx x q).
Hypothesis HMu : forall x q, P q -> P (PMu x q).
Hypothesis HMVar : forall i a b c d e, P (PMVar i a b c d e).
Hypothesis HESub : forall q x g, P q -> P g -> P (PESub q x g).
Hypothesis HSSub : forall q x g, P q -> P g -> P (PSSub q x g).
Hypothesis HInst : forall q d, P q -> Forall (fun kv => P (snd kv)) d -> P (PInst q d).

Fixpoint ppat_ind' (p:ppat) : P p :=
  match p with
  | PEVar n => HEVar n | PSVar n => HSVar n | PSym n => HSym n
  | PImp l r => HImp l r (ppat_ind' l) (ppat_ind' r)
  | PApp l r => HApp l r (ppat_ind' l) (ppat_ind' r)
  | PEx x q => HEx x q (ppat_ind' q)
  | PMu x q => HMu x q (ppat_ind' q)
  | PMVar i a b c d e => HMVar i a b c d e
  | PESub q x g => HESub q x g (ppat_ind' q) (ppat_ind' g)
  | PSSub q x g => HSSub q x g (ppat_ind' q) (ppat_ind' g)
  | PInst q d =>
      HInst q d (ppat_ind' q)
        ((fix go (l:delta) : Forall (fun kv => P (snd kv)) l :=
            match l with
            | [] => Forall_nil _
            | kv::t => Forall_cons kv (ppat_ind' (snd kv)) (go t)
            end) d)
  end.
End Ind.

Lemma alookup_in {A} k (d:list (N*A)) v : alookup k d = Some v -> In (k, v) d.
Proof.
  induction d as [|[k' v'] d IH]; simpl; [discriminate|].
  destruct (N.eqb k' k) eqn:E.
  - intro H. inversion H; subst. apply N.eqb_eq in E. subst. left. reflexivity.
  - intro H. right. apply IH. exact H.
Qed.

Lemma alookup_filter_key {A} (pr:N -> bool) k (d:list (N*A)) :
  pr k = true -> alookup k (filter (fun kv => pr (fst kv)) d) = alookup k d.
Proof.
  intro Hp. induction d as [|kv d IH]; simpl; [reflexivity|].
  destruct (pr (fst kv)) eqn:E; simpl.
  - rewrite IH. reflexivity.
  - destruct (N.eqb (fst kv) k) eqn:E2; [|exact IH].
    apply N.eqb_eq in E2. congruence.
Qed.

Lemma mem_In x l : mem x l = true <-> In x l.
Proof.
  unfold mem. rewrite existsb_exists. split.
  - intros [y [Hy E]]. apply N.eqb_eq in E. subst. exact Hy.
  - intro H. exists x. split; [exact H|apply N.eqb_refl].
Qed.

Section WithFlags.
Variable f : pyflags.

(** instantiation only looks at the bindings of the metavariables that occur *)
Lemma p_inst'_agree t : forall s1 s2,
  (forall k, In k (p_metavars t) -> alookup k s1 = alookup k s2) -> p_inst' f t s1 = p_inst' f t s2.
Proof.
  induction t; simpl; intros s1 s2 H; try reflexivity.
  - rewrite (IHt1 s1 s2), (IHt2 s1 s2); auto; intros; apply H, in_or_app; auto.
  - rewrite (IHt1 s1 s2), (IHt2 s1 s2); auto; intros; apply H, in_or_app; auto.
  - rewrite (IHt s1 s2); auto.
  - rewrite (IHt s1 s2); auto.
  - rewrite (H id) by (left; reflexivity). reflexivity.
  - rewrite (IHt1 s1 s2), (IHt2 s1 s2); auto; intros; apply H, in_or_app; auto.
  - rewrite (IHt1 s1 s2), (IHt2 s1 s2); auto; intros; apply H, in_or_app; auto.
Qed.

Lemma p_metavars_esubst a x b k :
  In k (p_metavars (p_esubst f a x b)) -> In k (p_metavars a) \/ In k (p_metavars b).
Proof.
  induction a; simpl; intro H; auto.
  - destruct (N.eqb x n); simpl in H; auto.
  - apply in_app_or in H as [H|H]; [apply IHa1 in H|apply IHa2 in H]; destruct H; auto using in_or_app.
  - apply in_app_or in H as [H|H]; [apply IHa1 in H|apply IHa2 in H]; destruct H; auto using in_or_app.
  - destruct (N.eqb x x0); simpl in H; auto.
  - destruct (negb (f_mv_keep_subst f) && mem x ef); simpl in H; auto.
    destruct H as [H|H]; auto.
  - apply in_app_or in H as [H|H]; auto.
  - apply in_app_or in H as [H|H]; auto.
Qed.
Lemma p_metavars_ssubst a x b k :
  In k (p_metavars (p_ssubst f a x b)) -> In k (p_metavars a) \/ In k (p_metavars b).
Proof.
  induction a; simpl; intro H; auto.
  - destruct (N.eqb x n); simpl in H; auto.
  - apply in_app_or in H as [H|H]; [apply IHa1 in H|apply IHa2 in H]; destruct H; auto using in_or_app.
  - apply in_app_or in H as [H|H]; [apply IHa1 in H|apply IHa2 in H]; destruct H; auto using in_or_app.
  - destruct (N.eqb x X); simpl in H; auto.
  - destruct (negb (f_mv_keep_subst f) && mem x sf); simpl in H; auto.
    destruct H as [H|H]; auto.
  - apply in_app_or in H as [H|H]; auto.
  - apply in_app_or in H as [H|H]; auto.
Qed.

(** where a metavariable of an instantiated pattern comes from *)
Definition from_inst (t:pat) (s:list (N*pat)) (k:N) : Prop :=
  (In k (p_metavars t) /\ alookup k s = None) \/
  (exists j v, In j (p_metavars t) /\ alookup j s = Some v /\ In k (p_metavars v)).

Lemma from_inst_mono t t' s k : (forall j, In j (p_metavars t) -> In j (p_metavars t')) ->
  from_inst t s k -> from_inst t' s k.
Proof.
  intros H [[A B]|[j [v [A [B C]]]]]; [left|right]; eauto 6.
Qed.

Lemma p_metavars_inst' t s k : In k (p_metavars (p_inst' f t s)) -> from_inst t s k.
Proof.
  induction t; simpl; intro H; try contradiction.
  - apply in_app_or in H as [H|H]; [apply IHt1 in H|apply IHt2 in H];
      (eapply from_inst_mono; [|exact H]); simpl; intros; apply in_or_app; auto.
  - apply in_app_or in H as [H|H]; [apply IHt1 in H|apply IHt2 in H];
      (eapply from_inst_mono; [|exact H]); simpl; intros; apply in_or_app; auto.
  - apply IHt in H. exact H.
  - apply IHt in H. exact H.
  - destruct (alookup id s) eqn:E.
    + right. exists id, p. simpl. auto.
    + simpl in H. destruct H as [H|[]]. subst. left. simpl. auto.
  - apply p_metavars_esubst in H as [H|H]; [apply IHt1 in H|apply IHt2 in H];
      (eapply from_inst_mono; [|exact H]); simpl; intros; apply in_or_app; auto.
  - apply p_metavars_ssubst in H as [H|H]; [apply IHt1 in H|apply IHt2 in H];
      (eapply from_inst_mono; [|exact H]); simpl; intros; apply in_or_app; auto.
Qed.

Lemma in_metavars_inst q d k :
  (In k (metavars q) /\ alookup k d = None) \/
  (exists j v, In j (metavars q) /\ alookup j d = Some v /\ In k (metavars v)) ->
  In k (metavars (PInst q d)).
Proof.
  simpl. intro H. apply in_flat_map.
  destruct H as [[A B]|[j [v [A [B C]]]]].
  - exists k. split; [exact A|].
    change (map (fun kv : N * ppat => (fst kv, metavars (snd kv))) d) with (amap metavars d).
    rewrite alookup_amap, B. simpl. auto.
  - exists j. split; [exact A|].
    change (map (fun kv : N * ppat => (fst kv, metavars (snd kv))) d) with (amap metavars d).
    rewrite alookup_amap, B. simpl. exact C.
Qed.

(** C12 (metavariable set, first half): what [metavars()] returns contains every metavariable of the expansion *)
Theorem metavars_incl : forall p k, In k (p_metavars (expand f p)) -> In k (metavars p).
Proof.
  induction p using ppat_ind'; simpl; intros k Hk; auto.
  - apply in_app_or in Hk as [Hk|Hk]; apply in_or_app; auto.
  - apply in_app_or in Hk as [Hk|Hk]; apply in_or_app; auto.
  - apply in_app_or in Hk as [Hk|Hk]; apply in_or_app; auto.
  - apply in_app_or in Hk as [Hk|Hk]; apply in_or_app; auto.
  - change (In k (metavars (PInst p d))). apply in_metavars_inst.
    unfold p_inst in Hk. destruct d as [|kv0 d0] eqn:Ed.
    + simpl in Hk. left. split; [apply IHp; exact Hk|reflexivity].
    + rewrite <- Ed in *. assert (Hk' : In k (p_metavars (p_inst' f (expand f p) (expand_delta f d)))).
      { subst d. exact Hk. }
      clear Hk. apply p_metavars_inst' in Hk' as [[A B]|[j [v [A [B C]]]]].
      * left. split; [apply IHp; exact A|].
        unfold expand_delta in B. change (alookup k (amap (expand f) d) = None) in B.
        rewrite alookup_amap in B. destruct (alookup k d); [discriminate|reflexivity].
      * right. unfold expand_delta in B. change (alookup j (amap (expand f) d) = Some v) in B.
        rewrite alookup_amap in B. destruct (alookup j d) as [pv|] eqn:E; [|discriminate].
        inversion B; subst. exists j, pv. split; [apply IHp; exact A|]. split; [exact E|].
        apply alookup_in in E. rewrite Forall_forall in H. apply (H (j, pv) E). exact C.
Qed.


(** no ESubst/SSubst node anywhere (pattern, notation bodies, arguments) *)
Fixpoint psubfree (p:ppat) : bool :=
  match p with
  | PEVar _ | PSVar _ | PSym _ | PMVar _ _ _ _ _ _ => true
  | PImp l r | PApp l r => psubfree l && psubfree r
  | PEx _ q | PMu _ q => psubfree q
  | PESub _ _ _ | PSSub _ _ _ => false
  | PInst q d => psubfree q && forallb (fun kv => psubfree (snd kv)) d
  end.
Fixpoint nosubst (p:pat) : bool :=
  match p with
  | EVar _ | SVar _ | Sym _ | MVar _ _ _ _ _ _ => true
  | Imp l r | App l r => nosubst l && nosubst r
  | Ex _ q | Mu _ q => nosubst q
  | ESub _ _ _ | SSub _ _ _ => false
  end.

Lemma nosubst_inst' t s : nosubst t = true -> (forall k v, alookup k s = Some v -> nosubst v = true) ->
  nosubst (p_inst' f t s) = true.
Proof.
  induction t; simpl; intros Hn Hs; auto; try discriminate.
  - apply andb_true_iff in Hn as [? ?]. rewrite IHt1, IHt2; auto.
  - apply andb_true_iff in Hn as [? ?]. rewrite IHt1, IHt2; auto.
  - destruct (alookup id s) eqn:E; [eapply Hs; eauto|reflexivity].
Qed.

Lemma psubfree_expand : forall p, psubfree p = true -> nosubst (expand f p) = true.
Proof.
  induction p using ppat_ind'; simpl; intro Hp; auto; try discriminate.
  - apply andb_true_iff in Hp as [? ?]. rewrite IHp1, IHp2; auto.
  - apply andb_true_iff in Hp as [? ?]. rewrite IHp1, IHp2; auto.
  - apply andb_true_iff in Hp as [Hq Hd]. unfold p_inst.
    destruct (isnil (map (fun kv => (fst kv, expand f (snd kv))) d)); [auto|].
    apply nosubst_inst'; auto. intros k v Hk.
    change (alookup k (amap (expand f) d) = Some v) in Hk. rewrite alookup_amap in Hk.
    destruct (alookup k d) as [pv|] eqn:E; [|discriminate]. inversion Hk; subst.
    apply alookup_in in E. rewrite Forall_forall in H. apply (H (k, pv) E).
    rewrite forallb_forall in Hd. apply (Hd (k, pv) E).
Qed.

Lemma from_inst_in t s k : nosubst t = true -> from_inst t s k -> In k (p_metavars (p_inst' f t s)).
Proof.
  induction t; simpl; intros Hn H; try discriminate.
  - destruct H as [[[] _]|[j [v [[] _]]]].
  - destruct H as [[[] _]|[j [v [[] _]]]].
  - destruct H as [[[] _]|[j [v [[] _]]]].
  - apply andb_true_iff in Hn as [Hn1 Hn2]. apply in_or_app.
    destruct H as [[A B]|[j [v [A [B C]]]]]; simpl in A; apply in_app_or in A as [A|A];
      [left; apply IHt1; auto; left; auto | right; apply IHt2; auto; left; auto
      |left; apply IHt1; auto; right; eauto | right; apply IHt2; auto; right; eauto].
  - apply andb_true_iff in Hn as [Hn1 Hn2]. apply in_or_app.
    destruct H as [[A B]|[j [v [A [B C]]]]]; simpl in A; apply in_app_or in A as [A|A];
      [left; apply IHt1; auto; left; auto | right; apply IHt2; auto; left; auto
      |left; apply IHt1; auto; right; eauto | right; apply IHt2; auto; right; eauto].
  - apply IHt; auto.
  - apply IHt; auto.
  - destruct H as [[[A|[]] B]|[j [v [[A|[]] [B C]]]]]; subst.
    + rewrite B. simpl. auto.
    + rewrite B. exact C.
Qed.

(** C12 (metavariable set, second half): for patterns without pending substitutions [metavars()] is exactly
    the metavariable set of the expansion *)
Theorem metavars_exact : forall p, psubfree p = true ->
  forall k, In k (metavars p) -> In k (p_metavars (expand f p)).
Proof.
  induction p using ppat_ind'; simpl; intros Hp k Hk; auto; try discriminate.
  - apply andb_true_iff in Hp as [? ?]. apply in_app_or in Hk as [Hk|Hk]; apply in_or_app; auto.
  - apply andb_true_iff in Hp as [? ?]. apply in_app_or in Hk as [Hk|Hk]; apply in_or_app; auto.
  - apply andb_true_iff in Hp as [Hq Hd].
    apply in_flat_map in Hk as [j [Hj Hk]].
    change (map (fun kv : N * ppat => (fst kv, metavars (snd kv))) d) with (amap metavars d) in Hk.
    rewrite alookup_amap in Hk.
    assert (HF : from_inst (expand f p) (expand_delta f d) k).
    { destruct (alookup j d) as [pv|] eqn:E; simpl in Hk.
      - right. exists j, (expand f pv). split; [apply IHp; auto|]. split.
        + change (alookup j (amap (expand f) d) = Some (expand f pv)). rewrite alookup_amap, E. reflexivity.
        + pose proof (alookup_in _ _ _ E) as Hin. rewrite Forall_forall in H. apply (H (j, pv) Hin); auto.
          rewrite forallb_forall in Hd. apply (Hd (j, pv) Hin).
      - destruct Hk as [Hk|[]]. subst. left. split; [apply IHp; auto|].
        change (alookup k (amap (expand f) d) = None). rewrite alookup_amap, E. reflexivity. }
    unfold p_inst. destruct d as [|kv0 d0].
    + simpl. destruct HF as [[A _]|[j' [v [_ [B _]]]]]; [exact A|discriminate].
    + apply from_inst_in; [apply psubfree_expand; exact Hq|exact HF].
Qed.

End WithFlags.

(** Bridge between the configuration the CURRENT code is in ([f_mv_keep_subst = false]: a metavariable drops a
    substitution on a variable it declares fresh, D9d, pinned by test_pattern.py) and the configuration the
    property theorems are proved for ([f_mv_keep_subst = true]).

    [corner_free se ss p]: [se]/[ss] are (supersets of) the element/set variables that are the target of any
    pending ESubst/SSubst in the inputs or of the operation itself; no metavariable anywhere in [p] (pattern,
    notation bodies, instantiation values, plugs) declares one of them e_fresh / s_fresh, and every pending
    substitution in [p] has its variable in [se]/[ss].  In particular every pattern whose metavariables carry no
    e_fresh/s_fresh constraint (all shipped libraries except [functional]'s x0) is corner-free for every choice
    of [se]/[ss] containing its substitution variables.

    On corner-free inputs every modelled operation returns the same result under [f] and under [with_keep f],
    and the results are corner-free again. *)
From Coq Require Import NArith List Bool Lia.
From Pi2 Require Import ML.Syntax Py.Pattern Py.PatFacts Py.MetaFacts Py.ExpandFacts Py.MatchFacts.
Import ListNotations.
Open Scope N_scope.

Definition with_keep (f:pyflags) : pyflags :=
  {| f_fresh_simplify := f_fresh_simplify f; f_inst_extend := f_inst_extend f; f_mv_keep_subst := true;
     f_match_list_none := f_match_list_none f; f_assert_none := f_assert_none f;
     f_match_simplify := f_match_simplify f |}.

(** the configuration of the current /repo: every repair applied, the pinned drop still there *)
Definition flags_current : pyflags :=
  {| f_fresh_simplify := true; f_inst_extend := true; f_mv_keep_subst := false;
     f_match_list_none := true; f_assert_none := true; f_match_simplify := true |}.
Lemma with_keep_current : with_keep flags_current = flags_sound.
Proof. reflexivity. Qed.

Definition disj (l s:list N) : bool := forallb (fun x => negb (mem x s)) l.

Lemma disj_mem l s x : disj l s = true -> mem x s = true -> mem x l = false.
Proof.
  unfold disj. intros H Hx. destruct (mem x l) eqn:E; [|reflexivity].
  apply mem_In in E. rewrite forallb_forall in H. specialize (H x E). rewrite Hx in H. discriminate.
Qed.

Section Bridge.
Variables se ss : list N.

Fixpoint cfp (p:pat) : bool :=
  match p with
  | EVar _ | SVar _ | Sym _ => true
  | Imp l r | App l r => cfp l && cfp r
  | Ex _ q | Mu _ q => cfp q
  | MVar _ ef sf _ _ _ => disj ef se && disj sf ss
  | ESub q x g => mem x se && cfp q && cfp g
  | SSub q X g => mem X ss && cfp q && cfp g
  end.

Fixpoint corner_free (p:ppat) : bool :=
  match p with
  | PEVar _ | PSVar _ | PSym _ => true
  | PImp l r | PApp l r => corner_free l && corner_free r
  | PEx _ q | PMu _ q => corner_free q
  | PMVar _ ef sf _ _ _ => disj ef se && disj sf ss
  | PESub q x g => mem x se && corner_free q && corner_free g
  | PSSub q X g => mem X ss && corner_free q && corner_free g
  | PInst q d => corner_free q && forallb (fun kv => corner_free (snd kv)) d
  end.
Definition cfd (d:delta) : bool := forallb (fun kv => corner_free (snd kv)) d.
Definition cfs (s:list (N*pat)) : bool := forallb (fun kv => cfp (snd kv)) s.

Ltac andb_split :=
  repeat match goal with
         | H : _ && _ = true |- _ => apply andb_true_iff in H; destruct H
         end.

Lemma cfd_alookup d k v : cfd d = true -> alookup k d = Some v -> corner_free v = true.
Proof. intros H E. apply alookup_in in E. unfold cfd in H. rewrite forallb_forall in H. apply (H (k, v) E). Qed.
Lemma cfs_alookup s k v : cfs s = true -> alookup k s = Some v -> cfp v = true.
Proof. intros H E. apply alookup_in in E. unfold cfs in H. rewrite forallb_forall in H. apply (H (k, v) E). Qed.
Lemma cfd_app a b : cfd (a ++ b) = cfd a && cfd b.
Proof. apply forallb_app. Qed.
Lemma forallb_filter {A} (p q:A -> bool) l : forallb p l = true -> forallb p (filter q l) = true.
Proof.
  rewrite !forallb_forall. intros H x Hx. apply filter_In in Hx as [Hx _]. auto.
Qed.
Lemma cfd_unshadowed {B} d (d':list (N*B)) : cfd d = true -> cfd (unshadowed d d') = true.
Proof. apply forallb_filter. Qed.

Variable f : pyflags.
Let g := with_keep f.

(** ================= notation-free level ================= *)
Lemma p_esubst_bridge t x b : cfp t = true -> mem x se = true ->
  p_esubst f t x b = p_esubst g t x b.
Proof.
  intros Ht Hx. induction t; simpl in *; andb_split; try reflexivity.
  - rewrite IHt1, IHt2; auto.
  - rewrite IHt1, IHt2; auto.
  - rewrite IHt; auto.
  - rewrite IHt; auto.
  - rewrite (disj_mem _ _ _ H Hx). rewrite !andb_false_r. reflexivity.
Qed.
Lemma p_ssubst_bridge t x b : cfp t = true -> mem x ss = true ->
  p_ssubst f t x b = p_ssubst g t x b.
Proof.
  intros Ht Hx. induction t; simpl in *; andb_split; try reflexivity.
  - rewrite IHt1, IHt2; auto.
  - rewrite IHt1, IHt2; auto.
  - rewrite IHt; auto.
  - rewrite IHt; auto.
  - rewrite (disj_mem _ _ _ H0 Hx). rewrite !andb_false_r. reflexivity.
Qed.
Lemma p_esubst_cfp h t x b : cfp t = true -> mem x se = true -> cfp b = true -> cfp (p_esubst h t x b) = true.
Proof.
  intros Ht Hx Hb. induction t; simpl in *; andb_split; auto.
  - destruct (N.eqb x n); auto.
  - rewrite IHt1, IHt2; auto.
  - rewrite IHt1, IHt2; auto.
  - destruct (N.eqb x x0); simpl; auto.
  - destruct (negb (f_mv_keep_subst h) && mem x ef); simpl; rewrite ?H, ?H0, ?Hx, ?Hb; reflexivity.
  - rewrite Hx, H, H1, H0, Hb. reflexivity.
  - rewrite Hx, H, H1, H0, Hb. reflexivity.
Qed.
Lemma p_ssubst_cfp h t x b : cfp t = true -> mem x ss = true -> cfp b = true -> cfp (p_ssubst h t x b) = true.
Proof.
  intros Ht Hx Hb. induction t; simpl in *; andb_split; auto.
  - destruct (N.eqb x n); auto.
  - rewrite IHt1, IHt2; auto.
  - rewrite IHt1, IHt2; auto.
  - destruct (N.eqb x X); simpl; auto.
  - destruct (negb (f_mv_keep_subst h) && mem x sf); simpl; rewrite ?H, ?H0, ?Hx, ?Hb; reflexivity.
  - rewrite Hx, H, H1, H0, Hb. reflexivity.
  - rewrite Hx, H, H1, H0, Hb. reflexivity.
Qed.

Lemma p_inst'_cfp h t s : cfp t = true -> cfs s = true -> cfp (p_inst' h t s) = true.
Proof.
  intros Ht Hs. induction t; simpl in *; andb_split; auto.
  - rewrite IHt1, IHt2; auto.
  - rewrite IHt1, IHt2; auto.
  - destruct (alookup id s) eqn:E; [eapply cfs_alookup; eauto|]. simpl. rewrite H, H0. reflexivity.
  - apply p_esubst_cfp; auto.
  - apply p_ssubst_cfp; auto.
Qed.
Lemma p_inst'_bridge t s : cfp t = true -> cfs s = true -> p_inst' f t s = p_inst' g t s.
Proof.
  intros Ht Hs. induction t; simpl in *; andb_split; try reflexivity.
  - rewrite IHt1, IHt2; auto.
  - rewrite IHt1, IHt2; auto.
  - rewrite IHt; auto.
  - rewrite IHt; auto.
  - rewrite IHt1, IHt2; auto. apply p_esubst_bridge; auto. apply p_inst'_cfp; auto.
  - rewrite IHt1, IHt2; auto. apply p_ssubst_bridge; auto. apply p_inst'_cfp; auto.
Qed.
Lemma p_inst_cfp h t s : cfp t = true -> cfs s = true -> cfp (p_inst h t s) = true.
Proof. intros. unfold p_inst. destruct (isnil s); auto. apply p_inst'_cfp; auto. Qed.
Lemma p_inst_bridge t s : cfp t = true -> cfs s = true -> p_inst f t s = p_inst g t s.
Proof. intros. unfold p_inst. destruct (isnil s); auto. apply p_inst'_bridge; auto. Qed.

(** ================= expansion ================= *)
Lemma expand_bridge : forall p, corner_free p = true ->
  expand f p = expand g p /\ cfp (expand g p) = true.
Proof.
  induction p using ppat_ind'; simpl; intro Hp; auto.
  - andb_split. destruct (IHp1 H) as [-> ->]. destruct (IHp2 H0) as [-> ->]. auto.
  - andb_split. destruct (IHp1 H) as [-> ->]. destruct (IHp2 H0) as [-> ->]. auto.
  - destruct (IHp Hp) as [-> ->]. auto.
  - destruct (IHp Hp) as [-> ->]. auto.
  - andb_split. destruct (IHp1 H1) as [-> ->]. destruct (IHp2 H0) as [-> ->]. rewrite H. auto.
  - andb_split. destruct (IHp1 H1) as [-> ->]. destruct (IHp2 H0) as [-> ->]. rewrite H. auto.
  - andb_split. rename H0 into Hq, H1 into H1. destruct (IHp Hq) as [Eq Cq]. rewrite Eq.
    assert (Ed : map (fun kv : N * ppat => (fst kv, expand f (snd kv))) d
                 = map (fun kv : N * ppat => (fst kv, expand g (snd kv))) d).
    { apply map_ext_in. intros kv Hin. rewrite Forall_forall in H. rewrite forallb_forall in H1.
      destruct (H kv Hin (H1 kv Hin)) as [-> _]. reflexivity. }
    rewrite Ed.
    assert (Cs : cfs (map (fun kv : N * ppat => (fst kv, expand g (snd kv))) d) = true).
    { unfold cfs. apply forallb_forall. intros kv Hin. apply in_map_iff in Hin as [kv0 [<- Hin]]. simpl.
      rewrite Forall_forall in H. rewrite forallb_forall in H1. apply (H kv0 Hin (H1 kv0 Hin)). }
    split; [apply p_inst_bridge; auto|apply p_inst_cfp; auto].
Qed.
Lemma expand_eq p : corner_free p = true -> expand f p = expand g p.
Proof. intro H. apply expand_bridge. exact H. Qed.
Lemma expand_cfp p : corner_free p = true -> cfp (expand g p) = true.
Proof. intro H. apply expand_bridge. exact H. Qed.
Lemma expand_delta_eq d : cfd d = true -> expand_delta f d = expand_delta g d.
Proof.
  intro H. unfold expand_delta. apply map_ext_in. intros kv Hin. unfold cfd in H. rewrite forallb_forall in H.
  rewrite (expand_eq _ (H kv Hin)). reflexivity.
Qed.
Lemma expand_delta_cfs d : cfd d = true -> cfs (expand_delta g d) = true.
Proof.
  intro H. unfold cfs, expand_delta. apply forallb_forall. intros kv Hin. apply in_map_iff in Hin as [kv0 [<- Hin]].
  simpl. unfold cfd in H. rewrite forallb_forall in H. apply expand_cfp. apply (H kv0 Hin).
Qed.

(** ================= instantiate / apply_esubst / apply_ssubst: corner-freeness is preserved ================= *)
Lemma map_opt_ext_in {A B} (F G:A -> option B) l : (forall a, In a l -> F a = G a) -> map_opt F l = map_opt G l.
Proof.
  induction l as [|a l IH]; intro H; simpl; [reflexivity|].
  rewrite (H a (or_introl eq_refl)), IH; auto. intros a0 Hin. apply H. right. exact Hin.
Qed.

Section AnyFlags.
Variable h : pyflags.
Definition Ci n := forall p d r, corner_free p = true -> cfd d = true -> py_inst h n p d = Some r -> corner_free r = true.
Definition Ce n := forall p x pl r, corner_free p = true -> mem x se = true -> corner_free pl = true ->
  py_esubst h n p x pl = Some r -> corner_free r = true.
Definition Cs n := forall p x pl r, corner_free p = true -> mem x ss = true -> corner_free pl = true ->
  py_ssubst h n p x pl = Some r -> corner_free r = true.

Lemma map_opt_cf n d : Ci n -> cfd d = true -> forall d' d'', cfd d' = true ->
  map_opt (fun kv => bind (py_inst h n (snd kv) d) (fun v => Some (fst kv, v))) d' = Some d'' -> cfd d'' = true.
Proof.
  intros IH Hd. induction d' as [|kv d' IHd]; intros d'' Hd' H; simpl in H.
  - inversion H. reflexivity.
  - simpl in Hd'. andb_split. bind_inv H as b Hb. bind_inv Hb as v Hv. inversion Hb; subst; clear Hb.
    bind_inv H as t Ht. inversion H; subst; clear H. simpl. rewrite (IH _ _ _ H0 Hd Hv). simpl.
    apply IHd; auto.
Qed.

Lemma ops_cf n : Ci n /\ Ce n /\ Cs n.
Proof.
  induction n as [|n [IHi [IHe IHs]]].
  - repeat split; intros ? ? ? ; try intros ?; try intros ?; intros; discriminate.
  - repeat split.
    + intros p d r Hp Hd H. destruct p; simpl in H, Hp; andb_split.
      * inversion H; subst; reflexivity.
      * inversion H; subst; reflexivity.
      * inversion H; subst; reflexivity.
      * destruct (isnil d); [inversion H; subst; simpl; rewrite H0, H1; reflexivity|].
        bind_inv H as a Ha. bind_inv H as b Hb. inversion H; subst. simpl.
        rewrite (IHi _ _ _ H0 Hd Ha), (IHi _ _ _ H1 Hd Hb). reflexivity.
      * destruct (isnil d); [inversion H; subst; simpl; rewrite H0, H1; reflexivity|].
        bind_inv H as a Ha. bind_inv H as b Hb. inversion H; subst. simpl.
        rewrite (IHi _ _ _ H0 Hd Ha), (IHi _ _ _ H1 Hd Hb). reflexivity.
      * destruct (isnil d); [inversion H; subst; simpl; exact Hp|].
        bind_inv H as a Ha. inversion H; subst. simpl. apply (IHi _ _ _ Hp Hd Ha).
      * destruct (isnil d); [inversion H; subst; simpl; exact Hp|].
        bind_inv H as a Ha. inversion H; subst. simpl. apply (IHi _ _ _ Hp Hd Ha).
      * inversion H; subst. destruct (alookup id d) eqn:E; [eapply cfd_alookup; eauto|].
        simpl. rewrite H0, H1. reflexivity.
      * destruct (isnil d); [inversion H; subst; simpl; rewrite H0, H1, H2; reflexivity|].
        bind_inv H as a Ha. bind_inv H as b Hb.
        apply (IHe _ _ _ _ (IHi _ _ _ H2 Hd Ha) H0 (IHi _ _ _ H1 Hd Hb) H).
      * destruct (isnil d); [inversion H; subst; simpl; rewrite H0, H1, H2; reflexivity|].
        bind_inv H as a Ha. bind_inv H as b Hb.
        apply (IHs _ _ _ _ (IHi _ _ _ H2 Hd Ha) H0 (IHi _ _ _ H1 Hd Hb) H).
      * fold (cfd d0) in H1. destruct (f_inst_extend h).
        { destruct (isnil d0).
          - bind_inv H as a Ha. inversion H; subst. simpl. rewrite (IHi _ _ _ H0 Hd Ha). reflexivity.
          - bind_inv H as d'' Hd''. inversion H; subst. simpl. rewrite H0. simpl.
            fold (cfd (d'' ++ filter (fun kv : N * ppat => mem (fst kv) (metavars p)) (unshadowed d d0))).
            rewrite cfd_app, (map_opt_cf n d IHi Hd d0 d'' H1 Hd''). simpl.
            apply forallb_filter. apply cfd_unshadowed. exact Hd. }
        { bind_inv H as d'' Hd''. bind_inv H as a Ha. inversion H; subst. simpl.
          rewrite (IHi _ _ _ H0 (cfd_unshadowed d d0 Hd) Ha). simpl.
          apply (map_opt_cf n d IHi Hd d0 d'' H1 Hd''). }
    + intros p x pl r Hp Hx Hpl H. destruct p; simpl in H, Hp; andb_split.
      * inversion H; subst. destruct (N.eqb x n0); auto.
      * inversion H; subst; reflexivity.
      * inversion H; subst; reflexivity.
      * bind_inv H as a Ha. bind_inv H as b Hb. inversion H; subst. simpl.
        rewrite (IHe _ _ _ _ H0 Hx Hpl Ha), (IHe _ _ _ _ H1 Hx Hpl Hb). reflexivity.
      * bind_inv H as a Ha. bind_inv H as b Hb. inversion H; subst. simpl.
        rewrite (IHe _ _ _ _ H0 Hx Hpl Ha), (IHe _ _ _ _ H1 Hx Hpl Hb). reflexivity.
      * destruct (N.eqb x x0); [inversion H; subst; exact Hp|].
        bind_inv H as a Ha. inversion H; subst. simpl. apply (IHe _ _ _ _ Hp Hx Hpl Ha).
      * bind_inv H as a Ha. inversion H; subst. simpl. apply (IHe _ _ _ _ Hp Hx Hpl Ha).
      * inversion H; subst. destruct (negb (f_mv_keep_subst h) && mem x ef); simpl; rewrite ?H0, ?H1, ?Hx, ?Hpl; reflexivity.
      * inversion H; subst. simpl. rewrite Hx, H0, H1, H2, Hpl. reflexivity.
      * inversion H; subst. simpl. rewrite Hx, H0, H1, H2, Hpl. reflexivity.
      * fold (cfd d) in H1. bind_inv H as r0 Hr0. apply (IHe _ _ _ _ (IHi _ _ _ H0 H1 Hr0) Hx Hpl H).
    + intros p x pl r Hp Hx Hpl H. destruct p; simpl in H, Hp; andb_split.
      * inversion H; subst; reflexivity.
      * inversion H; subst. destruct (N.eqb x n0); auto.
      * inversion H; subst; reflexivity.
      * bind_inv H as a Ha. bind_inv H as b Hb. inversion H; subst. simpl.
        rewrite (IHs _ _ _ _ H0 Hx Hpl Ha), (IHs _ _ _ _ H1 Hx Hpl Hb). reflexivity.
      * bind_inv H as a Ha. bind_inv H as b Hb. inversion H; subst. simpl.
        rewrite (IHs _ _ _ _ H0 Hx Hpl Ha), (IHs _ _ _ _ H1 Hx Hpl Hb). reflexivity.
      * bind_inv H as a Ha. inversion H; subst. simpl. apply (IHs _ _ _ _ Hp Hx Hpl Ha).
      * destruct (N.eqb x X); [inversion H; subst; exact Hp|].
        bind_inv H as a Ha. inversion H; subst. simpl. apply (IHs _ _ _ _ Hp Hx Hpl Ha).
      * inversion H; subst. destruct (negb (f_mv_keep_subst h) && mem x sf); simpl; rewrite ?H0, ?H1, ?Hx, ?Hpl; reflexivity.
      * inversion H; subst. simpl. rewrite Hx, H0, H1, H2, Hpl. reflexivity.
      * inversion H; subst. simpl. rewrite Hx, H0, H1, H2, Hpl. reflexivity.
      * fold (cfd d) in H1. bind_inv H as r0 Hr0. apply (IHs _ _ _ _ (IHi _ _ _ H0 H1 Hr0) Hx Hpl H).
Qed.

Lemma py_inst_cf n p d r : corner_free p = true -> cfd d = true -> py_inst h n p d = Some r -> corner_free r = true.
Proof. apply ops_cf. Qed.
Lemma py_esubst_cf n p x pl r : corner_free p = true -> mem x se = true -> corner_free pl = true ->
  py_esubst h n p x pl = Some r -> corner_free r = true.
Proof. apply ops_cf. Qed.
Lemma py_ssubst_cf n p x pl r : corner_free p = true -> mem x ss = true -> corner_free pl = true ->
  py_ssubst h n p x pl = Some r -> corner_free r = true.
Proof. apply ops_cf. Qed.

Lemma simplify_cf n p r : corner_free p = true -> simplify h n p = Some r -> corner_free r = true.
Proof.
  destruct p; simpl; intros Hp H; try (inversion H; subst; exact Hp).
  andb_split. eapply py_inst_cf; eauto.
Qed.
Lemma hnf_cf n : forall p r, corner_free p = true -> hnf h n p = Some r -> corner_free r = true.
Proof.
  induction n as [|n IH]; intros p r Hp H; destruct p; simpl in H; try (inversion H; subst; exact Hp); try discriminate.
  bind_inv H as r0 Hr0. simpl in Hp. andb_split. eapply IH; [|exact H]. eapply py_inst_cf; eauto.
Qed.
End AnyFlags.

(** ================= the operations agree under [f] and [with_keep f] ================= *)
Definition Ei n := forall p d, corner_free p = true -> cfd d = true -> py_inst f n p d = py_inst g n p d.
Definition Ee n := forall p x pl, corner_free p = true -> mem x se = true -> corner_free pl = true ->
  py_esubst f n p x pl = py_esubst g n p x pl.
Definition Es n := forall p x pl, corner_free p = true -> mem x ss = true -> corner_free pl = true ->
  py_ssubst f n p x pl = py_ssubst g n p x pl.

Lemma ops_bridge n : Ei n /\ Ee n /\ Es n.
Proof.
  induction n as [|n [IHi [IHe IHs]]].
  - repeat split; intros; reflexivity.
  - repeat split.
    + intros p d Hp Hd. destruct p; simpl in Hp |- *; andb_split; try reflexivity.
      * rewrite (IHi _ _ H Hd), (IHi _ _ H0 Hd). reflexivity.
      * rewrite (IHi _ _ H Hd), (IHi _ _ H0 Hd). reflexivity.
      * rewrite (IHi _ _ Hp Hd). reflexivity.
      * rewrite (IHi _ _ Hp Hd). reflexivity.
      * destruct (isnil d); [reflexivity|]. rewrite (IHi _ _ H1 Hd), (IHi _ _ H0 Hd).
        destruct (py_inst g n p1 d) as [a|] eqn:Ea; [|reflexivity]. simpl.
        destruct (py_inst g n p2 d) as [b|] eqn:Eb; [|reflexivity]. simpl.
        apply IHe; [exact (py_inst_cf g n p1 d a H1 Hd Ea)|exact H|exact (py_inst_cf g n p2 d b H0 Hd Eb)].
      * destruct (isnil d); [reflexivity|]. rewrite (IHi _ _ H1 Hd), (IHi _ _ H0 Hd).
        destruct (py_inst g n p1 d) as [a|] eqn:Ea; [|reflexivity]. simpl.
        destruct (py_inst g n p2 d) as [b|] eqn:Eb; [|reflexivity]. simpl.
        apply IHs; [exact (py_inst_cf g n p1 d a H1 Hd Ea)|exact H|exact (py_inst_cf g n p2 d b H0 Hd Eb)].
      * fold (cfd d0) in H0.
        assert (Em : map_opt (fun kv : N * ppat => bind (py_inst f n (snd kv) d) (fun v => Some (fst kv, v))) d0
                     = map_opt (fun kv : N * ppat => bind (py_inst g n (snd kv) d) (fun v => Some (fst kv, v))) d0).
        { apply map_opt_ext_in. intros kv Hin. unfold cfd in H0. rewrite forallb_forall in H0.
          rewrite (IHi _ _ (H0 kv Hin) Hd). reflexivity. }
        rewrite Em. change (f_inst_extend g) with (f_inst_extend f).
        destruct (f_inst_extend f).
        { destruct (isnil d0); [rewrite (IHi _ _ H Hd); reflexivity|reflexivity]. }
        { rewrite (IHi _ _ H (cfd_unshadowed d d0 Hd)). reflexivity. }
    + intros p x pl Hp Hx Hpl. destruct p; simpl in Hp |- *; andb_split; try reflexivity.
      * rewrite (IHe _ _ _ H Hx Hpl), (IHe _ _ _ H0 Hx Hpl). reflexivity.
      * rewrite (IHe _ _ _ H Hx Hpl), (IHe _ _ _ H0 Hx Hpl). reflexivity.
      * rewrite (IHe _ _ _ Hp Hx Hpl). reflexivity.
      * rewrite (IHe _ _ _ Hp Hx Hpl). reflexivity.
      * rewrite (disj_mem _ _ _ H Hx). rewrite !andb_false_r. reflexivity.
      * fold (cfd d) in H0. rewrite (IHi _ _ H H0).
        destruct (py_inst g n p d) as [r0|] eqn:Er; [|reflexivity]. simpl.
        apply IHe; [exact (py_inst_cf g n p d r0 H H0 Er)|exact Hx|exact Hpl].
    + intros p x pl Hp Hx Hpl. destruct p; simpl in Hp |- *; andb_split; try reflexivity.
      * rewrite (IHs _ _ _ H Hx Hpl), (IHs _ _ _ H0 Hx Hpl). reflexivity.
      * rewrite (IHs _ _ _ H Hx Hpl), (IHs _ _ _ H0 Hx Hpl). reflexivity.
      * rewrite (IHs _ _ _ Hp Hx Hpl). reflexivity.
      * rewrite (IHs _ _ _ Hp Hx Hpl). reflexivity.
      * rewrite (disj_mem _ _ _ H0 Hx). rewrite !andb_false_r. reflexivity.
      * fold (cfd d) in H0. rewrite (IHi _ _ H H0).
        destruct (py_inst g n p d) as [r0|] eqn:Er; [|reflexivity]. simpl.
        apply IHs; [exact (py_inst_cf g n p d r0 H H0 Er)|exact Hx|exact Hpl].
Qed.

Theorem py_inst_bridge n p d : corner_free p = true -> cfd d = true -> py_inst f n p d = py_inst g n p d.
Proof. apply ops_bridge. Qed.
Theorem py_esubst_bridge n p x pl : corner_free p = true -> mem x se = true -> corner_free pl = true ->
  py_esubst f n p x pl = py_esubst g n p x pl.
Proof. apply ops_bridge. Qed.
Theorem py_ssubst_bridge n p x pl : corner_free p = true -> mem x ss = true -> corner_free pl = true ->
  py_ssubst f n p x pl = py_ssubst g n p x pl.
Proof. apply ops_bridge. Qed.

Theorem simplify_bridge n p : corner_free p = true -> simplify f n p = simplify g n p.
Proof. destruct p; simpl; intro Hp; try reflexivity. andb_split. apply py_inst_bridge; auto. Qed.

Theorem hnf_bridge n : forall p, corner_free p = true -> hnf f n p = hnf g n p.
Proof.
  induction n as [|n IH]; intros p Hp; destruct p; simpl; try reflexivity.
  simpl in Hp. andb_split. rewrite (py_inst_bridge n p d H H0).
  destruct (py_inst g n p d) as [r|] eqn:Er; [|reflexivity]. simpl. apply IH. eapply py_inst_cf; eauto.
Qed.

Theorem py_eq_bridge n : forall a b, corner_free a = true -> corner_free b = true -> py_eq f n a b = py_eq g n a b.
Proof.
  induction n as [|n IH]; intros a b Ha Hb; [reflexivity|].
  destruct a.
  11: { simpl in Ha. andb_split. simpl. rewrite (py_inst_bridge n a d H H0).
        destruct (py_inst g n a d) as [r|] eqn:Er; [|reflexivity]. simpl.
        apply IH; [exact (py_inst_cf g n a d r H H0 Er)|exact Hb]. }
  all: destruct b; try reflexivity.
  all: try (simpl in Hb; andb_split; simpl;
            match goal with |- context [py_inst f ?k ?q ?d] => rewrite (py_inst_bridge k q d) by assumption end;
            match goal with |- context [py_inst g ?k ?q ?d] =>
              destruct (py_inst g k q d) as [r|] eqn:Er; [|reflexivity]; simpl;
              apply IH; [eapply py_inst_cf; [| |exact Er]; assumption|assumption] end).
  all: simpl in Ha, Hb; andb_split; simpl.
  - rewrite (IH a1 b1), (IH a2 b2); auto.
  - rewrite (IH a1 b1), (IH a2 b2); auto.
  - rewrite (IH a b); auto.
  - rewrite (IH a b); auto.
  - rewrite (IH a1 b1), (IH a2 b2); auto.
  - rewrite (IH a1 b1), (IH a2 b2); auto.
Qed.

Theorem py_fresh_bridge n : forall p x, corner_free p = true -> py_fresh f n p x = py_fresh g n p x.
Proof.
  induction n as [|n IH]; intros p x Hp; [reflexivity|].
  destruct p; simpl in Hp; andb_split; simpl; try reflexivity.
  - rewrite (IH p1), (IH p2); auto.
  - rewrite (IH p1), (IH p2); auto.
  - rewrite (IH p); auto.
  - rewrite (IH p); auto.
  - rewrite (IH p1), (IH p2); auto.
  - rewrite (IH p1), (IH p2); auto.
  - change (f_fresh_simplify g) with (f_fresh_simplify f). fold (cfd d) in H0.
    destruct (f_fresh_simplify f).
    + rewrite (py_inst_bridge n p d H H0). destruct (py_inst g n p d) as [r|] eqn:Er; [|reflexivity]. simpl.
      apply IH. eapply py_inst_cf; eauto.
    + rewrite (IH p x H). destruct (py_fresh g n p x) as [e|]; [|reflexivity]. simpl. destruct e; [reflexivity|].
      clear H. induction d as [|kv d IHd]; [reflexivity|]. simpl in H0. andb_split.
      rewrite (IH (snd kv) x H). destruct (py_fresh g n (snd kv) x) as [e|]; [|reflexivity]. simpl.
      destruct e; [reflexivity|]. apply IHd. exact H0.
Qed.

(** ---- matching ---- *)
Theorem match_single_bridge n : forall p i ret, corner_free p = true -> corner_free i = true -> cfd ret = true ->
  match_single f n p i ret = match_single g n p i ret /\
  forall th, match_single g n p i ret = Some (Some th) -> cfd th = true.
Proof.
  induction n as [|n IH]; intros p i ret Hp Hi Hr; [split; [reflexivity|discriminate]|].
  destruct (is_mvar p) eqn:Emv.
  - destruct p; try discriminate. simpl.
    destruct (alookup id ret) as [v|] eqn:El.
    + rewrite (py_eq_bridge n v i (cfd_alookup _ _ _ Hr El) Hi). split; [reflexivity|].
      intros th H. destruct (py_eq g n v i) as [e|]; [|discriminate]. simpl in H. destruct e; [inversion H; subst; exact Hr|discriminate].
    + split; [reflexivity|]. intros th H. inversion H; subst. rewrite cfd_app, Hr. simpl. rewrite Hi. reflexivity.
  - rewrite (match_single_S f _ _ _ _ Emv), (match_single_S g _ _ _ _ Emv). unfold body.
    change (f_match_simplify g) with (f_match_simplify f).
    destruct (f_match_simplify f && is_inst p).
    + rewrite (simplify_bridge n p Hp). destruct (simplify g n p) as [p'|] eqn:Es; [|split; [reflexivity|discriminate]].
      simpl. apply IH; [exact (simplify_cf g n p p' Hp Es)|exact Hi|exact Hr].
    + rewrite (hnf_bridge n p Hp), (hnf_bridge n i Hi).
      destruct (hnf g n p) as [hp|] eqn:Ehp; [|split; [reflexivity|discriminate]]. simpl.
      destruct (hnf g n i) as [hi|] eqn:Ehi; [|split; [reflexivity|discriminate]]. simpl.
      pose proof (hnf_cf g n p hp Hp Ehp) as Chp. pose proof (hnf_cf g n i hi Hi Ehi) as Chi.
      assert (Hk : forall c : bool, Some (if c then Some ret else @None delta) = Some (if c then Some ret else None) /\
                     forall th, Some (if c then Some ret else @None delta) = Some (Some th) -> cfd th = true).
      { intro c. split; [reflexivity|]. intros th H. destruct c; [inversion H; subst; exact Hr|discriminate]. }
      assert (Hn : Some (@None delta) = Some None /\ forall th, Some (@None delta) = Some (Some th) -> cfd th = true).
      { split; [reflexivity|discriminate]. }
      destruct hp; destruct hi; simpl dispatch; auto; simpl in Chp, Chi; andb_split.
      * destruct (IH hp1 hi1 ret H1 H Hr) as [E1 C1]. rewrite E1.
        destruct (match_single g n hp1 hi1 ret) as [[ret'|]|]; simpl; [|exact Hn|split; [reflexivity|discriminate]].
        apply IH; auto.
      * destruct (IH hp1 hi1 ret H1 H Hr) as [E1 C1]. rewrite E1.
        destruct (match_single g n hp1 hi1 ret) as [[ret'|]|]; simpl; [|exact Hn|split; [reflexivity|discriminate]].
        apply IH; auto.
      * destruct (N.eqb x x0); [apply IH; auto|exact Hn].
      * destruct (N.eqb X X0); [apply IH; auto|exact Hn].
Qed.

Theorem match_list_bridge n : forall eqs ret,
  forallb (fun e => corner_free (fst e) && corner_free (snd e)) eqs = true -> cfd ret = true ->
  match_list f n eqs ret = match_list g n eqs ret.
Proof.
  induction eqs as [|e eqs IH]; intros ret He Hr; simpl; [reflexivity|].
  simpl in He. apply andb_true_iff in He as [He1 He2]. apply andb_true_iff in He1 as [Hp Hi].
  destruct (match_single_bridge n (fst e) (snd e) ret Hp Hi Hr) as [E1 C1]. rewrite E1.
  destruct (match_single g n (fst e) (snd e) ret) as [[ret'|]|]; simpl; try reflexivity.
  change (f_match_list_none g) with (f_match_list_none f).
  destruct (negb (f_match_list_none f) && isnil ret'); [reflexivity|]. apply IH; auto.
Qed.

Theorem nassert_bridge n nt p : corner_free (nt_def nt) = true -> corner_free p = true ->
  nassert f n nt p = nassert g n nt p.
Proof.
  intros Hd Hp. unfold nassert, nmatches.
  destruct (match_single_bridge n (nt_def nt) p [] Hd Hp eq_refl) as [E1 _]. rewrite E1. reflexivity.
Qed.

(** ---- the three rules ---- *)
Theorem unwrap_imp_bridge n p : corner_free p = true -> unwrap_imp f n p = unwrap_imp g n p.
Proof. intro Hp. unfold unwrap_imp. rewrite (hnf_bridge n p Hp). reflexivity. Qed.

Theorem basic_mp_bridge n L R : corner_free L = true -> corner_free R = true -> basic_mp f n L R = basic_mp g n L R.
Proof.
  intros HL HR. unfold basic_mp. rewrite (unwrap_imp_bridge n L HL). unfold unwrap_imp.
  destruct (hnf g n L) as [h0|] eqn:Eh; [|reflexivity]. simpl.
  pose proof (hnf_cf g n L h0 HL Eh) as Ch. destruct h0; try reflexivity. simpl in Ch. andb_split.
  rewrite (py_eq_bridge n h0_1 R H HR). reflexivity.
Qed.
Theorem basic_gen_bridge n C x : corner_free C = true -> basic_gen f n C x = basic_gen g n C x.
Proof.
  intros HC. unfold basic_gen. rewrite (unwrap_imp_bridge n C HC). unfold unwrap_imp.
  destruct (hnf g n C) as [h0|] eqn:Eh; [|reflexivity]. simpl.
  pose proof (hnf_cf g n C h0 HC Eh) as Ch. destruct h0; try reflexivity. simpl in Ch. andb_split.
  rewrite (py_fresh_bridge n h0_2 x H0). reflexivity.
Qed.
Theorem basic_inst_bridge n C d : corner_free C = true -> cfd d = true -> basic_inst f n C d = basic_inst g n C d.
Proof. intros HC Hd. unfold basic_inst. destruct (isnil d); [reflexivity|]. apply py_inst_bridge; auto. Qed.

End Bridge.

(** a pattern without any e_fresh/s_fresh declaration and whose substitution variables are in [se]/[ss] *)
Fixpoint unconstrained (p:ppat) : bool :=
  match p with
  | PEVar _ | PSVar _ | PSym _ => true
  | PImp l r | PApp l r => unconstrained l && unconstrained r
  | PEx _ q | PMu _ q => unconstrained q
  | PMVar _ ef sf _ _ _ => isnil ef && isnil sf
  | PESub q _ g | PSSub q _ g => unconstrained q && unconstrained g
  | PInst q d => unconstrained q && forallb (fun kv => unconstrained (snd kv)) d
  end.
Fixpoint etargets (p:ppat) : list N :=
  match p with
  | PEVar _ | PSVar _ | PSym _ | PMVar _ _ _ _ _ _ => []
  | PImp l r | PApp l r => etargets l ++ etargets r
  | PEx _ q | PMu _ q => etargets q
  | PESub q x g => x :: etargets q ++ etargets g
  | PSSub q _ g => etargets q ++ etargets g
  | PInst q d => etargets q ++ flat_map (fun kv => etargets (snd kv)) d
  end.
Fixpoint stargets (p:ppat) : list N :=
  match p with
  | PEVar _ | PSVar _ | PSym _ | PMVar _ _ _ _ _ _ => []
  | PImp l r | PApp l r => stargets l ++ stargets r
  | PEx _ q | PMu _ q => stargets q
  | PESub q _ g => stargets q ++ stargets g
  | PSSub q X g => X :: stargets q ++ stargets g
  | PInst q d => stargets q ++ flat_map (fun kv => stargets (snd kv)) d
  end.

(** patterns whose metavariables are all unconstrained are corner-free for every target set covering them *)
Theorem unconstrained_corner_free se ss : forall p, unconstrained p = true ->
  (forall x, In x (etargets p) -> In x se) -> (forall x, In x (stargets p) -> In x ss) ->
  corner_free se ss p = true.
Proof.
  induction p using ppat_ind'; simpl; intros Hu He Hs; auto.
  - apply andb_true_iff in Hu as [? ?]. rewrite IHp1, IHp2; auto; intros; try apply He; try apply Hs; apply in_or_app; auto.
  - apply andb_true_iff in Hu as [? ?]. rewrite IHp1, IHp2; auto; intros; try apply He; try apply Hs; apply in_or_app; auto.
  - apply andb_true_iff in Hu as [Ha Hb]. destruct a; [|discriminate]. destruct b; [|discriminate]. reflexivity.
  - apply andb_true_iff in Hu as [? ?]. rewrite IHp1, IHp2; auto.
    + assert (M : mem x se = true) by (apply mem_In; apply He; left; reflexivity). rewrite M. reflexivity.
    + intros; apply He; right; apply in_or_app; auto.
    + intros; apply Hs; apply in_or_app; auto.
    + intros; apply He; right; apply in_or_app; auto.
    + intros; apply Hs; apply in_or_app; auto.
  - apply andb_true_iff in Hu as [? ?]. rewrite IHp1, IHp2; auto.
    + assert (M : mem x ss = true) by (apply mem_In; apply Hs; left; reflexivity). rewrite M. reflexivity.
    + intros; apply He; apply in_or_app; auto.
    + intros; apply Hs; right; apply in_or_app; auto.
    + intros; apply He; apply in_or_app; auto.
    + intros; apply Hs; right; apply in_or_app; auto.
  - apply andb_true_iff in Hu as [Hq Hd]. rewrite IHp; auto; try (intros; try apply He; try apply Hs; apply in_or_app; auto).
    simpl. apply forallb_forall. intros kv Hin. rewrite Forall_forall in H. rewrite forallb_forall in Hd.
    apply (H kv Hin (Hd kv Hin)).
    + intros x Hx. apply He. apply in_or_app. right. apply in_flat_map. exists kv. auto.
    + intros x Hx. apply Hs. apply in_or_app. right. apply in_flat_map. exists kv. auto.
Qed.

(** Support definitions for the generated coq/Gen/PyPattern.v (translators/pypattern.py): the two primitives that are
    not method bodies of pattern.py ([Implies.extract], [==]) and small helpers; lemmas used by the agreement proofs. *)
From Coq Require Import NArith List Bool.
From Pi2 Require Import ML.Syntax Py.Pattern Py.PatFacts Py.Bridge.
Import ListNotations.
Open Scope N_scope.

(** [Implies.extract(p)]: the pair, or AssertionError (= None) *)
Definition extract_imp (n:nat) (p:ppat) : option (ppat * ppat) :=
  bind (unwrap_imp flags_current n p) (fun u => u).

Definition dflt_nil (o:option (list N)) : list N := match o with Some l => l | None => [] end.

Lemma bind_eta {A} (o:option A) : bind o (fun c => Some c) = o.
Proof. destruct o; reflexivity. Qed.

Lemma fold_left_app_flat_map {A} (g:A -> list N) l : forall acc,
  fold_left (fun acc v => acc ++ g v) l acc = acc ++ flat_map g l.
Proof.
  induction l as [|a l IH]; intro acc; simpl; [rewrite app_nil_r; reflexivity|].
  rewrite IH, app_assoc. reflexivity.
Qed.

Lemma filter_filter {A} (p q:A -> bool) l : filter p (filter q l) = filter (fun x => q x && p x) l.
Proof.
  induction l as [|a l IH]; simpl; [reflexivity|].
  destruct (q a); simpl; [destruct (p a); rewrite IH; reflexivity|exact IH].
Qed.

Lemma fold_left_if_app (c:N -> bool) (a:N -> list N) l : forall acc,
  fold_left (fun acc v => if c v then acc ++ a v else acc ++ [v]) l acc
  = acc ++ flat_map (fun v => if c v then a v else [v]) l.
Proof.
  induction l as [|x l IH]; intro acc; simpl; [rewrite app_nil_r; reflexivity|].
  rewrite IH. destruct (c x); rewrite <- app_assoc; reflexivity.
Qed.

Lemma flat_map_ext_in {A B} (g h:A -> list B) l : (forall a, In a l -> g a = h a) -> flat_map g l = flat_map h l.
Proof.
  induction l as [|a l IH]; intro H; simpl; [reflexivity|].
  rewrite (H a (or_introl eq_refl)), IH; auto. intros a0 Hin. apply H. right. exact Hin.
Qed.

(** dict item assignment [d[k] = v]: replace the binding of k, or append *)
Fixpoint aset (k:N) (v:ppat) (d:delta) : delta :=
  match d with
  | [] => [(k, v)]
  | kv :: t => if N.eqb (fst kv) k then (k, v) :: t else kv :: aset k v t
  end.
Lemma aset_fresh k v d : alookup k d = None -> aset k v d = d ++ [(k, v)].
Proof.
  induction d as [|kv d IH]; simpl; [reflexivity|]. destruct (N.eqb (fst kv) k); [discriminate|].
  intro H. rewrite IH by exact H. reflexivity.
Qed.
Lemma truthy_dict (d:delta) : (if negb (isnil d) then d else []) = d.
Proof. destruct d; reflexivity. Qed.
Lemma truthy_dict' (d:delta) : (if isnil d then [] else d) = d.
Proof. destruct d; reflexivity. Qed.

(** ---- pure dict / set views used in (defensive) assertions ---- *)
Definition keys {A} (d:list (N*A)) : list N := map fst d.
Definition disjointb (a b:list N) : bool := forallb (fun k => negb (mem k b)) a.

Arguments keys : simpl never.
Arguments disjointb : simpl never.

Lemma mem_keys {A} k (d:list (N*A)) : mem k (keys d) = amem k d.
Proof.
  unfold mem, keys, amem. induction d as [|kv d IH]; [reflexivity|]. simpl. rewrite IH, (N.eqb_sym k). reflexivity.
Qed.

(** a comprehension [{k: f(v) for k, v in d.items()}] keeps the keys *)
Lemma map_opt_keys {A B} (g:N*A -> option B) (d:list (N*A)) l :
  map_opt (fun kv => bind (g kv) (fun v => Some (fst kv, v))) d = Some l -> keys l = keys d.
Proof.
  revert l. induction d as [|kv d IH]; intros l H; simpl in H.
  - inversion H. reflexivity.
  - destruct (g kv); simpl in H; [|discriminate].
    destruct (map_opt (fun kv0 => bind (g kv0) (fun v => Some (fst kv0, v))) d) eqn:E; simpl in H; [|discriminate].
    inversion H; subst. unfold keys in *. simpl. rewrite (IH l0 eq_refl). reflexivity.
Qed.

(** entries kept only when their key is not in [d] have keys disjoint from the keys of anything with [d]'s keys *)
Lemma disjoint_unshadowed {A B} (ks:list N) (d:list (N*A)) (e:list (N*B)) (g:N*B -> bool) :
  ks = keys d ->
  disjointb ks (keys (filter (fun kv => negb (amem (fst kv) d) && g kv) e)) = true.
Proof.
  intros ->. unfold disjointb. apply forallb_forall. intros k Hk.
  destruct (mem k (keys (filter (fun kv => negb (amem (fst kv) d) && g kv) e))) eqn:M; [|reflexivity]. exfalso.
  unfold mem in M. apply existsb_exists in M as [k' [Hin Hk']]. apply N.eqb_eq in Hk'. subst k'.
  unfold keys in Hin. apply in_map_iff in Hin as [kv [Hf Hin]]. apply filter_In in Hin as [_ Hc].
  apply andb_prop in Hc as [Hc _]. rewrite Hf in Hc.
  assert (amem k d = true).
  { rewrite <- mem_keys. unfold mem. apply existsb_exists. exists k. split; [exact Hk|apply N.eqb_refl]. }
  rewrite H in Hc. discriminate.
Qed.

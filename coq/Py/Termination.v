(** Termination of the fuel-indexed model functions of Py/Pattern.v: for the repaired
    [Instantiate.instantiate] ([f_inst_extend]) every function returns as soon as the fuel reaches a
    measure [dm] computed structurally from its arguments, so the "out of fuel" outcome excluded in the
    statements of Props/C07.v, C12.v, C13.v is impossible for enough fuel.

    [dm p rho] bounds the depth of the calls an operation on [p] makes when the metavariable [k] stands for
    something of depth [rho k]: a pending substitution adds the depth of its plug (the plug is grafted below
    the pattern), an Instantiate evaluates its body in the environment extended by its (evaluated) values. *)
From Coq Require Import NArith List Bool Lia Arith.
From Pi2 Require Import ML.Syntax Py.Pattern Py.PatFacts Py.MetaFacts Py.ExpandFacts.
Import ListNotations.

Close Scope N_scope.
Open Scope nat_scope.

Definition env := N -> nat.

(** largest value bound to [k] (dicts have unique keys; the measure does not need to know) *)
Fixpoint amax (k:N) (l:list (N*nat)) : option nat :=
  match l with
  | [] => None
  | kv::t => match amax k t with
             | Some m => Some (if N.eqb (fst kv) k then Nat.max (snd kv) m else m)
             | None => if N.eqb (fst kv) k then Some (snd kv) else None
             end
  end.
Definition ext (rho:env) (dv:list (N*nat)) : env :=
  fun k => match amax k dv with Some m => m | None => rho k end.
Fixpoint lmax (l:list nat) : nat := match l with [] => 0 | a::t => Nat.max a (lmax t) end.

Fixpoint dm (p:ppat) (rho:env) : nat :=
  match p with
  | PEVar _ | PSVar _ | PSym _ => 1
  | PMVar k _ _ _ _ _ => rho k
  | PImp a b | PApp a b => S (Nat.max (dm a rho) (dm b rho))
  | PEx _ q | PMu _ q => S (dm q rho)
  | PESub q _ g | PSSub q _ g => S (dm q rho + dm g rho)
  | PInst q d =>
      let dv := map (fun kv => (fst kv, dm (snd kv) rho)) d in
      S (Nat.max (dm q (ext rho dv)) (lmax (map snd dv)))
  end.

Definition dvals (rho:env) (d:delta) : list (N*nat) := map (fun kv => (fst kv, dm (snd kv) rho)) d.
Definition one : env := fun _ => 1.
Definition E (d:delta) : env := ext one (dvals one d).

Lemma dm_inst q d rho : dm (PInst q d) rho = S (Nat.max (dm q (ext rho (dvals rho d))) (lmax (map snd (dvals rho d)))).
Proof. reflexivity. Qed.

(** ---- amax / lmax ---- *)
Lemma amax_none_iff {A} k (g:N*A -> nat) (d:list (N*A)) :
  amax k (map (fun kv => (fst kv, g kv)) d) = None <-> alookup k d = None.
Proof.
  induction d as [|kv d IH]; simpl; [tauto|].
  destruct (amax k (map (fun kv0 => (fst kv0, g kv0)) d)) eqn:Ea.
  - split; [discriminate|]. destruct (N.eqb (fst kv) k); [discriminate|]. intro H. apply IH in H. discriminate.
  - destruct (N.eqb (fst kv) k); split; try discriminate; auto. intros _. apply IH. reflexivity.
Qed.

Lemma amax_in {A} k (g:N*A -> nat) (d:list (N*A)) kv :
  In kv d -> fst kv = k -> exists m, amax k (map (fun kv => (fst kv, g kv)) d) = Some m /\ g kv <= m.
Proof.
  induction d as [|kv0 d IH]; simpl; [contradiction|].
  intros [->|Hin] Hk.
  - subst k. rewrite N.eqb_refl. destruct (amax (fst kv) (map (fun kv0 => (fst kv0, g kv0)) d)); eexists; split; eauto; lia.
  - destruct (IH Hin Hk) as [m [Hm Hle]]. rewrite Hm. eexists; split; [reflexivity|].
    destruct (N.eqb (fst kv0) k); lia.
Qed.

Lemma amax_le_lmax k l m : amax k l = Some m -> m <= lmax (map snd l).
Proof.
  revert m. induction l as [|kv l IH]; simpl; intros m H; [discriminate|].
  destruct (amax k l) as [m'|].
  - specialize (IH _ eq_refl). inversion H; subst. destruct (N.eqb (fst kv) k); lia.
  - destruct (N.eqb (fst kv) k); inversion H; subst. lia.
Qed.

Lemma lmax_in x l : In x l -> x <= lmax l.
Proof. induction l as [|a l IH]; simpl; [contradiction|]. intros [->|H]; [lia|]. apply IH in H. lia. Qed.
Lemma lmax_le l b : (forall x, In x l -> x <= b) -> lmax l <= b.
Proof. induction l as [|a l IH]; simpl; intro H; [lia|]. assert (a <= b) by auto. assert (lmax l <= b) by auto. lia. Qed.

Lemma amax_app k a b :
  amax k (a ++ b) = match amax k a, amax k b with
                    | Some x, Some y => Some (Nat.max x y)
                    | Some x, None => Some x
                    | None, o => o
                    end.
Proof.
  induction a as [|kv a IH]; simpl.
  - destruct (amax k b); reflexivity.
  - rewrite IH. destruct (amax k a), (amax k b); destruct (N.eqb (fst kv) k); try reflexivity; f_equal; lia.
Qed.

(** pointwise comparison of two value lists with the same keys *)
Lemma amax_mono2 {A B} k (g1:N*A -> nat) (g2:N*B -> nat) (d1:list (N*A)) (d2:list (N*B)) :
  Forall2 (fun a b => fst a = fst b /\ g1 a <= g2 b) d1 d2 ->
  match amax k (map (fun kv => (fst kv, g1 kv)) d1), amax k (map (fun kv => (fst kv, g2 kv)) d2) with
  | Some x, Some y => x <= y
  | None, None => True
  | _, _ => False
  end.
Proof.
  induction 1 as [|a b d1 d2 [Hk Hle] _ IH]; simpl; [exact I|].
  rewrite <- Hk.
  destruct (amax k (map (fun kv => (fst kv, g1 kv)) d1)), (amax k (map (fun kv => (fst kv, g2 kv)) d2));
    try contradiction; destruct (N.eqb (fst a) k); auto; lia.
Qed.

Lemma amax_filter_le {A} k (g:N*A -> nat) (pr:N*A -> bool) (d:list (N*A)) m :
  amax k (map (fun kv => (fst kv, g kv)) (filter pr d)) = Some m ->
  exists m', amax k (map (fun kv => (fst kv, g kv)) d) = Some m' /\ m <= m'.
Proof.
  revert m. induction d as [|kv d IH]; simpl; intros m H; [discriminate|].
  destruct (pr kv); simpl in H.
  - destruct (amax k (map (fun kv0 => (fst kv0, g kv0)) (filter pr d))) as [m0|] eqn:E0.
    + destruct (IH _ eq_refl) as [m' [Hm' Hle]]. rewrite Hm'. inversion H; subst.
      eexists; split; [reflexivity|]. destruct (N.eqb (fst kv) k); lia.
    + destruct (N.eqb (fst kv) k) eqn:Ek; [|discriminate]. inversion H; subst.
      destruct (amax k (map (fun kv0 => (fst kv0, g kv0)) d)); eexists; split; [reflexivity| |reflexivity|]; lia.
  - destruct (IH _ H) as [m' [Hm' Hle]]. rewrite Hm'. eexists; split; [reflexivity|].
    destruct (N.eqb (fst kv) k); lia.
Qed.

(** ---- the measure ---- *)
Lemma dm_mono : forall p r1 r2, (forall k, r1 k <= r2 k) -> dm p r1 <= dm p r2.
Proof.
  induction p using ppat_ind'; intros r1 r2 Hr; simpl; auto; try lia.
  - specialize (IHp1 _ _ Hr). specialize (IHp2 _ _ Hr). lia.
  - specialize (IHp1 _ _ Hr). specialize (IHp2 _ _ Hr). lia.
  - specialize (IHp _ _ Hr). lia.
  - specialize (IHp _ _ Hr). lia.
  - specialize (IHp1 _ _ Hr). specialize (IHp2 _ _ Hr). lia.
  - specialize (IHp1 _ _ Hr). specialize (IHp2 _ _ Hr). lia.
  - assert (HF : Forall2 (fun a b : N * ppat => fst a = fst b /\ dm (snd a) r1 <= dm (snd b) r2) d d).
    { clear IHp. induction H as [|kv d Hkv _ IH]; constructor; auto. }
    apply le_n_S. apply Nat.max_le_compat.
    + apply IHp. intro k. unfold ext.
      pose proof (amax_mono2 k (fun kv => dm (snd kv) r1) (fun kv => dm (snd kv) r2) d d HF) as M.
      destruct (amax k (map (fun kv => (fst kv, dm (snd kv) r1)) d)),
               (amax k (map (fun kv => (fst kv, dm (snd kv) r2)) d)); try contradiction; auto.
    + apply lmax_le. intros x Hx. rewrite map_map in Hx. apply in_map_iff in Hx as [kv [<- Hin]]. simpl.
      rewrite Forall_forall in H. specialize (H kv Hin _ _ Hr).
      etransitivity; [exact H|]. apply lmax_in. rewrite map_map. apply in_map_iff. exists kv. auto.
Qed.

Lemma dm_ext p r1 r2 : (forall k, r1 k = r2 k) -> dm p r1 = dm p r2.
Proof. intro H. apply Nat.le_antisymm; apply dm_mono; intro k; rewrite H; lia. Qed.

Lemma dm_pos : forall p rho, (forall k, 1 <= rho k) -> 1 <= dm p rho.
Proof. destruct p; simpl; intros rho H; auto; lia. Qed.

Lemma ext_nil rho k : ext rho [] k = rho k.
Proof. reflexivity. Qed.

Lemma E_pos d k : 1 <= E d k.
Proof.
  unfold E, ext. destruct (amax k (dvals one d)) as [m|] eqn:Em; [|unfold one; lia].
  unfold dvals in Em.
  assert (H : forall l m, amax k (map (fun kv : N * ppat => (fst kv, dm (snd kv) one)) l) = Some m -> 1 <= m).
  { induction l as [|kv l IH]; simpl; intros m0 H0; [discriminate|].
    pose proof (dm_pos (snd kv) one (fun _ => le_n 1)) as P.
    destruct (amax k (map (fun kv0 : N * ppat => (fst kv0, dm (snd kv0) one)) l)) as [m1|].
    - specialize (IH _ eq_refl). inversion H0; subst. destruct (N.eqb (fst kv) k); lia.
    - destruct (N.eqb (fst kv) k); inversion H0; subst. exact P. }
  eapply H. exact Em.
Qed.

(** a metavariable that [metavars()] reports is read by the measure *)
Lemma dm_ge_env : forall p rho k, In k (metavars p) -> rho k <= dm p rho.
Proof.
  induction p using ppat_ind'; simpl; intros rho k Hk; try contradiction.
  - apply in_app_or in Hk as [Hk|Hk]; [apply (IHp1 rho) in Hk|apply (IHp2 rho) in Hk]; lia.
  - apply in_app_or in Hk as [Hk|Hk]; [apply (IHp1 rho) in Hk|apply (IHp2 rho) in Hk]; lia.
  - apply (IHp rho) in Hk. lia.
  - apply (IHp rho) in Hk. lia.
  - destruct Hk as [->|[]]. lia.
  - apply in_app_or in Hk as [Hk|Hk]; [apply (IHp1 rho) in Hk|apply (IHp2 rho) in Hk]; lia.
  - apply in_app_or in Hk as [Hk|Hk]; [apply (IHp1 rho) in Hk|apply (IHp2 rho) in Hk]; lia.
  - apply in_flat_map in Hk as [j [Hj Hk]].
    change (map (fun kv : N * ppat => (fst kv, metavars (snd kv))) d) with (amap metavars d) in Hk.
    rewrite alookup_amap in Hk. destruct (alookup j d) as [v|] eqn:El; simpl in Hk.
    + apply alookup_in in El. rewrite Forall_forall in H. specialize (H (j, v) El rho k Hk). simpl in H.
      assert (dm v rho <= lmax (map snd (map (fun kv : N * ppat => (fst kv, dm (snd kv) rho)) d))).
      { apply lmax_in. rewrite map_map. apply in_map_iff. exists (j, v). auto. }
      lia.
    + destruct Hk as [->|[]].
      specialize (IHp (ext rho (map (fun kv : N * ppat => (fst kv, dm (snd kv) rho)) d)) k Hj).
      unfold ext at 1 in IHp.
      assert (En : amax k (map (fun kv : N * ppat => (fst kv, dm (snd kv) rho)) d) = None)
        by (apply (amax_none_iff k (fun kv : N * ppat => dm (snd kv) rho)); exact El).
      rewrite En in IHp. lia.
Qed.

Lemma alookup_filter_none {A} (pr:N*A -> bool) k (d:list (N*A)) :
  alookup k d = None -> alookup k (filter pr d) = None.
Proof.
  induction d as [|kv d IH]; simpl; auto.
  destruct (N.eqb (fst kv) k) eqn:Ek; [discriminate|]. intro H.
  destruct (pr kv); simpl; rewrite ?Ek; auto.
Qed.

Lemma Forall2_in_l {A B} (R:A -> B -> Prop) l1 l2 a :
  Forall2 R l1 l2 -> In a l1 -> exists b, In b l2 /\ R a b.
Proof.
  induction 1 as [|x y l1 l2 Hxy _ IH]; simpl; [contradiction|].
  intros [->|Hin]; [eauto|]. destruct (IH Hin) as [b [Hb Hr]]. eauto.
Qed.

Lemma E_nil k : E [] k = one k.
Proof. reflexivity. Qed.

Section WithFlags.
Variable f : pyflags.
Hypothesis Hext : f_inst_extend f = true.

Definition T_inst n := forall p d, dm p (E d) <= n ->
  exists r, py_inst f n p d = Some r /\ dm r one <= dm p (E d).
Definition T_esub n := forall r x g, dm r one <= n ->
  exists r', py_esubst f n r x g = Some r' /\ dm r' one <= dm r one + dm g one + 1.
Definition T_ssub n := forall r x g, dm r one <= n ->
  exists r', py_ssubst f n r x g = Some r' /\ dm r' one <= dm r one + dm g one + 1.

Lemma map_opt_term n d : T_inst n -> forall d', (forall kv, In kv d' -> dm (snd kv) (E d) <= n) ->
  exists d'', map_opt (fun kv => bind (py_inst f n (snd kv) d) (fun v => Some (fst kv, v))) d' = Some d'' /\
              Forall2 (fun a b : N * ppat => fst a = fst b /\ dm (snd a) one <= dm (snd b) (E d)) d'' d'.
Proof.
  intro IH. induction d' as [|kv d' IHd]; intro Hb; simpl.
  - exists []. split; [reflexivity|constructor].
  - destruct (IH (snd kv) d (Hb kv (or_introl eq_refl))) as [v [Hv Hle]].
    destruct (IHd (fun kv0 Hin => Hb kv0 (or_intror Hin))) as [t [Ht HF]].
    rewrite Hv. simpl. rewrite Ht. simpl. eexists. split; [reflexivity|]. constructor; auto.
Qed.

Lemma ops_term n : T_inst n /\ T_esub n /\ T_ssub n.
Proof.
  induction n as [|n [IHi [IHe IHs]]].
  - repeat split.
    + intros p d H. pose proof (dm_pos p (E d) (E_pos d)). lia.
    + intros r x g H. pose proof (dm_pos r one (fun _ => le_n 1)). lia.
    + intros r x g H. pose proof (dm_pos r one (fun _ => le_n 1)). lia.
  - repeat split.
    + (* ---------- py_inst ---------- *)
      intros p d H. destruct p.
      * eexists. split; [reflexivity|]. simpl. lia.
      * eexists. split; [reflexivity|]. simpl. lia.
      * eexists. split; [reflexivity|]. simpl. lia.
      * (* Imp *) destruct d as [|kv0 d0].
        { eexists. split; [reflexivity|]. apply le_n. }
        remember (kv0 :: d0) as d eqn:Ed. simpl in H.
        destruct (IHi p1 d ltac:(lia)) as [a [Ha La]]. destruct (IHi p2 d ltac:(lia)) as [b [Hb Lb]].
        exists (PImp a b). split.
        { simpl. rewrite Ed. simpl isnil. cbv iota. rewrite <- Ed. rewrite Ha. simpl. rewrite Hb. reflexivity. }
        simpl. lia.
      * (* App *) destruct d as [|kv0 d0].
        { eexists. split; [reflexivity|]. apply le_n. }
        remember (kv0 :: d0) as d eqn:Ed. simpl in H.
        destruct (IHi p1 d ltac:(lia)) as [a [Ha La]]. destruct (IHi p2 d ltac:(lia)) as [b [Hb Lb]].
        exists (PApp a b). split.
        { simpl. rewrite Ed. simpl isnil. cbv iota. rewrite <- Ed. rewrite Ha. simpl. rewrite Hb. reflexivity. }
        simpl. lia.
      * (* Ex *) destruct d as [|kv0 d0].
        { eexists. split; [reflexivity|]. apply le_n. }
        remember (kv0 :: d0) as d eqn:Ed. simpl in H.
        destruct (IHi p d ltac:(lia)) as [a [Ha La]].
        exists (PEx x a). split.
        { simpl. rewrite Ed. simpl isnil. cbv iota. rewrite <- Ed. rewrite Ha. reflexivity. }
        simpl. lia.
      * (* Mu *) destruct d as [|kv0 d0].
        { eexists. split; [reflexivity|]. apply le_n. }
        remember (kv0 :: d0) as d eqn:Ed. simpl in H.
        destruct (IHi p d ltac:(lia)) as [a [Ha La]].
        exists (PMu X a). split.
        { simpl. rewrite Ed. simpl isnil. cbv iota. rewrite <- Ed. rewrite Ha. reflexivity. }
        simpl. lia.
      * (* MVar *) simpl py_inst. eexists. split; [reflexivity|].
        simpl dm at 2. unfold E, ext.
        destruct (alookup id d) as [v|] eqn:El.
        { apply alookup_in in El.
          destruct (amax_in id (fun kv : N * ppat => dm (snd kv) one) d (id, v) El eq_refl) as [m [Hm Hle]].
          unfold dvals. rewrite Hm. exact Hle. }
        { assert (En : amax id (dvals one d) = None)
            by (apply (amax_none_iff id (fun kv : N * ppat => dm (snd kv) one)); exact El).
          rewrite En. simpl. unfold one. lia. }
      * (* ESub *) destruct d as [|kv0 d0].
        { eexists. split; [reflexivity|]. apply le_n. }
        remember (kv0 :: d0) as d eqn:Ed. simpl in H.
        destruct (IHi p1 d ltac:(lia)) as [a [Ha La]]. destruct (IHi p2 d ltac:(lia)) as [b [Hb Lb]].
        destruct (IHe a x b ltac:(lia)) as [c [Hc Lc]].
        exists c. split.
        { simpl. rewrite Ed. simpl isnil. cbv iota. rewrite <- Ed. rewrite Ha. simpl. rewrite Hb. simpl. exact Hc. }
        simpl. lia.
      * (* SSub *) destruct d as [|kv0 d0].
        { eexists. split; [reflexivity|]. apply le_n. }
        remember (kv0 :: d0) as d eqn:Ed. simpl in H.
        destruct (IHi p1 d ltac:(lia)) as [a [Ha La]]. destruct (IHi p2 d ltac:(lia)) as [b [Hb Lb]].
        destruct (IHs a X b ltac:(lia)) as [c [Hc Lc]].
        exists c. split.
        { simpl. rewrite Ed. simpl isnil. cbv iota. rewrite <- Ed. rewrite Ha. simpl. rewrite Hb. simpl. exact Hc. }
        simpl. lia.
      * (* Instantiate *)
        rename d0 into d1. rewrite dm_inst in H |- *.
        simpl py_inst. rewrite Hext. destruct d1 as [|kv1 d1'].
        { (* empty inst *)
          simpl isnil. cbv iota. simpl in H.
          assert (Hq : dm p (E d) <= n).
          { rewrite (dm_ext p (E d) (ext (E d) [])) by reflexivity. lia. }
          destruct (IHi p d Hq) as [a [Ha La]]. rewrite Ha. simpl. eexists. split; [reflexivity|].
          rewrite dm_inst. simpl dvals. simpl lmax.
          rewrite (dm_ext a (ext one []) one) by reflexivity.
          rewrite (dm_ext p (ext (E d) []) (E d)) by reflexivity. lia. }
        remember (kv1 :: d1') as d1 eqn:Ed1.
        assert (Hnn : isnil d1 = false) by (subst d1; reflexivity). rewrite Hnn.
        set (B := ext (E d) (dvals (E d) d1)) in *.
        assert (Hvals : forall kv, In kv d1 -> dm (snd kv) (E d) <= n).
        { intros kv Hin. assert (dm (snd kv) (E d) <= lmax (map snd (dvals (E d) d1))).
          { apply lmax_in. unfold dvals. rewrite map_map. apply in_map_iff. exists kv. auto. }
          lia. }
        destruct (map_opt_term n d IHi d1 Hvals) as [d'' [Hd'' HF]].
        rewrite Hd''. simpl. eexists. split; [reflexivity|].
        set (duf := filter (fun kv : N * ppat => mem (fst kv) (metavars p)) (unshadowed d d1)).
        rewrite dm_inst. apply le_n_S.
        assert (HB : forall k, ext one (dvals one (d'' ++ duf)) k <= B k).
        { intro k. unfold ext at 1. unfold dvals at 1. rewrite map_app, amax_app.
          pose proof (amax_mono2 k (fun kv : N * ppat => dm (snd kv) one) (fun kv : N * ppat => dm (snd kv) (E d)) d'' d1 HF) as M.
          unfold B, ext at 1. unfold dvals at 1.
          destruct (amax k (map (fun kv : N * ppat => (fst kv, dm (snd kv) (E d))) d1)) as [mB|] eqn:EB.
          - (* k is bound by the notation's own map: nothing unshadowed has this key *)
            destruct (amax k (map (fun kv : N * ppat => (fst kv, dm (snd kv) one)) d'')) as [mA|]; [|contradiction].
            assert (Ek : amax k (map (fun kv : N * ppat => (fst kv, dm (snd kv) one)) duf) = None).
            { apply (amax_none_iff k (fun kv : N * ppat => dm (snd kv) one)).
              apply alookup_filter_none. rewrite alookup_unshadowed, amem_alookup.
              destruct (alookup k d1) eqn:El; [reflexivity|].
              apply (amax_none_iff k (fun kv : N * ppat => dm (snd kv) (E d))) in El. congruence. }
            rewrite Ek. exact M.
          - destruct (amax k (map (fun kv : N * ppat => (fst kv, dm (snd kv) one)) d'')) as [mA|]; [contradiction|].
            destruct (amax k (map (fun kv : N * ppat => (fst kv, dm (snd kv) one)) duf)) as [m|] eqn:Ek.
            + unfold duf in Ek. apply amax_filter_le in Ek as [m1 [Hm1 L1]].
              unfold unshadowed in Hm1. apply amax_filter_le in Hm1 as [m2 [Hm2 L2]].
              unfold E at 1, ext, dvals. rewrite Hm2. lia.
            + apply E_pos. }
        apply Nat.max_lub.
        { etransitivity; [apply dm_mono; exact HB|]. apply Nat.le_max_l. }
        apply lmax_le. intros x Hx. unfold dvals in Hx. rewrite map_map in Hx.
        apply in_map_iff in Hx as [kv [<- Hin]]. simpl. apply in_app_or in Hin as [Hin|Hin].
        { destruct (Forall2_in_l _ _ _ _ HF Hin) as [kv' [Hin' [_ Hle]]].
          assert (dm (snd kv') (E d) <= lmax (map snd (dvals (E d) d1))).
          { apply lmax_in. unfold dvals. rewrite map_map. apply in_map_iff. exists kv'. auto. }
          lia. }
        { unfold duf in Hin. apply filter_In in Hin as [Hin Hmem]. apply mem_In in Hmem.
          unfold unshadowed in Hin. apply filter_In in Hin as [Hin Hsh]. apply negb_true_iff in Hsh.
          destruct (amax_in (fst kv) (fun kv0 : N * ppat => dm (snd kv0) one) d kv Hin eq_refl) as [m [Hm Hle]].
          assert (HBk : B (fst kv) = m).
          { unfold B, ext at 1.
            assert (En : amax (fst kv) (dvals (E d) d1) = None).
            { apply (amax_none_iff (fst kv) (fun kv0 : N * ppat => dm (snd kv0) (E d))).
              rewrite amem_alookup in Hsh. destruct (alookup (fst kv) d1); [discriminate|reflexivity]. }
            rewrite En. unfold E, ext, dvals. rewrite Hm. reflexivity. }
          pose proof (dm_ge_env p B (fst kv) Hmem) as G. rewrite HBk in G. lia. }
    + (* ---------- py_esubst ---------- *)
      intros r x g H. destruct r.
      * eexists. split; [reflexivity|]. simpl. destruct (N.eqb x n0); simpl; lia.
      * eexists. split; [reflexivity|]. simpl. lia.
      * eexists. split; [reflexivity|]. simpl. lia.
      * simpl in H. destruct (IHe r1 x g ltac:(lia)) as [a [Ha La]]. destruct (IHe r2 x g ltac:(lia)) as [b [Hb Lb]].
        exists (PImp a b). split; [simpl; rewrite Ha; simpl; rewrite Hb; reflexivity|]. simpl. lia.
      * simpl in H. destruct (IHe r1 x g ltac:(lia)) as [a [Ha La]]. destruct (IHe r2 x g ltac:(lia)) as [b [Hb Lb]].
        exists (PApp a b). split; [simpl; rewrite Ha; simpl; rewrite Hb; reflexivity|]. simpl. lia.
      * simpl in H. simpl py_esubst. destruct (N.eqb x x0).
        { eexists. split; [reflexivity|]. simpl. lia. }
        destruct (IHe r x g ltac:(lia)) as [a [Ha La]]. rewrite Ha. eexists. split; [reflexivity|]. simpl. lia.
      * simpl in H. simpl py_esubst.
        destruct (IHe r x g ltac:(lia)) as [a [Ha La]]. rewrite Ha. eexists. split; [reflexivity|]. simpl. lia.
      * eexists. split; [reflexivity|]. destruct (negb (f_mv_keep_subst f) && mem x ef); cbn [dm]; unfold one; lia.
      * eexists. split; [reflexivity|]. simpl. lia.
      * eexists. split; [reflexivity|]. simpl. lia.
      * assert (HD : dm (PInst r d) one = S (Nat.max (dm r (E d)) (lmax (map snd (dvals one d))))) by reflexivity.
        rewrite HD in H. simpl py_esubst.
        destruct (IHi r d ltac:(lia)) as [a [Ha La]]. rewrite Ha. cbn [bind].
        destruct (IHe a x g ltac:(lia)) as [b [Hb Lb]]. exists b. split; [exact Hb|].
        rewrite HD. lia.
    + (* ---------- py_ssubst ---------- *)
      intros r x g H. destruct r.
      * eexists. split; [reflexivity|]. simpl. lia.
      * eexists. split; [reflexivity|]. simpl. destruct (N.eqb x n0); simpl; lia.
      * eexists. split; [reflexivity|]. simpl. lia.
      * simpl in H. destruct (IHs r1 x g ltac:(lia)) as [a [Ha La]]. destruct (IHs r2 x g ltac:(lia)) as [b [Hb Lb]].
        exists (PImp a b). split; [simpl; rewrite Ha; simpl; rewrite Hb; reflexivity|]. simpl. lia.
      * simpl in H. destruct (IHs r1 x g ltac:(lia)) as [a [Ha La]]. destruct (IHs r2 x g ltac:(lia)) as [b [Hb Lb]].
        exists (PApp a b). split; [simpl; rewrite Ha; simpl; rewrite Hb; reflexivity|]. simpl. lia.
      * simpl in H. simpl py_ssubst.
        destruct (IHs r x g ltac:(lia)) as [a [Ha La]]. rewrite Ha. eexists. split; [reflexivity|]. simpl. lia.
      * simpl in H. simpl py_ssubst. destruct (N.eqb x X).
        { eexists. split; [reflexivity|]. simpl. lia. }
        destruct (IHs r x g ltac:(lia)) as [a [Ha La]]. rewrite Ha. eexists. split; [reflexivity|]. simpl. lia.
      * eexists. split; [reflexivity|]. destruct (negb (f_mv_keep_subst f) && mem x sf); cbn [dm]; unfold one; lia.
      * eexists. split; [reflexivity|]. simpl. lia.
      * eexists. split; [reflexivity|]. simpl. lia.
      * assert (HD : dm (PInst r d) one = S (Nat.max (dm r (E d)) (lmax (map snd (dvals one d))))) by reflexivity.
        rewrite HD in H. simpl py_ssubst.
        destruct (IHi r d ltac:(lia)) as [a [Ha La]]. rewrite Ha. cbn [bind].
        destruct (IHs a x g ltac:(lia)) as [b [Hb Lb]]. exists b. split; [exact Hb|].
        rewrite HD. lia.
Qed.

End WithFlags.

(** ================= the functions of the property theorems return ================= *)
From Pi2 Require Import Py.MatchFacts.
Close Scope N_scope.

Section Top.
Variable f : pyflags.
Hypothesis Hext : f_inst_extend f = true.

Theorem py_inst_terminates n p d : dm p (E d) <= n ->
  exists r, py_inst f n p d = Some r /\ dm r one <= dm p (E d).
Proof. apply (ops_term f Hext n). Qed.
Theorem py_esubst_terminates n r x g : dm r one <= n ->
  exists r', py_esubst f n r x g = Some r' /\ dm r' one <= dm r one + dm g one + 1.
Proof. apply (ops_term f Hext n). Qed.
Theorem py_ssubst_terminates n r x g : dm r one <= n ->
  exists r', py_ssubst f n r x g = Some r' /\ dm r' one <= dm r one + dm g one + 1.
Proof. apply (ops_term f Hext n). Qed.

Lemma dm_one_le_E q d : dm q one <= dm q (E d).
Proof. apply dm_mono. intro k. apply E_pos. Qed.

Lemma dm_inst_one q d : dm (PInst q d) one = S (Nat.max (dm q (E d)) (lmax (map snd (dvals one d)))).
Proof. reflexivity. Qed.

(** one simplification step strictly decreases the measure *)
Theorem simplify_terminates n q d : dm (PInst q d) one <= S n ->
  exists r, py_inst f n q d = Some r /\ dm r one < dm (PInst q d) one.
Proof.
  rewrite dm_inst_one. intro H. destruct (py_inst_terminates n q d ltac:(lia)) as [r [Hr L]].
  exists r. split; [exact Hr|lia].
Qed.

Theorem hnf_terminates : forall n p, dm p one <= n ->
  exists h, hnf f n p = Some h /\ dm h one <= dm p one /\ is_inst h = false.
Proof.
  induction n as [|n IH]; intros p H.
  - pose proof (dm_pos p one (fun _ => le_n 1)). lia.
  - destruct p; try (eexists; split; [reflexivity|split; [lia|reflexivity]]).
    destruct (simplify_terminates n p d H) as [r [Hr L]].
    destruct (IH r ltac:(lia)) as [h [Hh [L2 Hi]]].
    exists h. split; [simpl; rewrite Hr; exact Hh|]. split; [lia|exact Hi].
Qed.

Theorem py_eq_terminates : forall n a b, dm a one + dm b one <= n -> exists r, py_eq f n a b = Some r.
Proof.
  induction n as [|n IH]; intros a b H.
  - pose proof (dm_pos a one (fun _ => le_n 1)). lia.
  - pose proof (dm_pos a one (fun _ => le_n 1)) as Pa. pose proof (dm_pos b one (fun _ => le_n 1)) as Pb.
    destruct a.
    11: { destruct (simplify_terminates n a d ltac:(lia)) as [r [Hr L]].
          destruct (IH r b ltac:(lia)) as [e He]. exists e. simpl. rewrite Hr. exact He. }
    all: destruct b.
    all: try (eexists; reflexivity).
    all: try (match goal with |- context [PInst ?q ?d] =>
                destruct (simplify_terminates n q d ltac:(lia)) as [r [Hr L]];
                match goal with |- exists _, py_eq _ _ ?a _ = _ =>
                  destruct (IH r a ltac:(lia)) as [e He]; exists e; simpl; rewrite Hr; exact He end end).
    + (* Imp *) simpl in H. destruct (IH a1 b1 ltac:(lia)) as [e1 H1]. simpl. rewrite H1. simpl.
      destruct e1; [apply IH; lia|eexists; reflexivity].
    + (* App *) simpl in H. destruct (IH a1 b1 ltac:(lia)) as [e1 H1]. simpl. rewrite H1. simpl.
      destruct e1; [apply IH; lia|eexists; reflexivity].
    + (* Ex *) simpl in H. simpl. destruct (N.eqb x x0); [apply IH; lia|eexists; reflexivity].
    + (* Mu *) simpl in H. simpl. destruct (N.eqb X X0); [apply IH; lia|eexists; reflexivity].
    + (* ESub *) simpl in H. destruct (IH a1 b1 ltac:(lia)) as [e1 H1]. simpl. rewrite H1. simpl.
      destruct (e1 && N.eqb x x0); [apply IH; lia|eexists; reflexivity].
    + (* SSub *) simpl in H. destruct (IH a1 b1 ltac:(lia)) as [e1 H1]. simpl. rewrite H1. simpl.
      destruct (e1 && N.eqb X X0); [apply IH; lia|eexists; reflexivity].
Qed.

Theorem py_fresh_terminates : forall n p x, dm p one <= n -> exists r, py_fresh f n p x = Some r.
Proof.
  induction n as [|n IH]; intros p x H.
  - pose proof (dm_pos p one (fun _ => le_n 1)). lia.
  - destruct p; simpl in H; try (eexists; reflexivity).
    + destruct (IH p1 x ltac:(lia)) as [e1 H1]. simpl. rewrite H1. simpl. destruct e1; [apply IH; lia|eexists; reflexivity].
    + destruct (IH p1 x ltac:(lia)) as [e1 H1]. simpl. rewrite H1. simpl. destruct e1; [apply IH; lia|eexists; reflexivity].
    + simpl. destruct (N.eqb x x0); [eexists; reflexivity|apply IH; lia].
    + simpl. apply IH. lia.
    + simpl. destruct (N.eqb x0 x); [apply IH; lia|].
      destruct (IH p1 x ltac:(lia)) as [e1 H1]. rewrite H1. simpl. destruct e1; [apply IH; lia|eexists; reflexivity].
    + simpl. destruct (IH p1 x ltac:(lia)) as [e1 H1]. rewrite H1. simpl. destruct e1; [apply IH; lia|eexists; reflexivity].
    + change (dm (PInst p d) one <= S n) in H. rewrite dm_inst_one in H. simpl py_fresh.
      destruct (f_fresh_simplify f).
      * destruct (py_inst_terminates n p d ltac:(lia)) as [r [Hr L]]. rewrite Hr. simpl. apply IH. lia.
      * pose proof (dm_one_le_E p d). destruct (IH p x ltac:(lia)) as [e1 H1]. rewrite H1. simpl.
        destruct e1; [eexists; reflexivity|].
        assert (Hv : forall kv, In kv d -> dm (snd kv) one <= n).
        { intros kv Hin. assert (dm (snd kv) one <= lmax (map snd (dvals one d))).
          { apply lmax_in. unfold dvals. rewrite map_map. apply in_map_iff. exists kv. auto. }
          lia. }
        clear H H0 H1. induction d as [|kv d IHd]; [eexists; reflexivity|].
        destruct (IH (snd kv) x (Hv kv (or_introl eq_refl))) as [e2 H2]. rewrite H2. simpl.
        destruct e2; [eexists; reflexivity|]. apply IHd. intros kv0 Hin. apply Hv. right. exact Hin.
Qed.

(** matching: [W] bounds the instance and every binding *)
Theorem match_single_terminates : forall n p i ret W,
  dm p one + dm i one + W <= n -> dm i one <= W ->
  (forall kv, In kv ret -> dm (snd kv) one <= W) ->
  exists res, match_single f n p i ret = Some res /\
    forall th, res = Some th -> forall kv, In kv th -> dm (snd kv) one <= W.
Proof.
  induction n as [|n IH]; intros p i ret W H Hi Hret.
  - pose proof (dm_pos p one (fun _ => le_n 1)). lia.
  - pose proof (dm_pos p one (fun _ => le_n 1)) as Pp. pose proof (dm_pos i one (fun _ => le_n 1)) as Pi.
    destruct (is_mvar p) eqn:Emv.
    + destruct p; try discriminate. simpl match_single.
      destruct (alookup id ret) as [v|] eqn:El.
      * apply alookup_in in El. pose proof (Hret _ El) as Hv. simpl in Hv.
        destruct (py_eq_terminates n v i ltac:(lia)) as [e He]. rewrite He. simpl.
        eexists. split; [reflexivity|]. intros th Hth. destruct e; inversion Hth; subst. exact Hret.
      * eexists. split; [reflexivity|]. intros th Hth. inversion Hth; subst. intros kv Hin.
        apply in_app_or in Hin as [Hin|[<-|[]]]; auto.
    + rewrite (match_single_S f _ _ _ _ Emv). unfold body.
      destruct (f_match_simplify f && is_inst p) eqn:Ems.
      * apply andb_true_iff in Ems as [_ Hinst]. destruct p; try discriminate.
        destruct (simplify_terminates n p d ltac:(lia)) as [r [Hr L]].
        simpl simplify. rewrite Hr. simpl. apply IH; auto. lia.
      * destruct (hnf_terminates n p ltac:(lia)) as [hp [Hhp [Lp _]]].
        destruct (hnf_terminates n i ltac:(lia)) as [hi [Hhi [Li _]]].
        rewrite Hhp. simpl. rewrite Hhi. simpl.
        assert (Hnone : exists res : option delta, Some (@None delta) = Some res /\
                  forall th, res = Some th -> forall kv : N * ppat, In kv th -> dm (snd kv) one <= W).
        { eexists. split; [reflexivity|]. intros th Hth. discriminate. }
        assert (Hsame : forall c : bool, exists res : option delta, Some (if c then Some ret else @None delta) = Some res /\
                  forall th, res = Some th -> forall kv : N * ppat, In kv th -> dm (snd kv) one <= W).
        { intro c. eexists. split; [reflexivity|]. intros th Hth. destruct c; inversion Hth; subst. exact Hret. }
        destruct hp; destruct hi; simpl dispatch; auto; simpl in Lp, Li.
        -- (* Imp *) destruct (IH hp1 hi1 ret W ltac:(lia) ltac:(lia) Hret) as [r1 [H1 I1]]. rewrite H1. simpl.
           destruct r1 as [ret'|]; [|exact Hnone]. apply IH; try lia. exact (I1 _ eq_refl).
        -- (* App *) destruct (IH hp1 hi1 ret W ltac:(lia) ltac:(lia) Hret) as [r1 [H1 I1]]. rewrite H1. simpl.
           destruct r1 as [ret'|]; [|exact Hnone]. apply IH; try lia. exact (I1 _ eq_refl).
        -- (* Ex *) destruct (N.eqb x x0); [|exact Hnone]. apply IH; auto; lia.
        -- (* Mu *) destruct (N.eqb X X0); [|exact Hnone]. apply IH; auto; lia.
Qed.

Theorem match_list_terminates n : forall eqs ret W,
  (forall e, In e eqs -> dm (fst e) one + dm (snd e) one + W <= n /\ dm (snd e) one <= W) ->
  (forall kv, In kv ret -> dm (snd kv) one <= W) ->
  exists res, match_list f n eqs ret = Some res.
Proof.
  induction eqs as [|e eqs IH]; intros ret W He Hret; simpl; [eexists; reflexivity|].
  destruct (He e (or_introl eq_refl)) as [H1 H2].
  destruct (match_single_terminates n (fst e) (snd e) ret W H1 H2 Hret) as [r [Hr Ir]]. rewrite Hr. simpl.
  destruct r as [ret'|]; [|eexists; reflexivity].
  destruct (negb (f_match_list_none f) && isnil ret'); [eexists; reflexivity|].
  apply (IH ret' W); [intros e0 Hin; apply He; right; exact Hin|exact (Ir _ eq_refl)].
Qed.

Theorem nassert_terminates n nt p : dm (nt_def nt) one + dm p one + dm p one <= n ->
  exists res, nassert f n nt p = Some res.
Proof.
  intro H. unfold nassert, nmatches.
  destruct (match_single_terminates n (nt_def nt) p [] (dm p one) H (le_n _) (fun kv Hin => match Hin with end)) as [r [Hr _]].
  rewrite Hr. simpl. eexists. reflexivity.
Qed.

Theorem basic_mp_terminates n L R : dm L one + dm R one <= n -> exists res, basic_mp f n L R = Some res.
Proof.
  intro H. unfold basic_mp, unwrap_imp.
  destruct (hnf_terminates n L ltac:(lia)) as [h [Hh [Lh _]]]. rewrite Hh. simpl.
  destruct h; try (eexists; reflexivity). simpl in Lh.
  destruct (py_eq_terminates n h1 R ltac:(lia)) as [e He]. rewrite He. simpl. eexists. reflexivity.
Qed.
Theorem basic_gen_terminates n C x : dm C one <= n -> exists res, basic_gen f n C x = Some res.
Proof.
  intro H. unfold basic_gen, unwrap_imp.
  destruct (hnf_terminates n C H) as [h [Hh [Lh _]]]. rewrite Hh. simpl.
  destruct h; try (eexists; reflexivity). simpl in Lh.
  destruct (py_fresh_terminates n h2 x ltac:(lia)) as [e He]. rewrite He. simpl. eexists. reflexivity.
Qed.
Theorem basic_inst_terminates n C d : dm C (E d) <= n -> exists c, basic_inst f n C d = Some c.
Proof.
  intro H. unfold basic_inst. destruct (isnil d); [eexists; reflexivity|].
  destruct (py_inst_terminates n C d H) as [r [Hr _]]. eauto.
Qed.

End Top.

(** Extraction of the proof-term / interpreter model (PTerm) for the C08 and C02 correspondence checks.
    Directives: [ExtrOcamlBasic] only.  N/positive/nat stay Coq inductives. *)
From Coq Require Import Extraction ExtrOcamlBasic.
From Pi2 Require Import ML.Syntax ML.Subst ML.Machine PTerm.Model.
Extraction Language OCaml.
Extraction "pterm_model.ml" static_conc run_basic stack_calls st_run ser_run pretty_run count_run run compile
  serialize count_module verify guards_sound guards_pinned py_inst py_esubst py_ssubst pat_eqb
  module_ok pat_wf wf_for_checker inst_agree dynamic loads_in_axioms proof_ok inst pat_positive is_redundant_subst is_meta_head.

(** Extraction of the C15 model (MM15/Codec.v) for the correspondence check.
    Directives: [ExtrOcamlBasic] only.  N/positive/nat stay Coq inductives. *)
From Coq Require Import Extraction ExtrOcamlBasic.
From Pi2 Require Import MM15.Codec MM15.Replay.
Extraction Language OCaml.
Extraction "mm15_model.ml" is_space lex_space decode_word encode split_steps parse_lemmas split_proof
  import_proof tokenize proof_field mandatory import_statement classify lookup appendixB_decode appendixB_stream replay_marks_N.

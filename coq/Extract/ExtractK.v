(** Extraction of the K model (M6) for the C20 correspondence check.
    Directives: [ExtrOcamlBasic] only.  string/ascii/N/positive/nat stay Coq inductives. *)
From Coq Require Import Extraction ExtrOcamlBasic.
From Pi2 Require Import K.Kore K.Exec.
Extraction Language OCaml.
Extraction "k_model.ml" convert convert_pattern scope0 gen_module from_hints load_axioms hints_of_trace
  match_rewrites inst kpat_eqb ksubst guards_sound guards_pinned.

(** Extraction of the tautology-prover model (C09) for the correspondence check.
    Directives: [ExtrOcamlBasic] only.  N/positive/Z/nat stay Coq inductives. *)
From Coq Require Import Extraction ExtrOcamlBasic.
From Pi2 Require Import Taut.Model Taut.PLModel.
Extraction Language OCaml.
Extraction "taut_model.ml" expand to_conj_form propag_neg to_cnf to_clauses mkset resolvable is_trivial
  start_resolution decide simplify_clause build_term tt cf_tt clauses_tt d6_witness tcfp pnp to_cnf_p to_clauses_p prove_tautology_p start_resolution_p spec_pieces model_pieces s_merge clause_core s_simplify s_trivial or_move_to_front.

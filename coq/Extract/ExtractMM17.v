(** Extraction of the C17 model (MM17) for the correspondence check.
    Directives: [ExtrOcamlBasic] only; [string]/[ascii]/[nat] stay Coq inductives. *)
From Coq Require Import Extraction ExtrOcamlBasic.
From Pi2 Require Import MM17.Ast MM17.Print MM17.Parse MM17.Wf MM17.Slice MM17.SliceSpec MM17.Verify MM17.VerifySpec.
Extraction Language OCaml.
Extraction "mm17_model.ml" print_db parse_db wf_db slice_database slice sguards_fixed sguards_pinned
  consistent declares_all mm_verify scope_agree sym_disjoint compressed_lemma.

(** Extraction of the checker model (M1) for the correspondence check.
    Directives: [ExtrOcamlBasic] only (bool, option, unit, list, prod, sumbool -> OCaml's own;
    andb/orb/negb/fst/snd inlined as it ships).  N/positive/nat stay Coq inductives. *)
From Coq Require Import Extraction ExtrOcamlBasic.
From Pi2 Require Import ML.Syntax ML.Subst ML.Machine Doc.Machine.
Extraction Language OCaml.
Extraction "ml_model.ml" pat_eqb e_fresh s_fresh pat_positive pat_negative well_formed
  guards_sound guards_pinned apply_esubst apply_ssubst inst exec verify st0
  doc_wf doc_exec doc_verify.

(** Extraction of the C16 models (reference verifier, converter image, translator) for the
    correspondence check.  [ExtrOcamlBasic] only; N/positive/nat stay Coq inductives. *)
From Coq Require Import Extraction ExtrOcamlBasic.
From Pi2 Require Import ML.Syntax ML.Subst ML.Machine MM16.Verify MM16.Convert MM16.Instr MM16.Translate MM16.Fragment.
Extraction Language OCaml.
Extraction "mm16_model.ml" mm_verify translate_gen spec_images verify guards_sound img env_of in_fragment.

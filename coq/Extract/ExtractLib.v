(** Extraction of the translated library model (Gen/PropLib.v) for the C10 correspondence check.
    ExtrOcamlBasic only; N/positive/nat stay Coq inductives. *)
From Coq Require Import Extraction ExtrOcamlBasic.
From Pi2 Require Import ML.Syntax ML.Subst Lib.Term Gen.PropLib Lib.NthDef.
Extraction Language OCaml.
Extraction "lib_model.ml" pat_eqb dispatch static_conc uses_only trace psize conc term_of
  tautology_axioms propositional_axioms all_class_axioms n_entry_points match_single conj_nth.

(** Extraction of the C18 finalize model (Det/Finalize.v, Det/ConverterModel.v).  ExtrOcamlBasic only. *)
From Coq Require Import Extraction ExtrOcamlBasic.
From Pi2 Require Import Det.Finalize Det.ConverterModel.
Extraction Language OCaml.
Extraction "det_model.ml" finalize ord_id ord_rev ord_rot memo_decision sort_str metavars_in_order unlink_all unambiguize_numbers.

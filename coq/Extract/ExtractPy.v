(** Extraction of the generator-pattern model (M3) for the correspondence checks of C06/C07/C11/C12/C13/C19.
    Directives: [ExtrOcamlBasic] only.  N/positive/nat stay Coq inductives. *)
From Coq Require Import Extraction ExtrOcamlBasic.
From Pi2 Require Import ML.Syntax Py.Pattern Py.Pretty Py.Serial.
Extraction Language OCaml.
Extraction "py_model.ml" flags_sound flags_pinned embed expand p_inst p_esubst p_ssubst
  py_inst py_esubst py_ssubst simplify hnf py_eq py_fresh metavars p_metavars
  match_single match_list ncall nmatches nassert
  unwrap_imp unwrap_app decon_evar decon_svar decon_sym decon_ex decon_mu
  basic_mp basic_gen basic_inst decon_nary unwrap_cls e_fresh pat_eqb
  pretty covers emits instrs_of pretty_step decode.

(** Extraction of the interpreter models (M4, coq/Interp) for the correspondence checks of
    C14, C04, C03.  Directives: [ExtrOcamlBasic] only; N/positive/nat stay Coq inductives. *)
From Coq Require Import Extraction ExtrOcamlBasic.
From Pi2 Require Import ML.Syntax ML.Subst ML.Machine ML.Journal Interp.Calls Interp.Module.
Extraction Language OCaml.
Extraction "interp_model.ml" pat_eqb guards_sound exec verify st0 set_stack
  py_inst py_esubst py_ssubst fresh_tracker stateful_step ser_step ser_run3 emit
  dflags_fixed dflags_pinned deser numbering rn_tracker wf_code
  expand npat_eqb flat_axioms gamma_calls claim_calls mgamma_calls mclaim_calls mod_files
  gamma_axioms declared_claims.

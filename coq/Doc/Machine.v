(** M2: the machine described in docs/proof-language.md.

    The document gives (i) for every pattern class the judgement functions [e_fresh], [s_fresh],
    [positive], [negative] — transcribed line by line they coincide with lib.rs (ML/Syntax.v), which
    is also checked by the correspondence — and a *recursive* [well_formed]; (ii) the verifier
    state (stack, memory, claims, three phases); (iii) the instruction semantics, with the rule
    "Each of these instructions checks that the constructed Term is well-formed before pushing
    onto the stack. Otherwise, execution aborts, and verification fails."

    The documented machine is therefore the instruction semantics of ML/Machine.v plus a recursive
    well-formedness check of every term an instruction constructs.  Readings chosen where the
    document is open or self-contradictory are listed in Doc/Deviations.v. *)
From Coq Require Import NArith List Bool.
From Pi2 Require Import ML.Syntax ML.Subst ML.Machine ML.Journal.
Import ListNotations.
Open Scope N_scope.

(** [well_formed()] of the document's classes, recursive as written *)
Fixpoint doc_wf (p:pat) : bool :=
  match p with
  | EVar _ | SVar _ | Sym _ => true
  | Imp l r | App l r => doc_wf l && doc_wf r
  | Ex _ q => doc_wf q
  | Mu X q => doc_wf q && pat_positive q X
  | MVar _ ef _ _ _ holes => negb (existsb (fun h => mem h ef) holes)
  | ESub q x plug =>
      is_meta_head q                       (* pattern: MetaVar | SSubst | ESubst *)
      && negb (pat_eqb (EVar x) plug)      (* if var == plug: return False *)
      && negb (e_fresh q x)                (* if pattern.e_fresh(var): return False *)
      && doc_wf q && doc_wf plug           (* return pattern.well_formed() and plug.well_formed() *)
  | SSub q X plug =>
      is_meta_head q && negb (pat_eqb (SVar X) plug) && negb (s_fresh q X) && doc_wf q && doc_wf plug
  end.

(** which instructions construct a term (as opposed to moving one) *)
Definition constructs (i:instr) : bool :=
  match i with
  | IEVar | ISVar | ISym | IImp | IApp | IMu | IEx | IMVar | ICleanMVar | IESub | ISSub
  | IProp1 | IProp2 | IProp3 | IQuant | IExistence | IMP | IGen | ISubst | IInst => true
  | IPop | ISave | ILoad | IPublish | IUnimpl => false
  end.

Definition top_wf (st:state) : bool :=
  match stack st with t :: _ => doc_wf (pat_of_term t) | [] => false end.

Definition doc_step_i (ph:phase) (i:instr) (bs:list N) (st:state) : option (list N * state) :=
  match step_i guards_sound ph i bs st with
  | Some (bs', st') => if constructs i then (if top_wf st' then Some (bs', st') else None) else Some (bs', st')
  | None => None
  end.

Definition doc_step (ph:phase) (op:N) (bs:list N) (st:state) : option (list N * state) :=
  match decode_op op with Some i => doc_step_i ph i bs st | None => None end.

Fixpoint doc_exec_fuel (fuel:nat) (ph:phase) (bs:list N) (st:state) : option state :=
  match bs with
  | [] => Some st
  | op::rest =>
      match fuel with
      | O => None
      | S f => match doc_step ph op rest st with
               | Some (rest', st') => doc_exec_fuel f ph rest' st'
               | None => None end
      end
  end.
Definition doc_exec (ph:phase) (bs:list N) (st:state) : option state := doc_exec_fuel (length bs) ph bs st.

Definition doc_verify (gamma claimsb proofb:list N) : option state :=
  match doc_exec Gamma gamma st0 with
  | Some s1 =>
      match doc_exec Claim claimsb (set_stack [] s1) with
      | Some s2 =>
          match doc_exec Proof proofb (set_stack [] s2) with
          | Some s3 => match claims s3 with [] => Some s3 | _ => None end
          | None => None end
      | None => None end
  | None => None end.

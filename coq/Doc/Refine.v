(** C05: relation between the documented machine (Doc/Machine.v) and the checker model
    (ML/Machine.v with guards_sound). *)
From Coq Require Import NArith PeanoNat List Bool Lia.
From Pi2 Require Import ML.Syntax ML.Subst ML.Machine ML.Facts ML.Journal Doc.Machine.
Import ListNotations.
Open Scope N_scope.

Notation gs := guards_sound.

Lemma instr_eq_dec (a b:instr) : {a = b} + {a <> b}.
Proof. decide equality. Defined.

(** ** 1. the documented machine only removes behaviours *)
Lemma doc_step_i_code ph i bs st r : doc_step_i ph i bs st = Some r -> step_i gs ph i bs st = Some r.
Proof.
  unfold doc_step_i. destruct (step_i gs ph i bs st) as [[bs' st']|]; [|discriminate].
  destruct (constructs i); [destruct (top_wf st')|]; intros H; try discriminate; exact H.
Qed.

Lemma doc_exec_fuel_code f : forall ph bs st st', doc_exec_fuel f ph bs st = Some st' -> exec_fuel gs f ph bs st = Some st'.
Proof.
  induction f as [|f IH]; intros ph bs st st'; destruct bs as [|op rest]; simpl; try (intros H; exact H).
  unfold doc_step, step. destruct (decode_op op) as [i|]; [|discriminate].
  destruct (doc_step_i ph i rest st) as [[rest' st1]|] eqn:E; [|discriminate].
  rewrite (doc_step_i_code _ _ _ _ _ E). apply IH.
Qed.

Theorem doc_verify_code gamma cl pr st : doc_verify gamma cl pr = Some st -> verify gs gamma cl pr = Some st.
Proof.
  unfold doc_verify, verify, doc_exec, exec.
  destruct (doc_exec_fuel (length gamma) Gamma gamma st0) as [s1|] eqn:E1; [|discriminate].
  rewrite (doc_exec_fuel_code _ _ _ _ _ E1).
  destruct (doc_exec_fuel (length cl) Claim cl (set_stack [] s1)) as [s2|] eqn:E2; [|discriminate].
  rewrite (doc_exec_fuel_code _ _ _ _ _ E2).
  destruct (doc_exec_fuel (length pr) Proof pr (set_stack [] s2)) as [s3|] eqn:E3; [|discriminate].
  rewrite (doc_exec_fuel_code _ _ _ _ _ E3). intros H; exact H.
Qed.

(** ** 2. invariant of the documented machine: every term it holds is well-formed (recursively) *)
Definition twf (t:term) : Prop := doc_wf (pat_of_term t) = true.
Definition WF (st:state) : Prop := Forall twf (stack st) /\ Forall twf (memory st).

Lemma pop_pat_wf s p s' : Forall twf s -> pop_pat s = Some (p, s') -> doc_wf p = true /\ Forall twf s'.
Proof. destruct s as [|[q|q] s0]; simpl; intros H E; try discriminate. inversion E; subst. inversion H; subst. split; assumption. Qed.
Lemma pop_proved_wf s p s' : Forall twf s -> pop_proved s = Some (p, s') -> doc_wf p = true /\ Forall twf s'.
Proof. destruct s as [|[q|q] s0]; simpl; intros H E; try discriminate. inversion E; subst. inversion H; subst. split; assumption. Qed.
Lemma take_ids_wf strict n : forall bs s ids plugs r s', Forall twf s ->
  take_ids strict n bs s = Some (ids, plugs, r, s') -> Forall twf s'.
Proof.
  induction n as [|n IH]; intros bs s ids plugs r s' Hs; simpl.
  - intros H; inversion H; subst. exact Hs.
  - destruct bs as [|b bs].
    + destruct strict; [discriminate|]. intros H; inversion H; subst. exact Hs.
    + destruct (pop_pat s) as [[p s1]|] eqn:Ep; [|discriminate].
      destruct (take_ids strict n bs s1) as [[[[i pl] r'] s'']|] eqn:E; [|discriminate].
      intros H; inversion H; subst. destruct (pop_pat_wf _ _ _ Hs Ep) as [_ Hs1]. eapply IH; eassumption.
Qed.

(** the rest of the stack (below the new top) and the memory stay well-formed under every instruction *)
Lemma step_i_frame ph i bs st bs' st' :
  WF st -> step_i gs ph i bs st = Some (bs', st') ->
  Forall twf (tl (stack st')) /\ Forall twf (memory st') /\ (constructs i = false -> Forall twf (stack st')).
Proof.
  intros [Hs Hm] E. destruct i; simpl in E; simpl constructs.
  - destruct bs; [discriminate|]. inversion E; subst. simpl. repeat split; auto; discriminate.
  - destruct bs; [discriminate|]. inversion E; subst. simpl. repeat split; auto; discriminate.
  - destruct bs; [discriminate|]. inversion E; subst. simpl. repeat split; auto; discriminate.
  - destruct (pop_pat (stack st)) as [[r0 s1]|] eqn:E1; [|discriminate].
    destruct (pop_pat s1) as [[l0 s2]|] eqn:E2; [|discriminate]. inversion E; subst. simpl.
    destruct (pop_pat_wf _ _ _ Hs E1) as [_ H1]. destruct (pop_pat_wf _ _ _ H1 E2) as [_ H2]. repeat split; auto; discriminate.
  - destruct (pop_pat (stack st)) as [[r0 s1]|] eqn:E1; [|discriminate].
    destruct (pop_pat s1) as [[l0 s2]|] eqn:E2; [|discriminate]. inversion E; subst. simpl.
    destruct (pop_pat_wf _ _ _ Hs E1) as [_ H1]. destruct (pop_pat_wf _ _ _ H1 E2) as [_ H2]. repeat split; auto; discriminate.
  - destruct bs; [discriminate|]. destruct (pop_pat (stack st)) as [[q s1]|] eqn:E1; [|discriminate].
    destruct (pat_positive q n); [|discriminate]. inversion E; subst. simpl.
    destruct (pop_pat_wf _ _ _ Hs E1) as [_ H1]. repeat split; auto; discriminate.
  - destruct bs; [discriminate|]. destruct (pop_pat (stack st)) as [[q s1]|] eqn:E1; [|discriminate].
    inversion E; subst. simpl. destruct (pop_pat_wf _ _ _ Hs E1) as [_ H1]. repeat split; auto; discriminate.
  - destruct bs as [|id r0]; [discriminate|].
    destruct (read_vec r0) as [[ef r1]|]; [|discriminate]. destruct (read_vec r1) as [[sf r2]|]; [|discriminate].
    destruct (read_vec r2) as [[ps r3]|]; [|discriminate]. destruct (read_vec r3) as [[ng r4]|]; [|discriminate].
    destruct (read_vec r4) as [[hs r5]|]; [|discriminate].
    match type of E with (if ?c then _ else _) = _ => destruct c; [|discriminate] end. inversion E; subst. simpl. repeat split; auto; discriminate.
  - destruct bs as [|x r]; [discriminate|].
    destruct (pop_pat (stack st)) as [[p s1]|] eqn:E1; [|discriminate].
    destruct (pop_pat s1) as [[plug s2]|] eqn:E2; [|discriminate].
    match type of E with (if ?c then _ else _) = _ => destruct c; [|discriminate] end. simpl in E. inversion E; subst. simpl.
    destruct (pop_pat_wf _ _ _ Hs E1) as [_ H1]. destruct (pop_pat_wf _ _ _ H1 E2) as [_ H2]. repeat split; auto; discriminate.
  - destruct bs as [|x r]; [discriminate|].
    destruct (pop_pat (stack st)) as [[p s1]|] eqn:E1; [|discriminate].
    destruct (pop_pat s1) as [[plug s2]|] eqn:E2; [|discriminate].
    match type of E with (if ?c then _ else _) = _ => destruct c; [|discriminate] end. inversion E; subst. simpl.
    destruct (pop_pat_wf _ _ _ Hs E1) as [_ H1]. destruct (pop_pat_wf _ _ _ H1 E2) as [_ H2]. repeat split; auto; discriminate.
  - inversion E; subst. simpl. repeat split; auto; discriminate.
  - inversion E; subst. simpl. repeat split; auto; discriminate.
  - inversion E; subst. simpl. repeat split; auto; discriminate.
  - inversion E; subst. simpl. repeat split; auto; discriminate.
  - inversion E; subst. simpl. repeat split; auto; discriminate.
  - destruct (pop_proved (stack st)) as [[p2 s1]|] eqn:E1; [|discriminate].
    destruct (pop_proved s1) as [[[] s2]|] eqn:E2; try discriminate.
    simpl in E. destruct (pat_eqb l p2); [|discriminate]. inversion E; subst. simpl.
    destruct (pop_proved_wf _ _ _ Hs E1) as [_ H1]. destruct (pop_proved_wf _ _ _ H1 E2) as [_ H2]. repeat split; auto; discriminate.
  - destruct (pop_proved (stack st)) as [[[] s1]|] eqn:E1; try discriminate.
    destruct bs as [|x rest]; [discriminate|]. simpl in E. destruct (e_fresh r x); [|discriminate]. inversion E; subst. simpl.
    destruct (pop_proved_wf _ _ _ Hs E1) as [_ H1]. repeat split; auto; discriminate.
  - destruct bs as [|X rest]; [discriminate|].
    destruct (pop_proved (stack st)) as [[p s1]|] eqn:E1; [|discriminate].
    destruct (pop_pat s1) as [[plug s2]|] eqn:E2; [|discriminate].
    destruct (apply_ssubst gs p X plug) as [q|]; [|discriminate]. inversion E; subst. simpl.
    destruct (pop_proved_wf _ _ _ Hs E1) as [_ H1]. destruct (pop_pat_wf _ _ _ H1 E2) as [_ H2]. repeat split; auto; discriminate.
  - destruct bs as [|n rest]; [discriminate|].
    destruct (stack st) as [|t s1] eqn:Est; [discriminate|].
    match type of E with context[take_ids ?a ?b ?c ?d] => destruct (take_ids a b c d) as [[[[ids plugs] rest'] s2]|] eqn:Et; [|discriminate] end.
    inversion Hs as [|t0 s0 Ht Hs1]; subst.
    pose proof (take_ids_wf _ _ _ _ _ _ _ _ Hs1 Et) as H2.
    destruct t as [p|p]; destruct (inst gs p ids plugs) as [q|]; try discriminate; inversion E; subst; simpl; repeat split; auto; discriminate.
  - destruct (stack st) as [|t s1] eqn:Est; [discriminate|]. inversion E; subst. simpl.
    inversion Hs; subst. repeat split; auto. destruct s1; [constructor|]. inversion H2; assumption.
  - destruct (stack st) as [|t s1] eqn:Est; [discriminate|]. inversion E; subst. simpl.
    inversion Hs; subst. simpl. repeat split; auto. apply Forall_app; split; [exact Hm | constructor; [assumption|constructor]].
  - destruct bs as [|i rest]; [discriminate|].
    destruct (nth_error (memory st) (N.to_nat i)) as [t|] eqn:En; [|discriminate]. inversion E; subst. simpl.
    apply nth_error_In in En. rewrite Forall_forall in Hm. pose proof (Hm _ En) as Ht. rewrite <- Forall_forall in Hm.
    repeat split; auto.
  - destruct ph.
    + destruct (pop_pat (stack st)) as [[p s1]|] eqn:E1; [|discriminate]. inversion E; subst. simpl.
      destruct (pop_pat_wf _ _ _ Hs E1) as [Hp H1]. repeat split; auto.
      * destruct s1; [constructor|]. inversion H1; assumption.
      * apply Forall_app; split; [exact Hm | constructor; [exact Hp|constructor]].
    + destruct (pop_pat (stack st)) as [[p s1]|] eqn:E1; [|discriminate]. inversion E; subst. simpl.
      destruct (pop_pat_wf _ _ _ Hs E1) as [Hp H1]. repeat split; auto. destruct s1; [constructor|]. inversion H1; assumption.
    + destruct (claims st) as [|c cs]; [discriminate|].
      destruct (pop_proved (stack st)) as [[p s1]|] eqn:E1; [|discriminate].
      destruct (pat_eqb c p); [|discriminate]. inversion E; subst. simpl.
      destruct (pop_proved_wf _ _ _ Hs E1) as [Hp H1]. repeat split; auto. destruct s1; [constructor|]. inversion H1; assumption.
  - destruct bs; [discriminate|]. inversion E; subst. simpl. repeat split; auto; discriminate.
  - discriminate.
Qed.

Lemma doc_step_i_WF ph i bs st bs' st' : WF st -> doc_step_i ph i bs st = Some (bs', st') -> WF st'.
Proof.
  intros HW E. unfold doc_step_i in E.
  destruct (step_i gs ph i bs st) as [[b1 s1]|] eqn:Es; [|discriminate].
  destruct (step_i_frame _ _ _ _ _ _ HW Es) as (Htl & Hmem & Hnc).
  destruct (constructs i) eqn:Ec.
  - unfold top_wf in E. destruct (stack s1) as [|t s] eqn:Est; [discriminate|].
    destruct (doc_wf (pat_of_term t)) eqn:Ew; [|discriminate]. inversion E; subst.
    split; [rewrite Est; constructor; [exact Ew | exact Htl] | exact Hmem].
  - inversion E; subst. split; [apply Hnc; reflexivity | exact Hmem].
Qed.

(** ** 3. on well-formed states the checker's top-level check coincides with the document's recursive
       check for every constructing instruction except Instantiate and Substitution *)
Lemma top_level_suffices ph i bs st bs' st' :
  WF st -> constructs i = true -> i <> IInst -> i <> ISubst ->
  step_i gs ph i bs st = Some (bs', st') -> top_wf st' = true.
Proof.
  intros [Hs Hm] Hc Hni Hns E. unfold top_wf. destruct i; simpl in E; try discriminate Hc; try congruence.
  - destruct bs; [discriminate|]. inversion E; subst. reflexivity.
  - destruct bs; [discriminate|]. inversion E; subst. reflexivity.
  - destruct bs; [discriminate|]. inversion E; subst. reflexivity.
  - destruct (pop_pat (stack st)) as [[r0 s1]|] eqn:E1; [|discriminate].
    destruct (pop_pat s1) as [[l0 s2]|] eqn:E2; [|discriminate]. inversion E; subst. simpl.
    destruct (pop_pat_wf _ _ _ Hs E1) as [Hr H1]. destruct (pop_pat_wf _ _ _ H1 E2) as [Hl _]. rewrite Hl, Hr. reflexivity.
  - destruct (pop_pat (stack st)) as [[r0 s1]|] eqn:E1; [|discriminate].
    destruct (pop_pat s1) as [[l0 s2]|] eqn:E2; [|discriminate]. inversion E; subst. simpl.
    destruct (pop_pat_wf _ _ _ Hs E1) as [Hr H1]. destruct (pop_pat_wf _ _ _ H1 E2) as [Hl _]. rewrite Hl, Hr. reflexivity.
  - destruct bs; [discriminate|]. destruct (pop_pat (stack st)) as [[q s1]|] eqn:E1; [|discriminate].
    destruct (pat_positive q n) eqn:Ep; [|discriminate]. inversion E; subst. simpl.
    destruct (pop_pat_wf _ _ _ Hs E1) as [Hq _]. rewrite Hq, Ep. reflexivity.
  - destruct bs; [discriminate|]. destruct (pop_pat (stack st)) as [[q s1]|] eqn:E1; [|discriminate].
    inversion E; subst. simpl. apply (pop_pat_wf _ _ _ Hs E1).
  - destruct bs as [|id r0]; [discriminate|].
    destruct (read_vec r0) as [[ef r1]|]; [|discriminate]. destruct (read_vec r1) as [[sf r2]|]; [|discriminate].
    destruct (read_vec r2) as [[ps r3]|]; [|discriminate]. destruct (read_vec r3) as [[ng r4]|]; [|discriminate].
    destruct (read_vec r4) as [[hs r5]|]; [|discriminate].
    match type of E with (if ?c then _ else _) = _ => destruct c eqn:Ew; [|discriminate] end. inversion E; subst. simpl. exact Ew.
  - destruct bs as [|x r]; [discriminate|].
    destruct (pop_pat (stack st)) as [[p s1]|] eqn:E1; [|discriminate].
    destruct (pop_pat s1) as [[plug s2]|] eqn:E2; [|discriminate].
    match type of E with (if ?c then _ else _) = _ => destruct c eqn:Ew; [|discriminate] end. simpl in E. inversion E; subst. simpl.
    destruct (pop_pat_wf _ _ _ Hs E1) as [Hp H1]. destruct (pop_pat_wf _ _ _ H1 E2) as [Hpl _].
    apply andb_true_iff in Ew as [Hr Hh]. apply negb_true_iff in Hr. apply orb_false_iff in Hr as [R1 R2].
    rewrite Hh, R1, R2, Hp, Hpl. reflexivity.
  - destruct bs as [|x r]; [discriminate|].
    destruct (pop_pat (stack st)) as [[p s1]|] eqn:E1; [|discriminate].
    destruct (pop_pat s1) as [[plug s2]|] eqn:E2; [|discriminate].
    match type of E with (if ?c then _ else _) = _ => destruct c eqn:Ew; [|discriminate] end. inversion E; subst. simpl.
    destruct (pop_pat_wf _ _ _ Hs E1) as [Hp H1]. destruct (pop_pat_wf _ _ _ H1 E2) as [Hpl _].
    apply andb_true_iff in Ew as [Hr Hh]. apply negb_true_iff in Hr. apply orb_false_iff in Hr as [R1 R2].
    rewrite Hh, R1, R2, Hp, Hpl. reflexivity.
  - inversion E; subst. reflexivity.
  - inversion E; subst. reflexivity.
  - inversion E; subst. reflexivity.
  - inversion E; subst. reflexivity.
  - inversion E; subst. reflexivity.
  - destruct (pop_proved (stack st)) as [[p2 s1]|] eqn:E1; [|discriminate].
    destruct (pop_proved s1) as [[[] s2]|] eqn:E2; try discriminate.
    simpl in E. destruct (pat_eqb l p2); [|discriminate]. inversion E; subst. simpl.
    destruct (pop_proved_wf _ _ _ Hs E1) as [_ H1]. destruct (pop_proved_wf _ _ _ H1 E2) as [Hi _].
    simpl in Hi. apply andb_true_iff in Hi. apply Hi.
  - destruct (pop_proved (stack st)) as [[[] s1]|] eqn:E1; try discriminate.
    destruct bs as [|x rest]; [discriminate|]. simpl in E. destruct (e_fresh r x); [|discriminate]. inversion E; subst. simpl.
    destruct (pop_proved_wf _ _ _ Hs E1) as [Hi _]. exact Hi.
  - destruct bs; [discriminate|]. inversion E; subst. reflexivity.
Qed.

(** ** 4. hence: documented machine = checker + a well-formedness check of the results of
       Instantiate and Substitution only *)
Definition rc_step_i (ph:phase) (i:instr) (bs:list N) (st:state) : option (list N * state) :=
  match step_i gs ph i bs st with
  | Some (bs', st') =>
      match i with
      | IInst | ISubst => if top_wf st' then Some (bs', st') else None
      | _ => Some (bs', st') end
  | None => None end.
Fixpoint rc_exec_fuel (fuel:nat) (ph:phase) (bs:list N) (st:state) : option state :=
  match bs with
  | [] => Some st
  | op::rest =>
      match fuel with
      | O => None
      | S f => match (match decode_op op with Some i => rc_step_i ph i rest st | None => None end) with
               | Some (rest', st') => rc_exec_fuel f ph rest' st'
               | None => None end
      end
  end.
Definition rc_verify (gamma claimsb proofb:list N) : option state :=
  match rc_exec_fuel (length gamma) Gamma gamma st0 with
  | Some s1 =>
      match rc_exec_fuel (length claimsb) Claim claimsb (set_stack [] s1) with
      | Some s2 =>
          match rc_exec_fuel (length proofb) Proof proofb (set_stack [] s2) with
          | Some s3 => match claims s3 with [] => Some s3 | _ => None end
          | None => None end
      | None => None end
  | None => None end.

Lemma doc_rc_step ph i bs st : WF st -> doc_step_i ph i bs st = rc_step_i ph i bs st.
Proof.
  intros HW. unfold doc_step_i, rc_step_i.
  destruct (step_i gs ph i bs st) as [[bs' st']|] eqn:E; [|reflexivity].
  destruct (constructs i) eqn:Ec.
  - destruct (instr_eq_dec i IInst) as [->|Hni]; [reflexivity|].
    destruct (instr_eq_dec i ISubst) as [->|Hns]; [reflexivity|].
    rewrite (top_level_suffices _ _ _ _ _ _ HW Ec Hni Hns E). destruct i; try reflexivity; congruence.
  - destruct i; try reflexivity; discriminate.
Qed.

Lemma doc_rc_exec_fuel f : forall ph bs st, WF st -> doc_exec_fuel f ph bs st = rc_exec_fuel f ph bs st.
Proof.
  induction f as [|f IH]; intros ph bs st HW; destruct bs as [|op rest]; simpl; try reflexivity.
  unfold doc_step. destruct (decode_op op) as [i|]; [|reflexivity].
  rewrite (doc_rc_step _ _ _ _ HW).
  destruct (rc_step_i ph i rest st) as [[rest' st1]|] eqn:E; [|reflexivity].
  apply IH. rewrite <- (doc_rc_step _ _ _ _ HW) in E. eapply doc_step_i_WF; eassumption.
Qed.

Lemma doc_exec_fuel_WF f : forall ph bs st st', WF st -> doc_exec_fuel f ph bs st = Some st' -> WF st'.
Proof.
  induction f as [|f IH]; intros ph bs st st' HW; destruct bs as [|op rest]; simpl; intros E; try (inversion E; subst; exact HW); try discriminate.
  unfold doc_step in E. destruct (decode_op op) as [i|]; [|discriminate].
  destruct (doc_step_i ph i rest st) as [[rest' st1]|] eqn:Es; [|discriminate].
  eapply IH; [|exact E]. eapply doc_step_i_WF; eassumption.
Qed.

Lemma WF_st0 : WF st0. Proof. split; constructor. Qed.
Lemma WF_set_stack_nil st : WF st -> WF (set_stack [] st).
Proof. intros [_ H]. split; [constructor | exact H]. Qed.

Theorem doc_verify_rc gamma cl pr : doc_verify gamma cl pr = rc_verify gamma cl pr.
Proof.
  unfold doc_verify, rc_verify, doc_exec.
  rewrite (doc_rc_exec_fuel _ _ _ _ WF_st0).
  destruct (rc_exec_fuel (length gamma) Gamma gamma st0) as [s1|] eqn:E1; [|reflexivity].
  assert (W1: WF s1). { rewrite <- (doc_rc_exec_fuel _ _ _ _ WF_st0) in E1. eapply doc_exec_fuel_WF; [apply WF_st0 | exact E1]. }
  rewrite (doc_rc_exec_fuel _ _ _ _ (WF_set_stack_nil _ W1)).
  destruct (rc_exec_fuel (length cl) Claim cl (set_stack [] s1)) as [s2|] eqn:E2; [|reflexivity].
  assert (W2: WF s2). { rewrite <- (doc_rc_exec_fuel _ _ _ _ (WF_set_stack_nil _ W1)) in E2. eapply doc_exec_fuel_WF; [apply WF_set_stack_nil, W1 | exact E2]. }
  rewrite (doc_rc_exec_fuel _ _ _ _ (WF_set_stack_nil _ W2)). reflexivity.
Qed.

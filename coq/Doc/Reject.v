(** C05, second half: malformed input is always rejected, never ignored.  All statements are about
    the checker model with the sound guards (= the documented machine by Doc/Refine.v). *)
From Coq Require Import NArith PeanoNat List Bool Lia.
From Pi2 Require Import ML.Syntax ML.Subst ML.Machine ML.Facts ML.Journal.
Import ListNotations.
Open Scope N_scope.
Notation gs := guards_sound.

(** an error anywhere aborts the whole run: nothing after it can repair it *)
Lemma exec_abort ph op rest st : step gs ph op rest st = None -> exec gs ph (op :: rest) st = None.
Proof. intros H. rewrite exec_cons, H. reflexivity. Qed.

Lemma exec_app_abort ph : forall pre st st1 op rest,
  exec gs ph pre st = Some st1 -> step gs ph op rest st1 = None ->
  (forall bs, exec gs ph (pre ++ bs) st = exec gs ph bs st1) ->
  exec gs ph (pre ++ op :: rest) st = None.
Proof. intros pre st st1 op rest _ Hs Hpre. rewrite Hpre. apply exec_abort, Hs. Qed.

(** unknown opcode *)
Lemma reject_unknown_opcode ph op bs st : decode_op op = None -> step gs ph op bs st = None.
Proof. unfold step. intros ->. reflexivity. Qed.

(** the six opcodes without semantics *)
Lemma reject_unimplemented ph op bs st : decode_op op = Some IUnimpl -> step gs ph op bs st = None.
Proof. unfold step. intros ->. reflexivity. Qed.

(** truncated operand: every operand-carrying instruction at the end of the stream *)
Definition has_operand (i:instr) : bool :=
  match i with
  | IEVar | ISVar | ISym | IMu | IEx | IMVar | ICleanMVar | IESub | ISSub | ISubst | IInst | ILoad => true
  | _ => false end.
Lemma reject_truncated_operand ph i st : has_operand i = true -> step_i gs ph i [] st = None.
Proof. destruct i; simpl; intros H; try discriminate H; try reflexivity. Qed.
(** Generalization reads its operand after popping: truncated => rejected as well *)
Lemma reject_truncated_generalization ph st : step_i gs ph IGen [] st = None.
Proof. simpl. destruct (pop_proved (stack st)) as [[[] ?]|]; reflexivity. Qed.

Lemma take_n_short n : forall bs, (length bs < n)%nat -> take_n n bs = None.
Proof.
  induction n as [|n IH]; intros bs H; [lia|]. destruct bs as [|b bs]; [reflexivity|]. simpl in *.
  rewrite IH by lia. reflexivity.
Qed.
Lemma read_vec_short len bs : (length bs < N.to_nat len)%nat -> read_vec (len :: bs) = None.
Proof. intros H. simpl. apply take_n_short, H. Qed.

(** MetaVar whose first constraint list is cut short *)
Lemma reject_truncated_metavar ph id len bs st :
  (length bs < N.to_nat len)%nat -> step_i gs ph IMVar (id :: len :: bs) st = None.
Proof. intros H. unfold step_i. rewrite (read_vec_short _ _ H). reflexivity. Qed.

(** Instantiate n with fewer than n ids left (D2) *)
Lemma take_ids_short n : forall bs s, (length bs < n)%nat -> take_ids true n bs s = None.
Proof.
  induction n as [|n IH]; intros bs s H; [lia|]. destruct bs as [|b bs]; [reflexivity|]. simpl in *.
  destruct (pop_pat s) as [[p s']|]; [|reflexivity]. rewrite IH by lia. reflexivity.
Qed.
Lemma reject_truncated_instantiate ph n bs st :
  (length bs < N.to_nat n)%nat -> step_i gs ph IInst (n :: bs) st = None.
Proof.
  intros H. simpl. destruct (stack st) as [|t s1]; [reflexivity|].
  rewrite (take_ids_short _ _ _ H). reflexivity.
Qed.

(** stack underflow: every consuming instruction on an empty stack *)
Definition consumes (i:instr) : bool :=
  match i with
  | IImp | IApp | IMu | IEx | IESub | ISSub | IMP | IGen | ISubst | IInst | IPop | ISave | IPublish => true
  | _ => false end.
Lemma reject_underflow ph i bs st : consumes i = true -> stack st = [] -> claims st <> [] \/ ph <> Proof \/ i <> IPublish ->
  step_i gs ph i bs st = None.
Proof.
  intros Hc Hs _. destruct i; simpl in *; try discriminate Hc; rewrite ?Hs; simpl; try reflexivity;
    try (destruct bs; reflexivity).
  destruct ph; simpl; try reflexivity. destruct (claims st); reflexivity.
Qed.

(** type confusion: a Proved term where a Pattern is required, and vice versa *)
Lemma reject_proved_as_pattern ph i bs st p s :
  stack st = TProved p :: s ->
  match i with IImp | IApp | IMu | IEx | IESub | ISSub => True | _ => False end ->
  step_i gs ph i bs st = None.
Proof. intros Hs Hi. destruct i; simpl in *; try contradiction; rewrite Hs; simpl; try reflexivity; destruct bs; reflexivity. Qed.
Lemma reject_pattern_as_proved ph i bs st p s :
  stack st = TPat p :: s ->
  match i with IMP | IGen | ISubst => True | _ => False end ->
  step_i gs ph i bs st = None.
Proof. intros Hs Hi. destruct i; simpl in *; try contradiction; rewrite Hs; simpl; try reflexivity; destruct bs; reflexivity. Qed.
Lemma reject_second_operand_confusion ph i bs st p q s :
  stack st = TPat p :: TProved q :: s ->
  match i with IImp | IApp | IESub | ISSub => True | _ => False end ->
  step_i gs ph i bs st = None.
Proof. intros Hs Hi. destruct i; simpl in *; try contradiction; rewrite Hs; simpl; try reflexivity; destruct bs; reflexivity. Qed.
Lemma reject_publish_confusion st bs p s :
  (stack st = TProved p :: s -> step_i gs Gamma IPublish bs st = None /\ step_i gs Claim IPublish bs st = None) /\
  (stack st = TPat p :: s -> step_i gs Proof IPublish bs st = None).
Proof. split; intros Hs; simpl; rewrite Hs; simpl; [split; reflexivity|]. destruct (claims st); reflexivity. Qed.
Lemma reject_instantiate_plug_confusion ph n id bs st t p s :
  stack st = t :: TProved p :: s -> n <> 0 -> step_i gs ph IInst (n :: id :: bs) st = None.
Proof.
  intros Hs Hn. simpl. rewrite Hs. destruct (N.to_nat n) eqn:E; [lia|]. simpl. reflexivity.
Qed.

(** bad memory index *)
Lemma reject_bad_memory_index ph i bs st : (length (memory st) <= N.to_nat i)%nat -> step_i gs ph ILoad (i :: bs) st = None.
Proof. intros H. simpl. apply nth_error_None in H. rewrite H. reflexivity. Qed.

(** modus ponens with a mismatching antecedent or a non-implication *)
Lemma reject_mp_mismatch ph bs st l r p2 s : stack st = TProved p2 :: TProved (Imp l r) :: s -> l <> p2 ->
  step_i gs ph IMP bs st = None.
Proof.
  intros Hs Hne. simpl. rewrite Hs. simpl. destruct (pat_eqb l p2) eqn:E; [apply pat_eqb_eq in E; contradiction | reflexivity].
Qed.
Lemma reject_generalization_not_fresh ph x bs st l r s : stack st = TProved (Imp l r) :: s -> e_fresh r x = false ->
  step_i gs ph IGen (x :: bs) st = None.
Proof. intros Hs Hf. simpl. rewrite Hs. simpl. rewrite Hf. reflexivity. Qed.

(** claim mismatch and missing claim in the proof phase; unproved claims at the end *)
Lemma reject_claim_mismatch bs st c cs p s : claims st = c :: cs -> stack st = TProved p :: s -> c <> p ->
  step_i gs Proof IPublish bs st = None.
Proof.
  intros Hc Hs Hne. simpl. rewrite Hc, Hs. simpl. destruct (pat_eqb c p) eqn:E; [apply pat_eqb_eq in E; contradiction | reflexivity].
Qed.
Lemma reject_no_claim_left bs st : claims st = [] -> step_i gs Proof IPublish bs st = None.
Proof. intros Hc. simpl. rewrite Hc. reflexivity. Qed.
Lemma reject_unproved_claims gamma cl pr s1 s2 s3 c cs :
  exec gs Gamma gamma st0 = Some s1 -> exec gs Claim cl (set_stack [] s1) = Some s2 ->
  exec gs Proof pr (set_stack [] s2) = Some s3 -> claims s3 = c :: cs -> verify gs gamma cl pr = None.
Proof. intros E1 E2 E3 Ec. unfold verify. rewrite E1, E2, E3, Ec. reflexivity. Qed.

(** ill-formed constructions *)
Lemma reject_nonpositive_mu ph X bs st q s : stack st = TPat q :: s -> pat_positive q X = false ->
  step_i gs ph IMu (X :: bs) st = None.
Proof. intros Hs Hp. simpl. rewrite Hs. simpl. rewrite Hp. reflexivity. Qed.
Lemma reject_illformed_esubst ph x bs st p plug s : stack st = TPat p :: TPat plug :: s ->
  well_formed (ESub p x plug) <> Some true -> step_i gs ph IESub (x :: bs) st = None.
Proof. intros Hs Hw. unfold step_i. rewrite Hs. cbn [pop_pat]. destruct (well_formed (ESub p x plug)) as [[|]|]; [exfalso; apply Hw; reflexivity | reflexivity | reflexivity]. Qed.
Lemma reject_illformed_ssubst ph x bs st p plug s : stack st = TPat p :: TPat plug :: s ->
  well_formed (SSub p x plug) <> Some true -> step_i gs ph ISSub (x :: bs) st = None.
Proof. intros Hs Hw. unfold step_i. rewrite Hs. cbn [pop_pat]. destruct (well_formed (SSub p x plug)) as [[|]|]; [exfalso; apply Hw; reflexivity | reflexivity | reflexivity]. Qed.

(** The machine of docs/proof-language.md as a RELATIONAL specification: one inference rule per documented instruction, written from the
    document's text ("Instructions and semantics") independently of the control structure of lib.rs — what must be on the stack, which operand
    bytes follow the opcode, the side condition, the effect on stack / memory / claims, and the document's general rule "each of these
    instructions checks that the constructed Term is well-formed before pushing onto the stack".  No rule = the machine aborts.

    [doc_rel_iff]: this specification and the executable documented machine [doc_step_i] (Doc/Machine.v, built on the code model) define the
    same transitions, so C05's refinement theorems relate lib.rs (through its translation, ML/GenExec.v) to a specification a reader can
    check against the document rule by rule. *)
From Coq Require Import NArith List Bool Lia.
From Pi2 Require Import ML.Syntax ML.Subst ML.Machine ML.Facts ML.Journal Doc.Machine.
Import ListNotations.
Open Scope N_scope.

(** a length-prefixed byte vector as it appears in the stream: `len: u8, constraint: [u8] * len` *)
Definition enc_vec (v:list N) : list N := N.of_nat (length v) :: v.

Definition retag (t:term) (q:pat) : term := match t with TPat _ => TPat q | TProved _ => TProved q end.

Inductive doc_rel (ph:phase) : instr -> list N -> state -> list N -> state -> Prop :=
(* Variables and Symbols: `EVar <u8>` / `SVar <u8>` / `Symbol <u8>`: push it *)
| R_EVar id bs st : doc_rel ph IEVar (id :: bs) st bs (push (TPat (EVar id)) st)
| R_SVar id bs st : doc_rel ph ISVar (id :: bs) st bs (push (TPat (SVar id)) st)
| R_Sym id bs st : doc_rel ph ISym (id :: bs) st bs (push (TPat (Sym id)) st)
(* `Implies`/`App`: consume the two patterns, push the implication / application (the first one pushed is the left argument) *)
| R_Imp l r s bs st : stack st = TPat r :: TPat l :: s -> doc_wf (Imp l r) = true ->
    doc_rel ph IImp bs st bs (set_stack (TPat (Imp l r) :: s) st)
| R_App l r s bs st : stack st = TPat r :: TPat l :: s -> doc_wf (App l r) = true ->
    doc_rel ph IApp bs st bs (set_stack (TPat (App l r) :: s) st)
(* `Exists <var_id>` / `Mu <var_id>`: consume a pattern, push the binder "if well-formed" *)
| R_Ex x q s bs st : stack st = TPat q :: s -> doc_wf (Ex x q) = true ->
    doc_rel ph IEx (x :: bs) st bs (set_stack (TPat (Ex x q) :: s) st)
| R_Mu X q s bs st : stack st = TPat q :: s -> doc_wf (Mu X q) = true ->
    doc_rel ph IMu (X :: bs) st bs (set_stack (TPat (Mu X q) :: s) st)
(* `MetaVar <id, 5 * (len, constraint * len)>` *)
| R_MVar id ef sf ps ng hs bs st : doc_wf (MVar id ef sf ps ng hs) = true ->
    doc_rel ph IMVar (id :: enc_vec ef ++ enc_vec sf ++ enc_vec ps ++ enc_vec ng ++ enc_vec hs ++ bs) st bs
            (push (TPat (MVar id ef sf ps ng hs)) st)
| R_CleanMVar id bs st : doc_rel ph ICleanMVar (id :: bs) st bs (push (TPat (MVar id [] [] [] [] [])) st)
(* `ESubst <id>` / `SSubst <id>`: consume a meta-pattern phi and a pattern psi, push phi[psi/id] *)
| R_ESub x p plug s bs st : stack st = TPat p :: TPat plug :: s -> doc_wf (ESub p x plug) = true ->
    doc_rel ph IESub (x :: bs) st bs (set_stack (TPat (ESub p x plug) :: s) st)
| R_SSub X p plug s bs st : stack st = TPat p :: TPat plug :: s -> doc_wf (SSub p X plug) = true ->
    doc_rel ph ISSub (X :: bs) st bs (set_stack (TPat (SSub p X plug) :: s) st)
(* Axiom schemas: push the proof term *)
| R_Prop1 bs st : doc_rel ph IProp1 bs st bs (push (TProved ax_prop1) st)
| R_Prop2 bs st : doc_rel ph IProp2 bs st bs (push (TProved ax_prop2) st)
| R_Prop3 bs st : doc_rel ph IProp3 bs st bs (push (TProved ax_prop3) st)
| R_Quant bs st : doc_rel ph IQuant bs st bs (push (TProved ax_quantifier) st)
| R_Existence bs st : doc_rel ph IExistence bs st bs (push (TProved ax_existence) st)
(* Inference rules: consume one or two Proof terms, push the new proof term *)
| R_MP l r s bs st : stack st = TProved l :: TProved (Imp l r) :: s -> doc_wf r = true ->
    doc_rel ph IMP bs st bs (set_stack (TProved r :: s) st)
| R_Gen x l r s bs st : stack st = TProved (Imp l r) :: s -> e_fresh r x = true -> doc_wf (Imp (Ex x l) r) = true ->
    doc_rel ph IGen (x :: bs) st bs (set_stack (TProved (Imp (Ex x l) r) :: s) st)
| R_Subst X p plug q s bs st : stack st = TProved p :: TPat plug :: s ->
    apply_ssubst guards_sound p X plug = Some q -> doc_wf q = true ->
    doc_rel ph ISubst (X :: bs) st bs (set_stack (TProved q :: s) st)
(* `Instantiate n [id]*n`: consume a Proof (or a Pattern) and then n Patterns, push the instance "checking wellformedness as needed" *)
| R_Inst ids plugs t q s bs st : length plugs = length ids -> stack st = t :: map TPat plugs ++ s ->
    inst guards_sound (pat_of_term t) ids plugs = Some q -> doc_wf q = true ->
    doc_rel ph IInst (N.of_nat (length ids) :: ids ++ bs) st bs (set_stack (retag t q :: s) st)
(* Stack / memory *)
| R_Pop t s bs st : stack st = t :: s -> doc_rel ph IPop bs st bs (set_stack s st)
| R_Save t s bs st : stack st = t :: s -> doc_rel ph ISave bs st bs (mkst (stack st) (memory st ++ [t]) (claims st))
| R_Load i t bs st : nth_error (memory st) (N.to_nat i) = Some t -> doc_rel ph ILoad (i :: bs) st bs (push t st)
(* `Publish`, per phase *)
| R_Publish_gamma p s bs st : ph = Gamma -> stack st = TPat p :: s ->
    doc_rel ph IPublish bs st bs (mkst s (memory st ++ [TProved p]) (claims st))
| R_Publish_claim p s bs st : ph = Claim -> stack st = TPat p :: s ->
    doc_rel ph IPublish bs st bs (mkst s (memory st) (p :: claims st))
| R_Publish_proof p s cs bs st : ph = Proof -> claims st = p :: cs -> stack st = TProved p :: s ->
    doc_rel ph IPublish bs st bs (mkst s (memory st) cs).

(** ** byte vectors *)
Lemma take_n_app v : forall rest, take_n (length v) (v ++ rest) = Some (v, rest).
Proof. induction v as [|a v IH]; intros rest; simpl; [reflexivity|]. rewrite IH. reflexivity. Qed.
Lemma take_n_inv n : forall bs v rest, take_n n bs = Some (v, rest) -> bs = v ++ rest /\ length v = n.
Proof.
  induction n as [|n IH]; intros bs v rest H; simpl in H.
  - inversion H. split; reflexivity.
  - destruct bs as [|b bs']; [discriminate|]. destruct (take_n n bs') as [[v' r']|] eqn:E; [|discriminate].
    inversion H; subst. destruct (IH _ _ _ E) as [-> <-]. split; reflexivity.
Qed.
Lemma read_vec_enc v rest : read_vec (enc_vec v ++ rest) = Some (v, rest).
Proof. unfold enc_vec, read_vec. cbn [app]. rewrite Nat2N.id. apply take_n_app. Qed.
Lemma read_vec_inv bs v rest : read_vec bs = Some (v, rest) -> bs = enc_vec v ++ rest.
Proof.
  unfold read_vec. destruct bs as [|len bs']; [discriminate|]. intros H. destruct (take_n_inv _ _ _ _ H) as [-> L].
  unfold enc_vec. cbn [app]. rewrite L, N2Nat.id. reflexivity.
Qed.

Lemma take_ids_app ids : forall plugs rest s, length plugs = length ids ->
  take_ids true (length ids) (ids ++ rest) (map TPat plugs ++ s) = Some (ids, plugs, rest, s).
Proof.
  induction ids as [|i ids IH]; intros plugs rest s L; destruct plugs as [|p plugs]; try discriminate; [reflexivity|].
  cbn [length take_ids app map pop_pat]. rewrite IH by (simpl in L; lia). reflexivity.
Qed.
Lemma take_ids_inv n : forall bs s ids plugs rest s', take_ids true n bs s = Some (ids, plugs, rest, s') ->
  bs = ids ++ rest /\ s = map TPat plugs ++ s' /\ length ids = n /\ length plugs = n.
Proof.
  induction n as [|n IH]; intros bs s ids plugs rest s' H; simpl in H.
  - inversion H. repeat split; reflexivity.
  - destruct bs as [|b bs']; [discriminate|]. destruct (pop_pat s) as [[p s1]|] eqn:P; [|discriminate].
    destruct (take_ids true n bs' s1) as [[[[ids' plugs'] r'] s'']|] eqn:E; [|discriminate]. inversion H; subst.
    destruct (IH _ _ _ _ _ _ E) as [-> [-> [<- L]]].
    unfold pop_pat in P. destruct s as [|[q|q] s0]; try discriminate. inversion P; subst.
    repeat split; simpl; try reflexivity. rewrite L. reflexivity.
Qed.

Lemma axioms_doc_wf : doc_wf ax_prop1 = true /\ doc_wf ax_prop2 = true /\ doc_wf ax_prop3 = true /\ doc_wf ax_quantifier = true /\ doc_wf ax_existence = true.
Proof. repeat split; reflexivity. Qed.

Lemma pat_eqb_true_eq a b : pat_eqb a b = true -> a = b.
Proof. apply pat_eqb_eq. Qed.

(** ** the executable documented machine follows the rules ... *)
Lemma doc_step_rel ph i bs st bs' st' : doc_step_i ph i bs st = Some (bs', st') -> doc_rel ph i bs st bs' st'.
Proof.
  unfold doc_step_i. destruct (step_i guards_sound ph i bs st) as [[bq sq]|] eqn:E; [|discriminate].
  destruct st as [stk mem cl].
  destruct i; cbn [constructs]; unfold top_wf;
    unfold step_i, push, set_stack, pop_pat, pop_proved, chk, phi in E; cbn [stack memory claims g_mp_antecedent g_gen_fresh g_publish_claim_eq
      g_evar_plugs_only g_instantiate_arity guards_sound] in E.
  - (* EVar *) destruct bs as [|id r]; [discriminate|]. inversion E; subst. cbn. intros H; inversion H; subst. apply R_EVar.
  - destruct bs as [|id r]; [discriminate|]. inversion E; subst. cbn. intros H; inversion H; subst. apply R_SVar.
  - destruct bs as [|id r]; [discriminate|]. inversion E; subst. cbn. intros H; inversion H; subst. apply R_Sym.
  - (* Imp *) destruct stk as [|[r0|?] [|[l0|?] s2]]; try discriminate. inversion E; subst. cbn [stack pat_of_term].
    destruct (doc_wf (Imp l0 r0)) eqn:W; [|discriminate]. intros H; inversion H; subst. eapply (R_Imp ph l0 r0 s2); [reflexivity|exact W].
  - (* App *) destruct stk as [|[r0|?] [|[l0|?] s2]]; try discriminate. inversion E; subst. cbn [stack pat_of_term].
    destruct (doc_wf (App l0 r0)) eqn:W; [|discriminate]. intros H; inversion H; subst. eapply (R_App ph l0 r0 s2); [reflexivity|exact W].
  - (* Mu *) destruct bs as [|id r]; [discriminate|]. destruct stk as [|[q|?] s1]; try discriminate.
    destruct (pat_positive q id); [|discriminate]. inversion E; subst. cbn [stack pat_of_term].
    destruct (doc_wf (Mu id q)) eqn:W; [|discriminate]. intros H; inversion H; subst. eapply (R_Mu ph id q s1); [reflexivity|exact W].
  - (* Ex *) destruct bs as [|id r]; [discriminate|]. destruct stk as [|[q|?] s1]; try discriminate. inversion E; subst. cbn [stack pat_of_term].
    destruct (doc_wf (Ex id q)) eqn:W; [|discriminate]. intros H; inversion H; subst. eapply (R_Ex ph id q s1); [reflexivity|exact W].
  - (* MVar *) destruct bs as [|id r0]; [discriminate|].
    destruct (read_vec r0) as [[ef r1]|] eqn:E1; [|discriminate]. destruct (read_vec r1) as [[sf r2]|] eqn:E2; [|discriminate].
    destruct (read_vec r2) as [[ps r3]|] eqn:E3; [|discriminate]. destruct (read_vec r3) as [[ng r4]|] eqn:E4; [|discriminate].
    destruct (read_vec r4) as [[hs r5]|] eqn:E5; [|discriminate].
    destruct (well_formed (MVar id ef sf ps ng hs)) as [[|]|]; try discriminate. inversion E; subst. cbn [stack pat_of_term].
    destruct (doc_wf (MVar id ef sf ps ng hs)) eqn:W; [|discriminate]. intros H; inversion H; subst.
    rewrite (read_vec_inv _ _ _ E1), (read_vec_inv _ _ _ E2), (read_vec_inv _ _ _ E3), (read_vec_inv _ _ _ E4), (read_vec_inv _ _ _ E5).
    apply R_MVar. exact W.
  - (* ESub *) destruct bs as [|x r]; [discriminate|]. destruct stk as [|[p|?] [|[plug|?] s2]]; try discriminate.
    destruct (well_formed (ESub p x plug)) as [[|]|]; try discriminate. inversion E; subst. cbn [stack pat_of_term].
    destruct (doc_wf (ESub p x plug)) eqn:W; [|discriminate]. intros H; inversion H; subst. eapply (R_ESub ph x p plug s2); [reflexivity|exact W].
  - (* SSub *) destruct bs as [|x r]; [discriminate|]. destruct stk as [|[p|?] [|[plug|?] s2]]; try discriminate.
    destruct (well_formed (SSub p x plug)) as [[|]|]; try discriminate. inversion E; subst. cbn [stack pat_of_term].
    destruct (doc_wf (SSub p x plug)) eqn:W; [|discriminate]. intros H; inversion H; subst. eapply (R_SSub ph x p plug s2); [reflexivity|exact W].
  - inversion E; subst. cbn. intros H; inversion H; subst. apply R_Prop1.
  - inversion E; subst. cbn. intros H; inversion H; subst. apply R_Prop2.
  - inversion E; subst. cbn. intros H; inversion H; subst. apply R_Prop3.
  - inversion E; subst. cbn. intros H; inversion H; subst. apply R_Quant.
  - inversion E; subst. cbn. intros H; inversion H; subst. apply R_Existence.
  - (* MP *) destruct stk as [|[?|p2] [|[?|[]] s2]]; try discriminate.
    match type of E with (if pat_eqb ?a ?b then _ else _) = _ => destruct (pat_eqb a b) eqn:Q; [|discriminate] end.
    apply pat_eqb_true_eq in Q. subst. inversion E; subst. cbn [stack pat_of_term].
    match goal with |- (if doc_wf ?r then _ else _) = _ -> _ => destruct (doc_wf r) eqn:W; [|discriminate] end.
    intros H; inversion H; subst. eapply R_MP; [reflexivity|exact W].
  - (* Gen *) destruct stk as [|[?|[]] s1]; try discriminate. destruct bs as [|x rest]; [discriminate|].
    match type of E with (if e_fresh ?r ?x then _ else _) = _ => destruct (e_fresh r x) eqn:F; [|discriminate] end.
    inversion E; subst. cbn [stack pat_of_term].
    match goal with |- (if doc_wf ?r then _ else _) = _ -> _ => destruct (doc_wf r) eqn:W; [|discriminate] end.
    intros H; inversion H; subst. eapply R_Gen; [reflexivity|exact F|exact W].
  - (* Subst *) destruct bs as [|X rest]; [discriminate|]. destruct stk as [|[?|p] [|[plug|?] s2]]; try discriminate.
    destruct (apply_ssubst guards_sound p X plug) as [q|] eqn:A; [|discriminate]. inversion E; subst. cbn [stack pat_of_term].
    destruct (doc_wf q) eqn:W; [|discriminate]. intros H; inversion H; subst. eapply R_Subst; [reflexivity|exact A|exact W].
  - (* Inst *) destruct bs as [|n rest]; [discriminate|]. destruct stk as [|t s1]; [discriminate|].
    destruct (take_ids true (N.to_nat n) rest s1) as [[[[ids plugs] rest'] s2]|] eqn:T; [|discriminate].
    destruct (take_ids_inv _ _ _ _ _ _ _ T) as [-> [-> [L1 L2]]].
    assert (Hn : n = N.of_nat (length ids)) by (rewrite L1, N2Nat.id; reflexivity). subst n.
    destruct t as [p|p]; destruct (inst guards_sound p ids plugs) as [q|] eqn:I; try discriminate; inversion E; subst; cbn [stack pat_of_term];
      (destruct (doc_wf q) eqn:W; [|discriminate]); intros H; inversion H; subst.
    + apply (R_Inst ph ids plugs (TPat p) q s2); [congruence|reflexivity|exact I|exact W].
    + apply (R_Inst ph ids plugs (TProved p) q s2); [congruence|reflexivity|exact I|exact W].
  - (* Pop *) destruct stk as [|t s1]; [discriminate|]. inversion E; subst. intros H; inversion H; subst. eapply R_Pop. reflexivity.
  - (* Save *) destruct stk as [|t s1]; [discriminate|]. inversion E; subst. intros H; inversion H; subst. eapply (R_Save ph t s1). reflexivity.
  - (* Load *) destruct bs as [|i rest]; [discriminate|]. destruct (nth_error mem (N.to_nat i)) as [t|] eqn:M; [|discriminate].
    inversion E; subst. intros H; inversion H; subst. apply R_Load. exact M.
  - (* Publish *) destruct ph.
    + destruct stk as [|[p|?] s1]; try discriminate. inversion E; subst. intros H; inversion H; subst. eapply (R_Publish_gamma Gamma p s1); reflexivity.
    + destruct stk as [|[p|?] s1]; try discriminate. inversion E; subst. intros H; inversion H; subst. eapply (R_Publish_claim Claim p s1); reflexivity.
    + destruct cl as [|c cs]; [discriminate|]. destruct stk as [|[?|p] s1]; try discriminate.
      destruct (pat_eqb c p) eqn:Q; [|discriminate]. apply pat_eqb_true_eq in Q. subst. inversion E; subst. intros H; inversion H; subst.
      eapply (R_Publish_proof Proof p s1 cs); reflexivity.
  - (* CleanMVar *) destruct bs as [|id r]; [discriminate|]. inversion E; subst. cbn. intros H; inversion H; subst. apply R_CleanMVar.
  - discriminate E.
Qed.

(** ** ... and every rule is a transition of the executable machine *)
Ltac use_state_hyps :=
  repeat match goal with
         | Hs : stack _ = _ |- _ => rewrite Hs; clear Hs
         | Hc : claims _ = _ |- _ => rewrite Hc; clear Hc
         end; cbn [stack pat_of_term memory claims].

Lemma doc_rel_step ph i bs st bs' st' : doc_rel ph i bs st bs' st' -> doc_step_i ph i bs st = Some (bs', st').
Proof.
  intros R.
  destruct R; unfold doc_step_i, step_i, push, set_stack, pop_pat, pop_proved, chk, phi, top_wf;
    cbn [g_mp_antecedent g_gen_fresh g_publish_claim_eq g_evar_plugs_only g_instantiate_arity guards_sound constructs];
    subst; use_state_hyps; try reflexivity.
  - (* Imp *) rewrite H0. reflexivity.
  - (* App *) rewrite H0. reflexivity.
  - (* Ex *) rewrite H0. reflexivity.
  - (* Mu *) pose proof H0 as W. cbn [doc_wf] in W. apply andb_true_iff in W. destruct W as [_ W]. rewrite W. cbn [stack pat_of_term]. rewrite H0. reflexivity.
  - (* MVar *) rewrite !read_vec_enc.
    pose proof H as W. cbn [doc_wf] in W. unfold well_formed. rewrite W. cbn [stack pat_of_term]. rewrite H. reflexivity.
  - (* ESub *) pose proof H0 as W. cbn [doc_wf] in W. repeat (apply andb_true_iff in W; destruct W as [W ?]).
    unfold well_formed, is_redundant_subst.
    destruct p; try discriminate; cbn [is_meta_head] in *;
      repeat match goal with Hn : negb _ = true |- _ => apply negb_true_iff in Hn; rewrite Hn end; cbn [orb negb andb stack pat_of_term];
      rewrite H0; reflexivity.
  - (* SSub *) pose proof H0 as W. cbn [doc_wf] in W. repeat (apply andb_true_iff in W; destruct W as [W ?]).
    unfold well_formed, is_redundant_subst.
    destruct p; try discriminate; cbn [is_meta_head] in *;
      repeat match goal with Hn : negb _ = true |- _ => apply negb_true_iff in Hn; rewrite Hn end; cbn [orb negb andb stack pat_of_term];
      rewrite H0; reflexivity.
  - (* MP *) rewrite pat_eqb_refl. cbn [stack pat_of_term]. rewrite H0. reflexivity.
  - (* Gen *) rewrite H0. cbn [stack pat_of_term]. rewrite H1. reflexivity.
  - (* Subst *) rewrite H0. cbn [stack pat_of_term]. rewrite H1. reflexivity.
  - (* Inst *) rewrite Nat2N.id. rewrite (take_ids_app ids plugs bs s H).
    destruct t as [p|p]; cbn [pat_of_term retag] in *; rewrite H1; cbn [stack pat_of_term]; rewrite H2; reflexivity.
  - (* Load *) rewrite H. reflexivity.
  - (* Publish proof *) rewrite pat_eqb_refl. reflexivity.
Qed.

Theorem doc_rel_iff ph i bs st bs' st' : doc_step_i ph i bs st = Some (bs', st') <-> doc_rel ph i bs st bs' st'.
Proof. split; [apply doc_step_rel | apply doc_rel_step]. Qed.

(** the specification is deterministic (it is a function: the executable machine) *)
Corollary doc_rel_deterministic ph i bs st b1 s1 b2 s2 : doc_rel ph i bs st b1 s1 -> doc_rel ph i bs st b2 s2 -> b1 = b2 /\ s1 = s2.
Proof. intros A B. apply doc_rel_step in A. apply doc_rel_step in B. rewrite A in B. inversion B. split; reflexivity. Qed.

(** ** runs: a byte string is executed instruction by instruction; [doc_accepts] = the three phases of the document *)
Inductive doc_runs (ph:phase) : list N -> state -> state -> Prop :=
| DR_nil st : doc_runs ph [] st st
| DR_step op i bs st bs' st' st'' : decode_op op = Some i -> doc_rel ph i bs st bs' st' -> doc_runs ph bs' st' st'' ->
    doc_runs ph (op :: bs) st st''.

Inductive doc_accepts (gamma claimsb proofb:list N) (st:state) : Prop :=
| DA s1 s2 : doc_runs Gamma gamma st0 s1 -> doc_runs Claim claimsb (set_stack [] s1) s2 ->
    doc_runs Proof proofb (set_stack [] s2) st -> claims st = [] -> doc_accepts gamma claimsb proofb st.

Lemma doc_step_len ph op bs st bs' st' : doc_step ph op bs st = Some (bs', st') -> (length bs' <= length bs)%nat.
Proof.
  unfold doc_step. destruct (decode_op op) as [i|]; [|discriminate]. unfold doc_step_i.
  destruct (step_i guards_sound ph i bs st) as [[b s]|] eqn:E; [|discriminate].
  apply step_i_len in E. destruct (constructs i); [destruct (top_wf s)|]; intros H; inversion H; subst; exact E.
Qed.

Lemma doc_exec_fuel_enough ph : forall n bs, (length bs <= n)%nat ->
  forall f st, (length bs <= f)%nat -> doc_exec_fuel f ph bs st = doc_exec_fuel (length bs) ph bs st.
Proof.
  induction n as [|n IH]; intros bs Hn f st Hf.
  - destruct bs; [destruct f; reflexivity | simpl in Hn; lia].
  - destruct bs as [|op rest]; [destruct f; reflexivity|].
    destruct f as [|f]; [simpl in Hf; lia|]. simpl.
    destruct (doc_step ph op rest st) as [[rest' st']|] eqn:E; [|reflexivity].
    pose proof (doc_step_len _ _ _ _ _ _ E) as L. simpl in Hn, Hf.
    rewrite (IH rest' ltac:(lia) f st' ltac:(lia)).
    rewrite (IH rest' ltac:(lia) (length rest) st' ltac:(lia)). reflexivity.
Qed.

Lemma doc_exec_cons ph op rest st :
  doc_exec ph (op :: rest) st = match doc_step ph op rest st with Some (rest', st') => doc_exec ph rest' st' | None => None end.
Proof.
  unfold doc_exec at 1. simpl. destruct (doc_step ph op rest st) as [[rest' st']|] eqn:E; [|reflexivity].
  unfold doc_exec. eapply doc_exec_fuel_enough; [apply PeanoNat.Nat.le_refl|]. eapply doc_step_len; eassumption.
Qed.

Lemma doc_runs_exec ph bs st st' : doc_runs ph bs st st' -> doc_exec ph bs st = Some st'.
Proof.
  induction 1 as [st|op i bs st bs' st' st'' D R _ IH]; [reflexivity|].
  rewrite doc_exec_cons. unfold doc_step. rewrite D. rewrite (doc_rel_step _ _ _ _ _ _ R). exact IH.
Qed.

Lemma doc_exec_runs ph : forall n bs, (length bs <= n)%nat -> forall st st', doc_exec ph bs st = Some st' -> doc_runs ph bs st st'.
Proof.
  induction n as [|n IH]; intros bs Hn st st' H.
  - destruct bs; [|simpl in Hn; lia]. inversion H. constructor.
  - destruct bs as [|op rest]; [inversion H; constructor|].
    rewrite doc_exec_cons in H. destruct (doc_step ph op rest st) as [[rest' s1]|] eqn:E; [|discriminate].
    pose proof (doc_step_len _ _ _ _ _ _ E) as L. unfold doc_step in E. destruct (decode_op op) as [i|] eqn:D; [|discriminate].
    eapply DR_step; [exact D | apply doc_step_rel; exact E | apply IH; [simpl in Hn; lia | exact H]].
Qed.

Theorem doc_exec_iff ph bs st st' : doc_exec ph bs st = Some st' <-> doc_runs ph bs st st'.
Proof. split; [apply (doc_exec_runs ph (length bs)); apply PeanoNat.Nat.le_refl | apply doc_runs_exec]. Qed.

Theorem doc_verify_iff gamma claimsb proofb st : doc_verify gamma claimsb proofb = Some st <-> doc_accepts gamma claimsb proofb st.
Proof.
  unfold doc_verify. split.
  - destruct (doc_exec Gamma gamma st0) as [s1|] eqn:E1; [|discriminate].
    destruct (doc_exec Claim claimsb (set_stack [] s1)) as [s2|] eqn:E2; [|discriminate].
    destruct (doc_exec Proof proofb (set_stack [] s2)) as [s3|] eqn:E3; [|discriminate].
    destruct (claims s3) eqn:C; [|discriminate]. intros H; inversion H; subst.
    apply (DA _ _ _ _ s1 s2); [apply doc_exec_iff; exact E1 | apply doc_exec_iff; exact E2 | apply doc_exec_iff; exact E3 | exact C].
  - intros [s1 s2 R1 R2 R3 C]. apply doc_exec_iff in R1, R2, R3. rewrite R1, R2, R3, C. reflexivity.
Qed.

(** The opcode tables of lib.rs and instruction.py (regenerated into Gen/Opcodes.v on every run)
    agree with each other and with [decode_op] on all 256 byte values. *)
From Coq Require Import NArith PeanoNat Lia List Bool String.
From Pi2 Require Import ML.Machine Gen.Opcodes.
Import ListNotations.
Open Scope N_scope.

Definition instr_eqb (a b:instr) : bool :=
  match a, b with
  | IEVar, IEVar | ISVar, ISVar | ISym, ISym | IImp, IImp | IApp, IApp | IMu, IMu | IEx, IEx | IMVar, IMVar
  | IESub, IESub | ISSub, ISSub | IProp1, IProp1 | IProp2, IProp2 | IProp3, IProp3 | IQuant, IQuant
  | IExistence, IExistence | IMP, IMP | IGen, IGen | ISubst, ISubst | IInst, IInst | IPop, IPop | ISave, ISave
  | ILoad, ILoad | IPublish, IPublish | ICleanMVar, ICleanMVar | IUnimpl, IUnimpl => true
  | _, _ => false end.
Definition oinstr_eqb (a b:option instr) : bool :=
  match a, b with Some x, Some y => instr_eqb x y | None, None => true | _, _ => false end.

Fixpoint rust_lookup (b:N) (t:list (N * string * instr)) : option instr :=
  match t with [] => None | (b', _, i) :: t' => if N.eqb b b' then Some i else rust_lookup b t' end.
Fixpoint py_name (b:N) (t:list (N * string)) : option string :=
  match t with [] => None | (b', s) :: t' => if N.eqb b b' then Some s else py_name b t' end.
Fixpoint rust_name (b:N) (t:list (N * string * instr)) : option string :=
  match t with [] => None | (b', s, _) :: t' => if N.eqb b b' then Some s else rust_name b t' end.
Definition ostring_eqb (a b:option string) : bool :=
  match a, b with Some x, Some y => String.eqb x y | None, None => true | _, _ => false end.

Definition all_bytes : list N := map N.of_nat (seq 0 256).

Definition opcodes_agree_b : bool :=
  forallb (fun b => oinstr_eqb (decode_op b) (rust_lookup b rust_opcodes)
                    && ostring_eqb (rust_name b rust_opcodes) (py_name b py_opcodes)) all_bytes.

Lemma opcodes_agree_ok : opcodes_agree_b = true.
Proof. vm_compute. reflexivity. Qed.

Lemma all_bytes_spec b : b < 256 -> In b all_bytes.
Proof.
  intros H. unfold all_bytes. apply in_map_iff. exists (N.to_nat b). split; [apply N2Nat.id|].
  apply in_seq. assert (N.to_nat b < N.to_nat 256)%nat by lia. change (N.to_nat 256) with 256%nat in H0. lia.
Qed.

Lemma opcodes_agree b : b < 256 ->
  oinstr_eqb (decode_op b) (rust_lookup b rust_opcodes) = true /\
  ostring_eqb (rust_name b rust_opcodes) (py_name b py_opcodes) = true.
Proof.
  intros H. pose proof opcodes_agree_ok as A. unfold opcodes_agree_b in A. rewrite forallb_forall in A.
  specialize (A b (all_bytes_spec b H)). apply andb_true_iff in A. exact A.
Qed.

(** Places where docs/proof-language.md is open, ambiguous or contradicts itself, and the reading
    chosen for Doc/Machine.v.  Each is a named definition so that the choice is visible to Coq users. *)
From Coq Require Import String.
Open Scope string_scope.

Definition dev_memory_between_phases :=
  "Doc: 'Between phases, the stack and memory are cleared ... the list of axioms ... is used to initialize the memory', " ++
  "followed by a TODO that notation should be shared between phases.  Reading: memory is kept across phases and a " ++
  "Gamma-phase Publish appends the axiom to it (what lib.rs does; the generator relies on it for shared notation).".
Definition dev_generalization :=
  "Doc: Generalization.conclusion() repeats the Quantifier axiom and well_formed() asks x fresh in phi1().  Reading: the " ++
  "standard rule phi1 -> phi2 |- (exists x. phi1) -> phi2 with x fresh in phi2 (lib.rs; the doc's text would be unsound).".
Definition dev_app_ctx_holes_on_instantiate :=
  "Doc: InstantiateSchema.well_formed() calls pattern.app_ctx_holes(evar), which no Pattern class defines.  Reading: no " ++
  "check (lib.rs has none; no implemented rule uses application contexts).".
Definition dev_instantiate_result :=
  "Doc: Instantiate '...push the instantiated proof term to the stack, checking wellformedness as needed'.  Reading: the " ++
  "constraint checks of InstantiateSchema.well_formed() AND the general rule that a constructed term is well-formed " ++
  "(recursive).  lib.rs does not re-check the result: see C05_refuted_redundant_result (known finding D16).".
Definition dev_substitution_frame_kt :=
  "Doc names Substitution/Frame/KnasterTarski without semantics.  Reading: Substitution = set-variable substitution " ++
  "into a proved pattern (standard rule; lib.rs); Frame, KnasterTarski, PropagationOr/Exists, PreFixpoint, Singleton are " ++
  "unimplemented in lib.rs and rejected by both machines.".
Definition dev_claims_are_a_stack :=
  "Doc says both 'queue of claims' and 'since the claims form a stack, they must be proved in the reverse order'.  " ++
  "Reading: stack (the footnote; lib.rs).".
Definition dev_opcode_numbers :=
  "The document gives no opcode numbers; they are taken from Instruction::from in lib.rs and instruction.py " ++
  "(Gen/Opcodes.v, regenerated; note lib.rs's enum discriminants have Exists=7, Mu=8 while from() decodes 7 as Mu and 8 " ++
  "as Exists, which is what instruction.py emits).".

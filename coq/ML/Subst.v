(** M1: substitution and instantiation (rust/src/lib.rs:453-676).
    [None] = the Rust code panics (assert!/panic!/index out of bounds). *)
From Coq Require Import NArith List Bool.
From Pi2 Require Import ML.Syntax.
Import ListNotations.
Open Scope N_scope.

(** Which side-condition checks the code performs.  [guards_sound] is the configuration the
    property theorems are proved for; the correspondence check decides which configuration the
    current source implements. *)
Record guards := {
  g_ssubst_exists_capture : bool;  (* apply_ssubst, Exists arm: assert plug.e_fresh(var) *)
  g_esubst_mu_capture     : bool;  (* apply_esubst, Mu arm: assert plug.s_fresh(var) *)
  g_ssubst_mu_capture     : bool;  (* apply_ssubst, Mu arm: assert plug.s_fresh(var)   (present) *)
  g_esubst_exists_capture : bool;  (* apply_esubst, Exists arm: assert plug.e_fresh(var) (present) *)
  g_inst_constraints      : bool;  (* instantiate_internal: freshness/polarity constraint panics (present) *)
  g_gen_fresh             : bool;  (* Generalization: e_fresh side condition (present) *)
  g_mp_antecedent         : bool;  (* ModusPonens: antecedent equality (present) *)
  g_instantiate_arity     : bool;  (* Instantiate: all n ids must be present in the stream *)
  g_publish_claim_eq      : bool;  (* Publish (proof phase): claim == theorem (present) *)
  g_evar_plugs_only       : bool   (* ghost restriction (ESubst instruction only with an EVar plug); false in every configuration used by a theorem: kept only so that experiments can switch it on *)
}.
Definition guards_sound : guards :=
  {| g_ssubst_exists_capture := true; g_esubst_mu_capture := true; g_ssubst_mu_capture := true;
     g_esubst_exists_capture := true; g_inst_constraints := true; g_gen_fresh := true;
     g_mp_antecedent := true; g_instantiate_arity := true; g_publish_claim_eq := true;
     g_evar_plugs_only := false |}.
(** the pinned tree before the fix commits (D1, D2) *)
Definition guards_pinned : guards :=
  {| g_ssubst_exists_capture := false; g_esubst_mu_capture := false; g_ssubst_mu_capture := true;
     g_esubst_exists_capture := true; g_inst_constraints := true; g_gen_fresh := true;
     g_mp_antecedent := true; g_instantiate_arity := false; g_publish_claim_eq := true;
     g_evar_plugs_only := false |}.

Section WithGuards.
Variable g : guards.

Definition chk (on:bool) (c:bool) : bool := if on then c else true.

(** lib.rs:453 *)
Fixpoint apply_esubst (p:pat) (x:N) (plug:pat) : option pat :=
  match p with
  | EVar n => Some (if N.eqb n x then plug else p)
  | Imp l r => match apply_esubst l x plug, apply_esubst r x plug with
               | Some a, Some b => Some (Imp a b) | _,_ => None end
  | App l r => match apply_esubst l x plug, apply_esubst r x plug with
               | Some a, Some b => Some (App a b) | _,_ => None end
  | Ex y q => if N.eqb y x then Some p else
              if chk (g_esubst_exists_capture g) (e_fresh plug y)
              then option_map (Ex y) (apply_esubst q x plug) else None
  | Mu Y q => if chk (g_esubst_mu_capture g) (s_fresh plug Y)
              then option_map (Mu Y) (apply_esubst q x plug) else None
  | ESub _ _ _ | SSub _ _ _ | MVar _ _ _ _ _ _ => Some (ESub p x plug)
  | SVar _ | Sym _ => Some p
  end.

(** lib.rs:490 *)
Fixpoint apply_ssubst (p:pat) (X:N) (plug:pat) : option pat :=
  match p with
  | SVar n => Some (if N.eqb n X then plug else p)
  | Imp l r => match apply_ssubst l X plug, apply_ssubst r X plug with
               | Some a, Some b => Some (Imp a b) | _,_ => None end
  | App l r => match apply_ssubst l X plug, apply_ssubst r X plug with
               | Some a, Some b => Some (App a b) | _,_ => None end
  | Ex y q => if chk (g_ssubst_exists_capture g) (e_fresh plug y)
              then option_map (Ex y) (apply_ssubst q X plug) else None
  | Mu Y q => if N.eqb Y X then Some p else
              if chk (g_ssubst_mu_capture g) (s_fresh plug Y)
              then option_map (Mu Y) (apply_ssubst q X plug) else None
  | ESub _ _ _ | SSub _ _ _ | MVar _ _ _ _ _ _ => Some (SSub p X plug)
  | EVar _ | Sym _ => Some p
  end.

Fixpoint lookup (id:N) (vars:list N) (plugs:list pat) : option (option pat) :=
  (* Some None = id found at a position beyond plugs (index panic) *)
  match vars with
  | [] => None
  | v::vs => if N.eqb v id then Some (hd_error plugs) else lookup id vs (tl plugs)
  end.

Definition check_constraints (ef sf pos neg:list N) (plug:pat) : bool :=
  forallb (e_fresh plug) ef && forallb (s_fresh plug) sf
  && forallb (pat_positive plug) pos && forallb (pat_negative plug) neg.

(** does [instantiate_internal] return [Some _] (barring panics)?  *)
Fixpoint touches (p:pat) (vars:list N) : bool :=
  match p with
  | MVar id _ _ _ _ _ => mem id vars
  | Imp l r | App l r => touches l vars || touches r vars
  | Ex _ q | Mu _ q => touches q vars
  | ESub q _ plug | SSub q _ plug => touches q vars || touches plug vars
  | _ => false
  end.

(** lib.rs:529 + 672: result of [instantiate_in_place]; [None] = panic.
    The Rust function returns [None] for "unchanged"; here unchanged subterms are returned as
    themselves, and the two substitution arms re-apply the substitution only when something
    under them changed, exactly as the Rust code does. *)
Fixpoint inst (p:pat) (vars:list N) (plugs:list pat) : option pat :=
  match p with
  | MVar id ef sf pos neg holes =>
      match lookup id vars plugs with
      | Some (Some plug) =>
          if chk (g_inst_constraints g) (check_constraints ef sf pos neg plug) then Some plug else None
      | Some None => None
      | None => Some p end
  | Imp l r => match inst l vars plugs, inst r vars plugs with
               | Some a, Some b => Some (Imp a b) | _,_ => None end
  | App l r => match inst l vars plugs, inst r vars plugs with
               | Some a, Some b => Some (App a b) | _,_ => None end
  | Ex y q => option_map (Ex y) (inst q vars plugs)
  | Mu Y q => option_map (Mu Y) (inst q vars plugs)
  | ESub q x plug =>
      if touches q vars || touches plug vars then
        match inst q vars plugs, inst plug vars plugs with
        | Some a, Some b => apply_esubst a x b | _,_ => None end
      else Some p
  | SSub q X plug =>
      if touches q vars || touches plug vars then
        match inst q vars plugs, inst plug vars plugs with
        | Some a, Some b => apply_ssubst a X b | _,_ => None end
      else Some p
  | EVar _ | SVar _ | Sym _ => Some p
  end.

End WithGuards.

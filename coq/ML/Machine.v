(** M1: the checker's stack machine (rust/src/lib.rs:678-1066).
    Bytes are [N] (< 256 by construction of the callers); [None] = the Rust code panics
    (process aborts = REJECT). *)
From Coq Require Import NArith List Bool.
From Pi2 Require Import ML.Syntax ML.Subst.
Import ListNotations.
Open Scope N_scope.

(** [Instruction] and [Instruction::from], lib.rs:18-80 *)
Inductive instr :=
| IEVar | ISVar | ISym | IImp | IApp | IMu | IEx | IMVar | IESub | ISSub
| IProp1 | IProp2 | IProp3 | IQuant | IExistence | IMP | IGen | ISubst | IInst
| IPop | ISave | ILoad | IPublish | ICleanMVar | IUnimpl.

Definition decode_op (b:N) : option instr :=
  match b with
  | 2 => Some IEVar | 3 => Some ISVar | 4 => Some ISym | 5 => Some IImp | 6 => Some IApp
  | 7 => Some IMu | 8 => Some IEx | 9 => Some IMVar | 10 => Some IESub | 11 => Some ISSub
  | 12 => Some IProp1 | 13 => Some IProp2 | 14 => Some IProp3 | 15 => Some IQuant
  | 16 | 17 | 18 | 20 | 23 | 25 => Some IUnimpl
  | 19 => Some IExistence | 21 => Some IMP | 22 => Some IGen | 24 => Some ISubst
  | 26 => Some IInst | 27 => Some IPop | 28 => Some ISave | 29 => Some ILoad | 30 => Some IPublish
  | 137 => Some ICleanMVar
  | _ => None
  end.

Inductive term := TPat (p:pat) | TProved (p:pat).
Inductive phase := Gamma | Claim | Proof.

Record state := mkst {
  stack  : list term;   (* head = top *)
  memory : list term;   (* index 0 first; Entry::Pattern/Proved are the same two tags *)
  claims : list pat     (* head = last pushed (Vec::pop takes it) *)
}.
Definition st0 : state := mkst [] [] [].

(** the five axiom schemas built at lib.rs:739-762 *)
Definition phi (n:N) := MVar n [] [] [] [] [].
Definition bot := Mu 0 (SVar 0).
Definition neg (p:pat) := Imp p bot.
Definition ax_prop1 := Imp (phi 0) (Imp (phi 1) (phi 0)).
Definition ax_prop2 := Imp (Imp (phi 0) (Imp (phi 1) (phi 2))) (Imp (Imp (phi 0) (phi 1)) (Imp (phi 0) (phi 2))).
Definition ax_prop3 := Imp (neg (neg (phi 0))) (phi 0).
Definition ax_quantifier := Imp (ESub (phi 0) 0 (EVar 1)) (Ex 0 (phi 0)).
Definition ax_existence := Ex 0 (EVar 0).

(** read_u8_vec, lib.rs:715 *)
Fixpoint take_n (n:nat) (bs:list N) : option (list N * list N) :=
  match n with
  | O => Some ([], bs)
  | S n' => match bs with
            | [] => None
            | b::bs' => match take_n n' bs' with
                        | Some (v, rest) => Some (b::v, rest)
                        | None => None end
            end
  end.
Definition read_vec (bs:list N) : option (list N * list N) :=
  match bs with
  | [] => None
  | len::bs' => take_n (N.to_nat len) bs'
  end.

Definition pop_pat (s:list term) : option (pat * list term) :=
  match s with TPat p :: s' => Some (p, s') | _ => None end.
Definition pop_proved (s:list term) : option (pat * list term) :=
  match s with TProved p :: s' => Some (p, s') | _ => None end.

(** [iterator.take(n).for_each(|arg| { ids.push(arg); plugs.push(pop_stack_pattern) })], lib.rs:968.
    Lenient ([strict=false]): stops silently when the stream ends.  Strict: panics. *)
Fixpoint take_ids (strict:bool) (n:nat) (bs:list N) (s:list term)
  : option (list N * list pat * list N * list term) :=
  match n with
  | O => Some ([], [], bs, s)
  | S n' =>
      match bs with
      | [] => if strict then None else Some ([], [], bs, s)
      | b::bs' =>
          match pop_pat s with
          | None => None
          | Some (p, s') =>
              match take_ids strict n' bs' s' with
              | Some (ids, plugs, rest, s'') => Some (b::ids, p::plugs, rest, s'')
              | None => None end
          end
      end
  end.

Section WithGuards.
Variable g : guards.

Definition push (t:term) (st:state) : state := mkst (t :: stack st) (memory st) (claims st).
Definition set_stack (s:list term) (st:state) : state := mkst s (memory st) (claims st).

Definition is_evar (p:pat) : bool := match p with EVar _ => true | _ => false end.

(** one instruction [i] (already decoded), remaining bytes [bs]; returns remaining bytes and new state *)
Definition step_i (ph:phase) (i:instr) (bs:list N) (st:state) : option (list N * state) :=
  match i with
  | IEVar => match bs with id::r => Some (r, push (TPat (EVar id)) st) | [] => None end
  | ISVar => match bs with id::r => Some (r, push (TPat (SVar id)) st) | [] => None end
  | ISym => match bs with id::r => Some (r, push (TPat (Sym id)) st) | [] => None end
  | IImp => match pop_pat (stack st) with
         | Some (r0, s1) => match pop_pat s1 with
             | Some (l0, s2) => Some (bs, set_stack (TPat (Imp l0 r0) :: s2) st)
             | None => None end
         | None => None end
  | IApp => match pop_pat (stack st) with
         | Some (r0, s1) => match pop_pat s1 with
             | Some (l0, s2) => Some (bs, set_stack (TPat (App l0 r0) :: s2) st)
             | None => None end
         | None => None end
  | IMu => (* Mu *)
         match bs with
         | id::r => match pop_pat (stack st) with
             | Some (q, s1) => if pat_positive q id then Some (r, set_stack (TPat (Mu id q) :: s1) st) else None
             | None => None end
         | [] => None end
  | IEx => (* Exists *)
         match bs with
         | id::r => match pop_pat (stack st) with
             | Some (q, s1) => Some (r, set_stack (TPat (Ex id q) :: s1) st)
             | None => None end
         | [] => None end
  | IMVar => (* MetaVar *)
         match bs with
         | id::r0 =>
           match read_vec r0 with Some (ef, r1) =>
           match read_vec r1 with Some (sf, r2) =>
           match read_vec r2 with Some (ps, r3) =>
           match read_vec r3 with Some (ng, r4) =>
           match read_vec r4 with Some (hs, r5) =>
             let m := MVar id ef sf ps ng hs in
             match well_formed m with
             | Some true => Some (r5, push (TPat m) st)
             | _ => None end
           | None => None end | None => None end | None => None end | None => None end | None => None end
         | [] => None end
  | ICleanMVar => match bs with id::r => Some (r, push (TPat (phi id)) st) | [] => None end
  | IESub => (* ESubst *)
         match bs with
         | x::r => match pop_pat (stack st) with
             | Some (p, s1) => match pop_pat s1 with
                 | Some (plug, s2) =>
                     let e := ESub p x plug in
                     match well_formed e with
                     | Some true =>
                         if chk (g_evar_plugs_only g) (is_evar plug)
                         then Some (r, set_stack (TPat e :: s2) st) else None
                     | _ => None end
                 | None => None end
             | None => None end
         | [] => None end
  | ISSub => (* SSubst *)
         match bs with
         | x::r => match pop_pat (stack st) with
             | Some (p, s1) => match pop_pat s1 with
                 | Some (plug, s2) =>
                     let e := SSub p x plug in
                     match well_formed e with
                     | Some true => Some (r, set_stack (TPat e :: s2) st)
                     | _ => None end
                 | None => None end
             | None => None end
         | [] => None end
  | IProp1 => Some (bs, push (TProved ax_prop1) st)
  | IProp2 => Some (bs, push (TProved ax_prop2) st)
  | IProp3 => Some (bs, push (TProved ax_prop3) st)
  | IQuant => Some (bs, push (TProved ax_quantifier) st)
  | IExistence => Some (bs, push (TProved ax_existence) st)
  | IMP => (* ModusPonens *)
         match pop_proved (stack st) with
         | Some (p2, s1) => match pop_proved s1 with
             | Some (Imp l r, s2) =>
                 if chk (g_mp_antecedent g) (pat_eqb l p2)
                 then Some (bs, set_stack (TProved r :: s2) st) else None
             | _ => None end
         | None => None end
  | IGen => (* Generalization: pops first, then reads the id *)
         match pop_proved (stack st) with
         | Some (Imp l r, s1) =>
             match bs with
             | x::rest =>
                 if chk (g_gen_fresh g) (e_fresh r x)
                 then Some (rest, set_stack (TProved (Imp (Ex x l) r) :: s1) st) else None
             | [] => None end
         | _ => None end
  | ISubst => (* Substitution *)
         match bs with
         | X::rest => match pop_proved (stack st) with
             | Some (p, s1) => match pop_pat s1 with
                 | Some (plug, s2) =>
                     match apply_ssubst g p X plug with
                     | Some q => Some (rest, set_stack (TProved q :: s2) st)
                     | None => None end
                 | None => None end
             | None => None end
         | [] => None end
  | IInst => (* Instantiate *)
         match bs with
         | n::rest =>
             match stack st with
             | t::s1 =>
                 match take_ids (g_instantiate_arity g) (N.to_nat n) rest s1 with
                 | Some (ids, plugs, rest', s2) =>
                     match t with
                     | TPat p => match inst g p ids plugs with
                                 | Some q => Some (rest', set_stack (TPat q :: s2) st) | None => None end
                     | TProved p => match inst g p ids plugs with
                                 | Some q => Some (rest', set_stack (TProved q :: s2) st) | None => None end
                     end
                 | None => None end
             | [] => None end
         | [] => None end
  | IPop => match stack st with _::s1 => Some (bs, set_stack s1 st) | [] => None end
  | ISave => match stack st with
          | t::_ => Some (bs, mkst (stack st) (memory st ++ [t]) (claims st))
          | [] => None end
  | ILoad => match bs with
          | i::rest => match nth_error (memory st) (N.to_nat i) with
                       | Some t => Some (rest, push t st) | None => None end
          | [] => None end
  | IPublish => match ph with
          | Gamma => match pop_pat (stack st) with
                     | Some (p, s1) => Some (bs, mkst s1 (memory st ++ [TProved p]) (claims st))
                     | None => None end
          | Claim => match pop_pat (stack st) with
                     | Some (p, s1) => Some (bs, mkst s1 (memory st) (p :: claims st))
                     | None => None end
          | Proof => match claims st with
                     | c::cs => match pop_proved (stack st) with
                                | Some (p, s1) =>
                                    if chk (g_publish_claim_eq g) (pat_eqb c p)
                                    then Some (bs, mkst s1 (memory st) cs) else None
                                | None => None end
                     | [] => None end
          end
  | IUnimpl => None   (* PropagationOr/Exists, PreFixpoint, Singleton, Frame, KnasterTarski: unimplemented! *)
  end.


Definition step (ph:phase) (op:N) (bs:list N) (st:state) : option (list N * state) :=
  match decode_op op with
  | Some i => step_i ph i bs st
  | None => None          (* "Bad Instruction!" *)
  end.

Fixpoint exec_fuel (fuel:nat) (ph:phase) (bs:list N) (st:state) : option state :=
  match bs with
  | [] => Some st
  | op::rest =>
      match fuel with
      | O => None
      | S f => match step ph op rest st with
               | Some (rest', st') => exec_fuel f ph rest' st'
               | None => None end
      end
  end.
(** every instruction consumes at least its opcode byte, so [length bs] steps suffice
    (Machine_facts.exec_fuel_enough) *)
Definition exec (ph:phase) (bs:list N) (st:state) : option state := exec_fuel (length bs) ph bs st.

(** lib.rs:1024 [verify]: [Some st] = returns normally (ACCEPT) with final state [st] *)
Definition verify (gamma claimsb proofb:list N) : option state :=
  match exec Gamma gamma st0 with
  | Some s1 =>
      match exec Claim claimsb (set_stack [] s1) with
      | Some s2 =>
          match exec Proof proofb (set_stack [] s2) with
          | Some s3 => match claims s3 with [] => Some s3 | _ => None end
          | None => None end
      | None => None end
  | None => None end.

End WithGuards.

(** The ghost restriction [g_evar_plugs_only] only removes behaviours: a run accepted under
    [guards_evp] is accepted, with the same final state, under [guards_sound]. *)
From Coq Require Import NArith List Bool Lia.
From Pi2 Require Import ML.Syntax ML.Subst ML.Machine ML.Facts ML.Journal.
Import ListNotations.
Open Scope N_scope.

Definition same_real (g1 g2:guards) : Prop :=
  g_ssubst_exists_capture g1 = g_ssubst_exists_capture g2 /\
  g_esubst_mu_capture g1 = g_esubst_mu_capture g2 /\
  g_ssubst_mu_capture g1 = g_ssubst_mu_capture g2 /\
  g_esubst_exists_capture g1 = g_esubst_exists_capture g2 /\
  g_inst_constraints g1 = g_inst_constraints g2 /\
  g_gen_fresh g1 = g_gen_fresh g2 /\
  g_mp_antecedent g1 = g_mp_antecedent g2 /\
  g_instantiate_arity g1 = g_instantiate_arity g2 /\
  g_publish_claim_eq g1 = g_publish_claim_eq g2.

Section Ext.
Variables g1 g2 : guards.
Hypothesis S : same_real g1 g2.

Lemma apply_esubst_ext p : forall x plug, apply_esubst g1 p x plug = apply_esubst g2 p x plug.
Proof.
  destruct S as (_ & E2 & _ & E4 & _).
  induction p; intros x0 pl; simpl; try reflexivity;
    rewrite ?IHp1, ?IHp2, ?IHp, ?E2, ?E4; reflexivity.
Qed.
Lemma apply_ssubst_ext p : forall X plug, apply_ssubst g1 p X plug = apply_ssubst g2 p X plug.
Proof.
  destruct S as (E1 & _ & E3 & _).
  induction p; intros x0 pl; simpl; try reflexivity;
    rewrite ?IHp1, ?IHp2, ?IHp, ?E1, ?E3; reflexivity.
Qed.
Lemma inst_ext p : forall vars plugs, inst g1 p vars plugs = inst g2 p vars plugs.
Proof.
  destruct S as (_ & _ & _ & _ & E5 & _).
  induction p; intros vars plugs; simpl; try reflexivity;
    rewrite ?IHp1, ?IHp2, ?IHp, ?E5; try reflexivity.
  - destruct (inst g2 p1 vars plugs), (inst g2 p2 vars plugs); try reflexivity. rewrite apply_esubst_ext. reflexivity.
  - destruct (inst g2 p1 vars plugs), (inst g2 p2 vars plugs); try reflexivity. rewrite apply_ssubst_ext. reflexivity.
Qed.

Hypothesis Loose : g_evar_plugs_only g2 = false.

Lemma step_i_ext ph i bs st r : step_i g1 ph i bs st = Some r -> step_i g2 ph i bs st = Some r.
Proof.
  destruct S as (E1 & E2 & E3 & E4 & E5 & E6 & E7 & E8 & E9).
  destruct i; simpl; rewrite <- ?E6, <- ?E7, <- ?E8, <- ?E9; try (intros H; exact H).
  - (* ESub *) rewrite Loose. simpl.
    destruct bs as [|x rest]; [intros H; exact H|].
    destruct (pop_pat (stack st)) as [[p s1]|]; [|intros H; exact H].
    destruct (pop_pat s1) as [[plug s2]|]; [|intros H; exact H].
    match goal with |- (if ?c then _ else _) = _ -> _ => destruct c; [|intros H; exact H] end.
    destruct (chk (g_evar_plugs_only g1) (is_evar plug)); [intros H; exact H | discriminate].
  - (* Substitution *)
    destruct bs as [|X rest]; [intros H; exact H|].
    destruct (pop_proved (stack st)) as [[p s1]|]; [|intros H; exact H].
    destruct (pop_pat s1) as [[plug s2]|]; [|intros H; exact H].
    rewrite apply_ssubst_ext. intros H; exact H.
  - (* Inst *) destruct bs as [|n rest]; [intros H; exact H|].
    destruct (stack st) as [|t s1]; [intros H; exact H|].
    destruct (take_ids (g_instantiate_arity g1) (N.to_nat n) rest s1) as [[[[ids plugs] rest'] s2]|]; [|intros H; exact H].
    destruct t; rewrite inst_ext; intros H; exact H.
Qed.

Lemma exec_fuel_ext f : forall ph bs st st', exec_fuel g1 f ph bs st = Some st' -> exec_fuel g2 f ph bs st = Some st'.
Proof.
  induction f as [|f IH]; intros ph bs st st'; destruct bs as [|op rest]; simpl; try (intros H; exact H).
  unfold step. destruct (decode_op op) as [i|]; [|discriminate].
  destruct (step_i g1 ph i rest st) as [[rest' st1]|] eqn:E; [|discriminate].
  rewrite (step_i_ext _ _ _ _ _ E). apply IH.
Qed.

Lemma verify_ext gamma cl pr st : verify g1 gamma cl pr = Some st -> verify g2 gamma cl pr = Some st.
Proof.
  unfold verify, exec.
  destruct (exec_fuel g1 (length gamma) Gamma gamma st0) as [s1|] eqn:E1; [|discriminate].
  rewrite (exec_fuel_ext _ _ _ _ _ E1).
  destruct (exec_fuel g1 (length cl) Claim cl (set_stack [] s1)) as [s2|] eqn:E2; [|discriminate].
  rewrite (exec_fuel_ext _ _ _ _ _ E2).
  destruct (exec_fuel g1 (length pr) Proof pr (set_stack [] s2)) as [s3|] eqn:E3; [|discriminate].
  rewrite (exec_fuel_ext _ _ _ _ _ E3). intros H; exact H.
Qed.

Lemma declared_claims_ext gamma cl pr st : verify g1 gamma cl pr = Some st ->
  declared_claims g2 gamma cl = declared_claims g1 gamma cl.
Proof.
  unfold verify, declared_claims, exec.
  destruct (exec_fuel g1 (length gamma) Gamma gamma st0) as [s1|] eqn:E1; [|discriminate].
  rewrite (exec_fuel_ext _ _ _ _ _ E1).
  destruct (exec_fuel g1 (length cl) Claim cl (set_stack [] s1)) as [s2|] eqn:E2; [|discriminate].
  rewrite (exec_fuel_ext _ _ _ _ _ E2). reflexivity.
Qed.

Lemma journal_fuel_ext f : forall ph bs st st', exec_fuel g1 f ph bs st = Some st' ->
  journal_fuel g2 f ph bs st = journal_fuel g1 f ph bs st.
Proof.
  induction f as [|f IH]; intros ph bs st st'; destruct bs as [|op rest]; simpl; try reflexivity.
  unfold step. destruct (decode_op op) as [i|]; [|discriminate].
  destruct (step_i g1 ph i rest st) as [[rest' st1]|] eqn:E; [|discriminate].
  rewrite (step_i_ext _ _ _ _ _ E). intros H. rewrite (IH _ _ _ _ H). reflexivity.
Qed.
End Ext.

Lemma same_real_evp_sound : same_real guards_evp guards_sound.
Proof. repeat split. Qed.

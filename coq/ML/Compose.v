(** C11: composition law of the checker's instantiation.
      inst (inst p d) d'  =  inst p (d' o d)
    whenever the first step and the one-step composed instantiation are defined (the converse
    definedness fails: the composed plugs are re-judged and positivity is conservative,
    see [compose_converse_refuted]). *)
From Coq Require Import NArith List Bool Lia.
From Pi2 Require Import ML.Syntax ML.Subst ML.Facts.
Import ListNotations.
Open Scope N_scope.

Section G.
Variable g : guards.

Fixpoint inst_all (ps:list pat) (vars:list N) (plugs:list pat) : option (list pat) :=
  match ps with
  | [] => Some []
  | p::ps' => match inst g p vars plugs, inst_all ps' vars plugs with
              | Some q, Some qs => Some (q::qs) | _, _ => None end
  end.

Lemma touches_app p : forall v1 v2, touches p (v1 ++ v2) = touches p v1 || touches p v2.
Proof.
  induction p as [n|n|n|l IHl r IHr|l IHl r IHr|z q IHq|Z q IHq|id ef sf pos neg holes|q IHq z plug IHplug|q IHq Z plug IHplug];
    intros v1 v2; simpl; try reflexivity; rewrite ?IHl, ?IHr, ?IHq, ?IHplug.
  - destruct (touches l v1), (touches l v2), (touches r v1), (touches r v2); reflexivity.
  - destruct (touches l v1), (touches l v2), (touches r v1), (touches r v2); reflexivity.
  - reflexivity.
  - reflexivity.
  - unfold mem. apply existsb_app.
  - destruct (touches q v1), (touches q v2), (touches plug v1), (touches plug v2); reflexivity.
  - destruct (touches q v1), (touches q v2), (touches plug v1), (touches plug v2); reflexivity.
Qed.

(** lookup in the composed map *)
Lemma lookup_app_l id : forall v1 p1 v2 p2 r, length v1 = length p1 ->
  lookup id v1 p1 = Some r -> lookup id (v1 ++ v2) (p1 ++ p2) = Some r.
Proof.
  induction v1 as [|v vs IH]; intros p1 v2 p2 r HL H; simpl in *; [discriminate|].
  destruct p1 as [|p ps]; [discriminate|]. simpl in *.
  destruct (N.eqb v id); [exact H|]. apply IH; [lia | exact H].
Qed.
Lemma lookup_app_r id : forall v1 p1 v2 p2, length v1 = length p1 ->
  lookup id v1 p1 = None -> lookup id (v1 ++ v2) (p1 ++ p2) = lookup id v2 p2.
Proof.
  induction v1 as [|v vs IH]; intros p1 v2 p2 HL H; simpl in *.
  - destruct p1; [reflexivity | discriminate].
  - destruct p1 as [|p ps]; [discriminate|]. simpl in *.
    destruct (N.eqb v id); [discriminate|]. apply IH; [lia | exact H].
Qed.
Lemma inst_all_length ps : forall vars plugs qs, inst_all ps vars plugs = Some qs -> length qs = length ps.
Proof.
  induction ps as [|p ps IH]; intros vars plugs qs H; simpl in H; [inversion H; reflexivity|].
  destruct (inst g p vars plugs); [|discriminate]. destruct (inst_all ps vars plugs) eqn:E; [|discriminate].
  inversion H; subst. simpl. rewrite (IH _ _ _ E). reflexivity.
Qed.
Lemma lookup_inst_all id : forall v1 p1 p1' v2 p2 pl, inst_all p1 v2 p2 = Some p1' ->
  lookup id v1 p1 = Some (Some pl) -> exists pl', lookup id v1 p1' = Some (Some pl') /\ inst g pl v2 p2 = Some pl'.
Proof.
  induction v1 as [|v vs IH]; intros p1 p1' v2 p2 pl HA H; [discriminate H|].
  cbn [lookup] in *. destruct (N.eqb v id).
  - destruct p1 as [|p ps]; cbn [hd_error] in H; [discriminate H|]. inversion H; subst p.
    cbn [inst_all] in HA. destruct (inst g pl v2 p2) eqn:E; [|discriminate HA]. destruct (inst_all ps v2 p2); [|discriminate HA].
    inversion HA; subst. eexists; split; reflexivity.
  - destruct p1 as [|p ps].
    + exfalso. cbn [tl] in H. clear -H. induction vs as [|a l IHl]; [discriminate H|].
      cbn [lookup] in H. destruct (N.eqb a id); [discriminate H | exact (IHl H)].
    + cbn [inst_all] in HA. destruct (inst g p v2 p2); [|discriminate HA]. destruct (inst_all ps v2 p2) eqn:E; [|discriminate HA].
      inversion HA; subst. cbn [tl] in *. eapply IH; eassumption.
Qed.

(** instantiation commutes with the substitutions it resolves *)
Lemma inst_apply_esubst a : forall y b c v2 p2 a3 b3 c3,
  apply_esubst g a y b = Some c -> inst g a v2 p2 = Some a3 -> inst g b v2 p2 = Some b3 ->
  apply_esubst g a3 y b3 = Some c3 -> inst g c v2 p2 = Some c3.
Proof.
  induction a as [n|n|n|l IHl r IHr|l IHl r IHr|z q IHq|Z q IHq|id ef sf pos neg holes|q IHq z plug IHplug|q IHq Z plug IHplug];
    intros y b c v2 p2 a3 b3 c3 Hs Ha Hb Hs3.
  - simpl in Hs, Ha. inversion Ha; subst. inversion Hs; subst. simpl in Hs3. destruct (N.eqb n y); [congruence|]. inversion Hs3; subst. reflexivity.
  - simpl in Hs, Ha. inversion Ha; subst. inversion Hs; subst. simpl in Hs3. inversion Hs3; subst. reflexivity.
  - simpl in Hs, Ha. inversion Ha; subst. inversion Hs; subst. simpl in Hs3. inversion Hs3; subst. reflexivity.
  - simpl in Hs, Ha. destruct (apply_esubst g l y b) eqn:El; [|discriminate]. destruct (apply_esubst g r y b) eqn:Er; [|discriminate].
    destruct (inst g l v2 p2) eqn:Il; [|discriminate]. destruct (inst g r v2 p2) eqn:Ir; [|discriminate].
    inversion Hs; subst. inversion Ha; subst. simpl in Hs3.
    destruct (apply_esubst g p1 y b3) eqn:E1; [|discriminate]. destruct (apply_esubst g p3 y b3) eqn:E2; [|discriminate].
    inversion Hs3; subst. simpl. rewrite (IHl _ _ _ _ _ _ _ _ El Il Hb E1), (IHr _ _ _ _ _ _ _ _ Er Ir Hb E2). reflexivity.
  - simpl in Hs, Ha. destruct (apply_esubst g l y b) eqn:El; [|discriminate]. destruct (apply_esubst g r y b) eqn:Er; [|discriminate].
    destruct (inst g l v2 p2) eqn:Il; [|discriminate]. destruct (inst g r v2 p2) eqn:Ir; [|discriminate].
    inversion Hs; subst. inversion Ha; subst. simpl in Hs3.
    destruct (apply_esubst g p1 y b3) eqn:E1; [|discriminate]. destruct (apply_esubst g p3 y b3) eqn:E2; [|discriminate].
    inversion Hs3; subst. simpl. rewrite (IHl _ _ _ _ _ _ _ _ El Il Hb E1), (IHr _ _ _ _ _ _ _ _ Er Ir Hb E2). reflexivity.
  - simpl in Hs, Ha. destruct (inst g q v2 p2) eqn:Iq; [|discriminate]. inversion Ha; subst. simpl in Hs3.
    destruct (N.eqb z y).
    + inversion Hs; subst. inversion Hs3; subst. simpl. rewrite Iq. reflexivity.
    + destruct (chk _ _); [|discriminate]. destruct (apply_esubst g q y b) eqn:Eq; [|discriminate]. inversion Hs; subst.
      destruct (chk _ _); [|discriminate]. destruct (apply_esubst g p y b3) eqn:E3; [|discriminate]. inversion Hs3; subst.
      simpl. rewrite (IHq _ _ _ _ _ _ _ _ Eq Iq Hb E3). reflexivity.
  - simpl in Hs, Ha. destruct (inst g q v2 p2) eqn:Iq; [|discriminate]. inversion Ha; subst. simpl in Hs3.
    destruct (chk _ _); [|discriminate]. destruct (apply_esubst g q y b) eqn:Eq; [|discriminate]. inversion Hs; subst.
    destruct (chk _ _); [|discriminate]. destruct (apply_esubst g p y b3) eqn:E3; [|discriminate]. inversion Hs3; subst.
    simpl. rewrite (IHq _ _ _ _ _ _ _ _ Eq Iq Hb E3). reflexivity.
  - (* metavariable head: deferred *)
    simpl in Hs. inversion Hs; subst. clear Hs.
    change (inst g (ESub (MVar id ef sf pos neg holes) y b) v2 p2) with
      (if touches (MVar id ef sf pos neg holes) v2 || touches b v2
       then match inst g (MVar id ef sf pos neg holes) v2 p2, inst g b v2 p2 with Some a', Some b' => apply_esubst g a' y b' | _, _ => None end
       else Some (ESub (MVar id ef sf pos neg holes) y b)).
    destruct (touches (MVar id ef sf pos neg holes) v2 || touches b v2) eqn:Et.
    + rewrite Ha, Hb. exact Hs3.
    + apply orb_false_iff in Et as [T1 T2].
      rewrite (inst_untouched g _ _ p2 T1) in Ha. rewrite (inst_untouched g _ _ p2 T2) in Hb.
      inversion Ha; subst. inversion Hb; subst. simpl in Hs3. inversion Hs3; subst. reflexivity.
  - simpl in Hs. inversion Hs; subst. clear Hs.
    change (inst g (ESub (ESub q z plug) y b) v2 p2) with
      (if touches (ESub q z plug) v2 || touches b v2
       then match inst g (ESub q z plug) v2 p2, inst g b v2 p2 with Some a', Some b' => apply_esubst g a' y b' | _, _ => None end
       else Some (ESub (ESub q z plug) y b)).
    destruct (touches (ESub q z plug) v2 || touches b v2) eqn:Et.
    + rewrite Ha, Hb. exact Hs3.
    + apply orb_false_iff in Et as [T1 T2].
      rewrite (inst_untouched g _ _ p2 T1) in Ha. rewrite (inst_untouched g _ _ p2 T2) in Hb.
      inversion Ha; subst. inversion Hb; subst. simpl in Hs3. inversion Hs3; subst. reflexivity.
  - simpl in Hs. inversion Hs; subst. clear Hs.
    change (inst g (ESub (SSub q Z plug) y b) v2 p2) with
      (if touches (SSub q Z plug) v2 || touches b v2
       then match inst g (SSub q Z plug) v2 p2, inst g b v2 p2 with Some a', Some b' => apply_esubst g a' y b' | _, _ => None end
       else Some (ESub (SSub q Z plug) y b)).
    destruct (touches (SSub q Z plug) v2 || touches b v2) eqn:Et.
    + rewrite Ha, Hb. exact Hs3.
    + apply orb_false_iff in Et as [T1 T2].
      rewrite (inst_untouched g _ _ p2 T1) in Ha. rewrite (inst_untouched g _ _ p2 T2) in Hb.
      inversion Ha; subst. inversion Hb; subst. simpl in Hs3. inversion Hs3; subst. reflexivity.
Qed.
Lemma inst_apply_ssubst a : forall y b c v2 p2 a3 b3 c3,
  apply_ssubst g a y b = Some c -> inst g a v2 p2 = Some a3 -> inst g b v2 p2 = Some b3 ->
  apply_ssubst g a3 y b3 = Some c3 -> inst g c v2 p2 = Some c3.
Proof.
  induction a as [n|n|n|l IHl r IHr|l IHl r IHr|z q IHq|Z q IHq|id ef sf pos neg holes|q IHq z plug IHplug|q IHq Z plug IHplug];
    intros y b c v2 p2 a3 b3 c3 Hs Ha Hb Hs3.
  - simpl in Hs, Ha. inversion Ha; subst. inversion Hs; subst. simpl in Hs3. inversion Hs3; subst. reflexivity.
  - simpl in Hs, Ha. inversion Ha; subst. inversion Hs; subst. simpl in Hs3. destruct (N.eqb n y); [congruence|]. inversion Hs3; subst. reflexivity.
  - simpl in Hs, Ha. inversion Ha; subst. inversion Hs; subst. simpl in Hs3. inversion Hs3; subst. reflexivity.
  - simpl in Hs, Ha. destruct (apply_ssubst g l y b) eqn:El; [|discriminate]. destruct (apply_ssubst g r y b) eqn:Er; [|discriminate].
    destruct (inst g l v2 p2) eqn:Il; [|discriminate]. destruct (inst g r v2 p2) eqn:Ir; [|discriminate].
    inversion Hs; subst. inversion Ha; subst. simpl in Hs3.
    destruct (apply_ssubst g p1 y b3) eqn:E1; [|discriminate]. destruct (apply_ssubst g p3 y b3) eqn:E2; [|discriminate].
    inversion Hs3; subst. simpl. rewrite (IHl _ _ _ _ _ _ _ _ El Il Hb E1), (IHr _ _ _ _ _ _ _ _ Er Ir Hb E2). reflexivity.
  - simpl in Hs, Ha. destruct (apply_ssubst g l y b) eqn:El; [|discriminate]. destruct (apply_ssubst g r y b) eqn:Er; [|discriminate].
    destruct (inst g l v2 p2) eqn:Il; [|discriminate]. destruct (inst g r v2 p2) eqn:Ir; [|discriminate].
    inversion Hs; subst. inversion Ha; subst. simpl in Hs3.
    destruct (apply_ssubst g p1 y b3) eqn:E1; [|discriminate]. destruct (apply_ssubst g p3 y b3) eqn:E2; [|discriminate].
    inversion Hs3; subst. simpl. rewrite (IHl _ _ _ _ _ _ _ _ El Il Hb E1), (IHr _ _ _ _ _ _ _ _ Er Ir Hb E2). reflexivity.
  - simpl in Hs, Ha. destruct (inst g q v2 p2) eqn:Iq; [|discriminate]. inversion Ha; subst. simpl in Hs3.
    destruct (chk _ _); [|discriminate]. destruct (apply_ssubst g q y b) eqn:Eq; [|discriminate]. inversion Hs; subst.
    destruct (chk _ _); [|discriminate]. destruct (apply_ssubst g p y b3) eqn:E3; [|discriminate]. inversion Hs3; subst.
    simpl. rewrite (IHq _ _ _ _ _ _ _ _ Eq Iq Hb E3). reflexivity.
  - simpl in Hs, Ha. destruct (inst g q v2 p2) eqn:Iq; [|discriminate]. inversion Ha; subst. simpl in Hs3.
    destruct (N.eqb Z y).
    + inversion Hs; subst. inversion Hs3; subst. simpl. rewrite Iq. reflexivity.
    + destruct (chk _ _); [|discriminate]. destruct (apply_ssubst g q y b) eqn:Eq; [|discriminate]. inversion Hs; subst.
      destruct (chk _ _); [|discriminate]. destruct (apply_ssubst g p y b3) eqn:E3; [|discriminate]. inversion Hs3; subst.
      simpl. rewrite (IHq _ _ _ _ _ _ _ _ Eq Iq Hb E3). reflexivity.
  - (* metavariable head: deferred *)
    simpl in Hs. inversion Hs; subst. clear Hs.
    change (inst g (SSub (MVar id ef sf pos neg holes) y b) v2 p2) with
      (if touches (MVar id ef sf pos neg holes) v2 || touches b v2
       then match inst g (MVar id ef sf pos neg holes) v2 p2, inst g b v2 p2 with Some a', Some b' => apply_ssubst g a' y b' | _, _ => None end
       else Some (SSub (MVar id ef sf pos neg holes) y b)).
    destruct (touches (MVar id ef sf pos neg holes) v2 || touches b v2) eqn:Et.
    + rewrite Ha, Hb. exact Hs3.
    + apply orb_false_iff in Et as [T1 T2].
      rewrite (inst_untouched g _ _ p2 T1) in Ha. rewrite (inst_untouched g _ _ p2 T2) in Hb.
      inversion Ha; subst. inversion Hb; subst. simpl in Hs3. inversion Hs3; subst. reflexivity.
  - simpl in Hs. inversion Hs; subst. clear Hs.
    change (inst g (SSub (ESub q z plug) y b) v2 p2) with
      (if touches (ESub q z plug) v2 || touches b v2
       then match inst g (ESub q z plug) v2 p2, inst g b v2 p2 with Some a', Some b' => apply_ssubst g a' y b' | _, _ => None end
       else Some (SSub (ESub q z plug) y b)).
    destruct (touches (ESub q z plug) v2 || touches b v2) eqn:Et.
    + rewrite Ha, Hb. exact Hs3.
    + apply orb_false_iff in Et as [T1 T2].
      rewrite (inst_untouched g _ _ p2 T1) in Ha. rewrite (inst_untouched g _ _ p2 T2) in Hb.
      inversion Ha; subst. inversion Hb; subst. simpl in Hs3. inversion Hs3; subst. reflexivity.
  - simpl in Hs. inversion Hs; subst. clear Hs.
    change (inst g (SSub (SSub q Z plug) y b) v2 p2) with
      (if touches (SSub q Z plug) v2 || touches b v2
       then match inst g (SSub q Z plug) v2 p2, inst g b v2 p2 with Some a', Some b' => apply_ssubst g a' y b' | _, _ => None end
       else Some (SSub (SSub q Z plug) y b)).
    destruct (touches (SSub q Z plug) v2 || touches b v2) eqn:Et.
    + rewrite Ha, Hb. exact Hs3.
    + apply orb_false_iff in Et as [T1 T2].
      rewrite (inst_untouched g _ _ p2 T1) in Ha. rewrite (inst_untouched g _ _ p2 T2) in Hb.
      inversion Ha; subst. inversion Hb; subst. simpl in Hs3. inversion Hs3; subst. reflexivity.
Qed.

(** ** the composition law *)
Theorem inst_compose p : forall v1 p1 v2 p2 p1' q1 q3,
  length v1 = length p1 ->
  inst_all p1 v2 p2 = Some p1' ->                       (* the composed plugs  d'(d(i)) *)
  inst g p v1 p1 = Some q1 ->                           (* first step *)
  inst g p (v1 ++ v2) (p1' ++ p2) = Some q3 ->          (* one step with the composed map *)
  inst g q1 v2 p2 = Some q3.                            (* second step: defined and equal *)
Proof.
  induction p as [n|n|n|l IHl r IHr|l IHl r IHr|z q IHq|Z q IHq|id ef sf pos neg holes|q IHq z plug IHplug|q IHq Z plug IHplug];
    intros v1 p1 v2 p2 p1' q1 q3 HL HA H1 H3.
  - simpl in *. inversion H1; subst. inversion H3; subst. reflexivity.
  - simpl in *. inversion H1; subst. inversion H3; subst. reflexivity.
  - simpl in *. inversion H1; subst. inversion H3; subst. reflexivity.
  - simpl in H1, H3. destruct (inst g l v1 p1) eqn:A1; [|discriminate]. destruct (inst g r v1 p1) eqn:B1; [|discriminate].
    destruct (inst g l (v1 ++ v2) (p1' ++ p2)) eqn:A3; [|discriminate]. destruct (inst g r (v1 ++ v2) (p1' ++ p2)) eqn:B3; [|discriminate].
    inversion H1; subst. inversion H3; subst. simpl.
    rewrite (IHl _ _ _ _ _ _ _ HL HA A1 A3), (IHr _ _ _ _ _ _ _ HL HA B1 B3). reflexivity.
  - simpl in H1, H3. destruct (inst g l v1 p1) eqn:A1; [|discriminate]. destruct (inst g r v1 p1) eqn:B1; [|discriminate].
    destruct (inst g l (v1 ++ v2) (p1' ++ p2)) eqn:A3; [|discriminate]. destruct (inst g r (v1 ++ v2) (p1' ++ p2)) eqn:B3; [|discriminate].
    inversion H1; subst. inversion H3; subst. simpl.
    rewrite (IHl _ _ _ _ _ _ _ HL HA A1 A3), (IHr _ _ _ _ _ _ _ HL HA B1 B3). reflexivity.
  - simpl in H1, H3. destruct (inst g q v1 p1) eqn:A1; [|discriminate]. destruct (inst g q (v1 ++ v2) (p1' ++ p2)) eqn:A3; [|discriminate].
    inversion H1; subst. inversion H3; subst. simpl. rewrite (IHq _ _ _ _ _ _ _ HL HA A1 A3). reflexivity.
  - simpl in H1, H3. destruct (inst g q v1 p1) eqn:A1; [|discriminate]. destruct (inst g q (v1 ++ v2) (p1' ++ p2)) eqn:A3; [|discriminate].
    inversion H1; subst. inversion H3; subst. simpl. rewrite (IHq _ _ _ _ _ _ _ HL HA A1 A3). reflexivity.
  - (* metavariable *)
    assert (HL': length v1 = length p1') by (rewrite (inst_all_length _ _ _ _ HA); exact HL).
    cbn [inst] in H1, H3. destruct (lookup id v1 p1) as [[pl|]|] eqn:E1.
    + destruct (chk _ _); [|discriminate]. inversion H1; subst q1.
      destruct (lookup_inst_all _ _ _ _ _ _ _ HA E1) as (pl' & E1' & Ipl).
      rewrite (lookup_app_l _ _ _ _ _ _ HL' E1') in H3. destruct (chk _ _); [|discriminate]. inversion H3; subst. exact Ipl.
    + discriminate.
    + inversion H1; subst q1.
      assert (E1': lookup id v1 p1' = None) by (apply lookup_none; apply (lookup_none id v1 p1); exact E1).
      rewrite (lookup_app_r _ _ _ _ _ HL' E1') in H3. cbn [inst]. exact H3.
  - (* ESubst *)
    cbn [inst] in H1, H3. rewrite !touches_app in H3.
    destruct (touches q v1 || touches plug v1) eqn:T1.
    + assert (T3: (touches q v1 || touches q v2 || (touches plug v1 || touches plug v2)) = true).
      { destruct (touches q v1), (touches plug v1); simpl in *; try discriminate; rewrite ?orb_true_r; reflexivity. }
      rewrite T3 in H3.
      destruct (inst g q v1 p1) as [a|] eqn:A1; [|discriminate]. destruct (inst g plug v1 p1) as [b|] eqn:B1; [|discriminate].
      destruct (inst g q (v1 ++ v2) (p1' ++ p2)) as [a3|] eqn:A3; [|discriminate]. destruct (inst g plug (v1 ++ v2) (p1' ++ p2)) as [b3|] eqn:B3; [|discriminate].
      eapply inst_apply_esubst; [exact H1 | eapply IHq; eassumption | eapply IHplug; eassumption | exact H3].
    + inversion H1; subst q1. apply orb_false_iff in T1 as [Tq Tp]. rewrite Tq, Tp in H3. cbn [orb] in H3.
      cbn [inst].
      destruct (touches q v2 || touches plug v2) eqn:T2; [|exact H3].
      destruct (inst g q (v1 ++ v2) (p1' ++ p2)) as [a3|] eqn:A3; [|discriminate]. destruct (inst g plug (v1 ++ v2) (p1' ++ p2)) as [b3|] eqn:B3; [|discriminate].
      rewrite (IHq _ _ _ _ _ _ _ HL HA (inst_untouched g _ _ p1 Tq) A3), (IHplug _ _ _ _ _ _ _ HL HA (inst_untouched g _ _ p1 Tp) B3). exact H3.
  - (* SSubst *)
    cbn [inst] in H1, H3. rewrite !touches_app in H3.
    destruct (touches q v1 || touches plug v1) eqn:T1.
    + assert (T3: (touches q v1 || touches q v2 || (touches plug v1 || touches plug v2)) = true).
      { destruct (touches q v1), (touches plug v1); simpl in *; try discriminate; rewrite ?orb_true_r; reflexivity. }
      rewrite T3 in H3.
      destruct (inst g q v1 p1) as [a|] eqn:A1; [|discriminate]. destruct (inst g plug v1 p1) as [b|] eqn:B1; [|discriminate].
      destruct (inst g q (v1 ++ v2) (p1' ++ p2)) as [a3|] eqn:A3; [|discriminate]. destruct (inst g plug (v1 ++ v2) (p1' ++ p2)) as [b3|] eqn:B3; [|discriminate].
      eapply inst_apply_ssubst; [exact H1 | eapply IHq; eassumption | eapply IHplug; eassumption | exact H3].
    + inversion H1; subst q1. apply orb_false_iff in T1 as [Tq Tp]. rewrite Tq, Tp in H3. cbn [orb] in H3.
      cbn [inst].
      destruct (touches q v2 || touches plug v2) eqn:T2; [|exact H3].
      destruct (inst g q (v1 ++ v2) (p1' ++ p2)) as [a3|] eqn:A3; [|discriminate]. destruct (inst g plug (v1 ++ v2) (p1' ++ p2)) as [b3|] eqn:B3; [|discriminate].
      rewrite (IHq _ _ _ _ _ _ _ HL HA (inst_untouched g _ _ p1 Tq) A3), (IHplug _ _ _ _ _ _ _ HL HA (inst_untouched g _ _ p1 Tp) B3). exact H3.
Qed.
End G.

(** the converse definedness fails: positivity is judged conservatively on the composed plug *)
Lemma compose_converse_refuted :
  let p := MVar 0 [] [] [5] [] [] in
  let d_plug := ESub (MVar 1 [] [] [5] [] []) 7 (MVar 2 [] [5] [] [] []) in
  exists q1 q2,
    inst guards_sound p [0] [d_plug] = Some q1 /\ inst guards_sound q1 [1] [EVar 7] = Some q2 /\
    inst_all guards_sound [d_plug] [1] [EVar 7] = Some [q2] /\
    inst guards_sound p ([0] ++ [1]) ([q2] ++ [EVar 7]) = None.
Proof. eexists. eexists. repeat split. Qed.

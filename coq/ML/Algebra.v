(** C11 (checker side): algebra of substitution and instantiation in lib.rs. *)
From Coq Require Import NArith List Bool Lia.
From Pi2 Require Import ML.Syntax ML.Subst ML.Facts ML.Concrete ML.JudgeInst.
Import ListNotations.
Open Scope N_scope.

Ltac bsplit := repeat match goal with H : _ && _ = true |- _ => apply andb_true_iff in H as [? ?] end.

Section G.
Variable g : guards.

(** ** when defined, the checker's substitution IS the textbook structural substitution *)
Lemma apply_esubst_ref a : forall x r c, concrete a = true -> apply_esubst g a x r = Some c -> c = esubst_ref a x r.
Proof.
  induction a as [n|n|n|l IHl r0 IHr|l IHl r0 IHr|z q IHq|Z q IHq|id ef sf pos neg holes|q IHq z plug IHplug|q IHq Z plug IHplug];
    intros x r c Hc Hs; simpl in *; try discriminate Hc.
  - inversion Hs; reflexivity.
  - inversion Hs; reflexivity.
  - inversion Hs; reflexivity.
  - bsplit. destruct (apply_esubst g l x r) eqn:El; [|discriminate]. destruct (apply_esubst g r0 x r) eqn:Er; [|discriminate].
    inversion Hs; subst. rewrite <- (IHl _ _ _ H El), <- (IHr _ _ _ H0 Er). reflexivity.
  - bsplit. destruct (apply_esubst g l x r) eqn:El; [|discriminate]. destruct (apply_esubst g r0 x r) eqn:Er; [|discriminate].
    inversion Hs; subst. rewrite <- (IHl _ _ _ H El), <- (IHr _ _ _ H0 Er). reflexivity.
  - destruct (N.eqb z x); [inversion Hs; reflexivity|].
    destruct (chk _ _); [|discriminate]. destruct (apply_esubst g q x r) eqn:Eq; [|discriminate].
    inversion Hs; subst. rewrite <- (IHq _ _ _ Hc Eq). reflexivity.
  - destruct (chk _ _); [|discriminate]. destruct (apply_esubst g q x r) eqn:Eq; [|discriminate].
    inversion Hs; subst. rewrite <- (IHq _ _ _ Hc Eq). reflexivity.
Qed.

Lemma apply_ssubst_ref a : forall X r c, concrete a = true -> apply_ssubst g a X r = Some c -> c = ssubst_ref a X r.
Proof.
  induction a as [n|n|n|l IHl r0 IHr|l IHl r0 IHr|z q IHq|Z q IHq|id ef sf pos neg holes|q IHq z plug IHplug|q IHq Z plug IHplug];
    intros X r c Hc Hs; simpl in *; try discriminate Hc.
  - inversion Hs; reflexivity.
  - inversion Hs; reflexivity.
  - inversion Hs; reflexivity.
  - bsplit. destruct (apply_ssubst g l X r) eqn:El; [|discriminate]. destruct (apply_ssubst g r0 X r) eqn:Er; [|discriminate].
    inversion Hs; subst. rewrite <- (IHl _ _ _ H El), <- (IHr _ _ _ H0 Er). reflexivity.
  - bsplit. destruct (apply_ssubst g l X r) eqn:El; [|discriminate]. destruct (apply_ssubst g r0 X r) eqn:Er; [|discriminate].
    inversion Hs; subst. rewrite <- (IHl _ _ _ H El), <- (IHr _ _ _ H0 Er). reflexivity.
  - destruct (chk _ _); [|discriminate]. destruct (apply_ssubst g q X r) eqn:Eq; [|discriminate].
    inversion Hs; subst. rewrite <- (IHq _ _ _ Hc Eq). reflexivity.
  - destruct (N.eqb Z X); [inversion Hs; reflexivity|].
    destruct (chk _ _); [|discriminate]. destruct (apply_ssubst g q X r) eqn:Eq; [|discriminate].
    inversion Hs; subst. rewrite <- (IHq _ _ _ Hc Eq). reflexivity.
Qed.

(** ** deferred on metavariables and on pending substitutions *)
Lemma esubst_deferred a x r : is_meta_head a = true -> apply_esubst g a x r = Some (ESub a x r).
Proof. destruct a; simpl; intros H; try discriminate; reflexivity. Qed.
Lemma ssubst_deferred a X r : is_meta_head a = true -> apply_ssubst g a X r = Some (SSub a X r).
Proof. destruct a; simpl; intros H; try discriminate; reflexivity. Qed.

(** ** instantiation is simultaneous (plugs are inserted verbatim, never re-instantiated) and
       distributes over every constructor *)
Lemma inst_distributes vars plugs :
  (forall l r, inst g (Imp l r) vars plugs = match inst g l vars plugs, inst g r vars plugs with Some a, Some b => Some (Imp a b) | _, _ => None end) /\
  (forall l r, inst g (App l r) vars plugs = match inst g l vars plugs, inst g r vars plugs with Some a, Some b => Some (App a b) | _, _ => None end) /\
  (forall y q, inst g (Ex y q) vars plugs = option_map (Ex y) (inst g q vars plugs)) /\
  (forall Y q, inst g (Mu Y q) vars plugs = option_map (Mu Y) (inst g q vars plugs)) /\
  (forall n, inst g (EVar n) vars plugs = Some (EVar n)) /\ (forall n, inst g (SVar n) vars plugs = Some (SVar n)) /\
  (forall n, inst g (Sym n) vars plugs = Some (Sym n)).
Proof. repeat split. Qed.

Lemma inst_simultaneous id ef sf pos neg holes vars plugs plug :
  lookup id vars plugs = Some (Some plug) ->
  chk (g_inst_constraints g) (check_constraints ef sf pos neg plug) = true ->
  inst g (MVar id ef sf pos neg holes) vars plugs = Some plug.
Proof. intros H1 H2. simpl. rewrite H1, H2. reflexivity. Qed.

Lemma e_fresh_efree r : forall z, e_fresh r z = true -> efree z r = false.
Proof.
  induction r as [n|n|n|l IHl r0 IHr|l IHl r0 IHr|w q0 IHq0|W q0 IHq0|id ef sf pos neg holes|q0 IHq0 w plug IHplug|q0 IHq0 W plug IHplug];
    intros z H; simpl in *; try reflexivity.
  - apply negb_true_iff in H. exact H.
  - bsplit. rewrite IHl, IHr; auto.
  - bsplit. rewrite IHl, IHr; auto.
  - destruct (N.eqb z w); [reflexivity|]. simpl in *. apply IHq0, H.
  - apply IHq0, H.
Qed.

(** ** free variables of a substitution result (concrete patterns): exactly the free occurrences
       are replaced, binders respected *)
Lemma efree_esubst a : forall x r c y, concrete a = true -> g_esubst_exists_capture g = true ->
  apply_esubst g a x r = Some c ->
  efree y c = (negb (N.eqb y x) && efree y a) || (efree x a && efree y r).
Proof.
  induction a as [n|n|n|l IHl r0 IHr|l IHl r0 IHr|z q IHq|Z q IHq|id ef sf pos neg holes|q IHq z plug IHplug|q IHq Z plug IHplug];
    intros x r c y Hc Hg Hs; simpl in *; try discriminate Hc.
  - inversion Hs; subst. destruct (N.eqb n x) eqn:E.
    + apply N.eqb_eq in E. subst. destruct (N.eqb y x) eqn:E2; simpl.
      * reflexivity.
      * destruct (N.eqb x y) eqn:E3; [apply N.eqb_eq in E3; subst; rewrite N.eqb_refl in E2; discriminate|]. reflexivity.
    + simpl. rewrite orb_false_r. destruct (N.eqb n y) eqn:E2; [|rewrite andb_false_r; reflexivity].
      apply N.eqb_eq in E2. subst. rewrite N.eqb_sym in E. rewrite N.eqb_sym. rewrite E. reflexivity.
  - inversion Hs; subst. simpl. rewrite andb_false_r. reflexivity.
  - inversion Hs; subst. simpl. rewrite andb_false_r. reflexivity.
  - bsplit. destruct (apply_esubst g l x r) eqn:El; [|discriminate]. destruct (apply_esubst g r0 x r) eqn:Er; [|discriminate].
    inversion Hs; subst. simpl. rewrite (IHl _ _ _ y H Hg El), (IHr _ _ _ y H0 Hg Er).
    destruct (N.eqb y x), (efree y l), (efree y r0), (efree x l), (efree x r0), (efree y r); reflexivity.
  - bsplit. destruct (apply_esubst g l x r) eqn:El; [|discriminate]. destruct (apply_esubst g r0 x r) eqn:Er; [|discriminate].
    inversion Hs; subst. simpl. rewrite (IHl _ _ _ y H Hg El), (IHr _ _ _ y H0 Hg Er).
    destruct (N.eqb y x), (efree y l), (efree y r0), (efree x l), (efree x r0), (efree y r); reflexivity.
  - destruct (N.eqb z x) eqn:Ezx.
    + apply N.eqb_eq in Ezx. subst z. inversion Hs; subst. simpl. rewrite N.eqb_refl. simpl. rewrite orb_false_r.
      destruct (N.eqb y x); reflexivity.
    + rewrite Hg in Hs. cbn [chk] in Hs. destruct (e_fresh r z) eqn:Ef; [|discriminate].
      destruct (apply_esubst g q x r) eqn:Eq; [|discriminate]. inversion Hs; subst. simpl.
      rewrite (IHq _ _ _ y Hc Hg Eq). rewrite (N.eqb_sym x z), Ezx. simpl.
      destruct (N.eqb y z) eqn:Eyz; simpl.
      * apply N.eqb_eq in Eyz. subst y. rewrite (e_fresh_efree _ _ Ef). rewrite !andb_false_r. reflexivity.
      * reflexivity.
  - destruct (chk _ _); [|discriminate]. destruct (apply_esubst g q x r) eqn:Eq; [|discriminate].
    inversion Hs; subst. simpl. apply (IHq _ _ _ y Hc Hg Eq).
Qed.

(** identity when the variable does not occur (when the checker does not reject conservatively) *)
Lemma esubst_fresh_id a : forall x r c, concrete a = true -> efree x a = false -> apply_esubst g a x r = Some c -> c = a.
Proof.
  induction a as [n|n|n|l IHl r0 IHr|l IHl r0 IHr|z q IHq|Z q IHq|id ef sf pos neg holes|q IHq z plug IHplug|q IHq Z plug IHplug];
    intros x r c Hc Hf Hs; simpl in *; try discriminate Hc.
  - rewrite Hf in Hs. inversion Hs; reflexivity.
  - inversion Hs; reflexivity.
  - inversion Hs; reflexivity.
  - bsplit. apply orb_false_iff in Hf as [F1 F2].
    destruct (apply_esubst g l x r) eqn:El; [|discriminate]. destruct (apply_esubst g r0 x r) eqn:Er; [|discriminate].
    inversion Hs; subst. rewrite (IHl _ _ _ H F1 El), (IHr _ _ _ H0 F2 Er). reflexivity.
  - bsplit. apply orb_false_iff in Hf as [F1 F2].
    destruct (apply_esubst g l x r) eqn:El; [|discriminate]. destruct (apply_esubst g r0 x r) eqn:Er; [|discriminate].
    inversion Hs; subst. rewrite (IHl _ _ _ H F1 El), (IHr _ _ _ H0 F2 Er). reflexivity.
  - destruct (N.eqb z x) eqn:Ezx; [inversion Hs; reflexivity|].
    destruct (chk _ _); [|discriminate]. destruct (apply_esubst g q x r) eqn:Eq; [|discriminate].
    inversion Hs; subst. rewrite (N.eqb_sym x z), Ezx in Hf. simpl in Hf. rewrite (IHq _ _ _ Hc Hf Eq). reflexivity.
  - destruct (chk _ _); [|discriminate]. destruct (apply_esubst g q x r) eqn:Eq; [|discriminate].
    inversion Hs; subst. rewrite (IHq _ _ _ Hc Hf Eq). reflexivity.
Qed.

Lemma ssubst_fresh_id a : forall X r c, concrete a = true -> sfree X a = false -> apply_ssubst g a X r = Some c -> c = a.
Proof.
  unfold sfree.
  induction a as [n|n|n|l IHl r0 IHr|l IHl r0 IHr|z q IHq|Z q IHq|id ef sf pos neg holes|q IHq z plug IHplug|q IHq Z plug IHplug];
    intros X r c Hc Hf Hs; simpl in *; try discriminate Hc.
  - inversion Hs; reflexivity.
  - rewrite orb_false_r in Hf. rewrite Hf in Hs. inversion Hs; reflexivity.
  - inversion Hs; reflexivity.
  - bsplit. destruct (apply_ssubst g l X r) eqn:El; [|discriminate]. destruct (apply_ssubst g r0 X r) eqn:Er; [|discriminate].
    inversion Hs; subst. rewrite (IHl _ _ _ H) with (2:=El), (IHr _ _ _ H0) with (2:=Er); [reflexivity| |];
      destruct (socc true X l), (socc false X l), (socc true X r0), (socc false X r0); simpl in *; try discriminate; reflexivity.
  - bsplit. destruct (apply_ssubst g l X r) eqn:El; [|discriminate]. destruct (apply_ssubst g r0 X r) eqn:Er; [|discriminate].
    inversion Hs; subst. rewrite (IHl _ _ _ H) with (2:=El), (IHr _ _ _ H0) with (2:=Er); [reflexivity| |];
      destruct (socc true X l), (socc false X l), (socc true X r0), (socc false X r0); simpl in *; try discriminate; reflexivity.
  - destruct (chk _ _); [|discriminate]. destruct (apply_ssubst g q X r) eqn:Eq; [|discriminate].
    inversion Hs; subst. rewrite (IHq _ _ _ Hc Hf Eq). reflexivity.
  - destruct (N.eqb Z X) eqn:Ezx; [inversion Hs; reflexivity|].
    destruct (chk _ _); [|discriminate]. destruct (apply_ssubst g q X r) eqn:Eq; [|discriminate].
    inversion Hs; subst. rewrite (N.eqb_sym X Z), Ezx in Hf. simpl in Hf. rewrite (IHq _ _ _ Hc Hf Eq). reflexivity.
Qed.

(** ** instantiation resolves pending substitutions: a closing instantiation with concrete plugs
       yields a concrete pattern *)
Fixpoint closes (p:pat) (vars:list N) : bool :=
  match p with
  | MVar id _ _ _ _ _ => mem id vars
  | Imp l r | App l r => closes l vars && closes r vars
  | Ex _ q | Mu _ q => closes q vars
  | ESub q _ plug | SSub q _ plug => closes q vars && closes plug vars && (touches q vars || touches plug vars)
  | _ => true
  end.

Lemma concrete_apply_esubst a : forall x r c, concrete a = true -> concrete r = true -> apply_esubst g a x r = Some c -> concrete c = true.
Proof. intros x r c Ha Hr Hs. rewrite (apply_esubst_ref _ _ _ _ Ha Hs). clear Hs.
  induction a; simpl in *; try discriminate; try reflexivity; bsplit; rewrite ?IHa1, ?IHa2, ?IHa; auto.
  - destruct (N.eqb n x); auto.
  - destruct (N.eqb x0 x); simpl; auto.
Qed.
Lemma concrete_apply_ssubst a : forall X r c, concrete a = true -> concrete r = true -> apply_ssubst g a X r = Some c -> concrete c = true.
Proof. intros X r c Ha Hr Hs. rewrite (apply_ssubst_ref _ _ _ _ Ha Hs). clear Hs.
  induction a; simpl in *; try discriminate; try reflexivity; bsplit; rewrite ?IHa1, ?IHa2, ?IHa; auto.
  - destruct (N.eqb n X); auto.
  - destruct (N.eqb X0 X); simpl; auto.
Qed.

Lemma lookup_In id vars : forall plugs pl, lookup id vars plugs = Some (Some pl) -> In pl plugs.
Proof.
  induction vars as [|v vs IH]; intros plugs pl; simpl; [discriminate|].
  destruct (N.eqb v id).
  - destruct plugs as [|p ps]; simpl; [discriminate|]. intros H; inversion H; subst. left; reflexivity.
  - destruct plugs as [|p ps]; simpl; intros H; apply IH in H; [destruct H | right; exact H].
Qed.

Lemma inst_resolves p : forall vars plugs q, closes p vars = true -> Forall (fun r => concrete r = true) plugs ->
  inst g p vars plugs = Some q -> concrete q = true.
Proof.
  induction p as [n|n|n|l IHl r0 IHr|l IHl r0 IHr|z q0 IHq|Z q0 IHq|id ef sf pos neg holes|q0 IHq z plug IHplug|q0 IHq Z plug IHplug];
    intros vars plugs q Hcl Hpl Hi; simpl in *.
  - inversion Hi; reflexivity.
  - inversion Hi; reflexivity.
  - inversion Hi; reflexivity.
  - bsplit. destruct (inst g l vars plugs) eqn:El; [|discriminate]. destruct (inst g r0 vars plugs) eqn:Er; [|discriminate].
    inversion Hi; subst. simpl. rewrite (IHl _ _ _ H Hpl El), (IHr _ _ _ H0 Hpl Er). reflexivity.
  - bsplit. destruct (inst g l vars plugs) eqn:El; [|discriminate]. destruct (inst g r0 vars plugs) eqn:Er; [|discriminate].
    inversion Hi; subst. simpl. rewrite (IHl _ _ _ H Hpl El), (IHr _ _ _ H0 Hpl Er). reflexivity.
  - destruct (inst g q0 vars plugs) eqn:Eq; [|discriminate]. inversion Hi; subst. simpl. eapply IHq; eassumption.
  - destruct (inst g q0 vars plugs) eqn:Eq; [|discriminate]. inversion Hi; subst. simpl. eapply IHq; eassumption.
  - destruct (lookup id vars plugs) as [[pl|]|] eqn:El.
    + destruct (chk _ _); [|discriminate]. inversion Hi; subst. apply lookup_In in El. rewrite Forall_forall in Hpl. apply Hpl, El.
    + discriminate.
    + apply lookup_none in El. rewrite El in Hcl. discriminate.
  - bsplit. rewrite H0 in Hi.
    destruct (inst g q0 vars plugs) eqn:Eq; [|discriminate]. destruct (inst g plug vars plugs) eqn:Ep; [|discriminate].
    eapply concrete_apply_esubst; [eapply IHq; eassumption | eapply IHplug; eassumption | exact Hi].
  - bsplit. rewrite H0 in Hi.
    destruct (inst g q0 vars plugs) eqn:Eq; [|discriminate]. destruct (inst g plug vars plugs) eqn:Ep; [|discriminate].
    eapply concrete_apply_ssubst; [eapply IHq; eassumption | eapply IHplug; eassumption | exact Hi].
Qed.

End G.

(** The statement-level translation of [execute_instructions] / [verify] (Gen/Exec.v, regenerated from rust/src/lib.rs on every run)
    IS the hand-written machine of ML/Machine.v under [guards_sound]. *)
From Coq Require Import NArith List Bool.
From Pi2 Require Import ML.Syntax ML.Subst ML.Machine ML.GenAgree Gen.Judge Gen.SubstFns Gen.InstFn Gen.Exec.
Import ListNotations.
Open Scope N_scope.

Lemma gen_axioms_eq : gen_prop1 = ax_prop1 /\ gen_prop2 = ax_prop2 /\ gen_prop3 = ax_prop3
  /\ gen_quantifier = ax_quantifier /\ gen_existence = ax_existence.
Proof. repeat split; reflexivity. Qed.

Ltac break_match :=
  match goal with
  | |- context[match ?x with _ => _ end] => is_var x; destruct x
  | |- context[match ?x with _ => _ end] => destruct x eqn:?
  end.

Ltac gen_rw := rewrite ?gen_well_formed_eq, ?gen_e_fresh_eq, ?gen_apply_ssubst_eq, ?gen_instantiate_in_place_eq in *.

Lemma gen_step_i_eq ph i bs st : gen_step_i ph i bs st = step_i guards_sound ph i bs st.
Proof.
  destruct st as [stk mem cl].
  destruct i; unfold gen_step_i, step_i, push, set_stack, pop_pat, pop_proved, chk, phi;
    cbn -[well_formed gen_well_formed take_ids read_vec apply_ssubst inst nth_error N.to_nat guards_sound];
    change (g_instantiate_arity guards_sound) with true; try reflexivity.
  all: repeat (gen_rw; cbn [well_formed] in *; break_match; try reflexivity; try congruence).
Qed.

Lemma gen_exec_fuel_eq fuel : forall ph bs st, gen_exec_fuel fuel ph bs st = exec_fuel guards_sound fuel ph bs st.
Proof.
  induction fuel as [|f IH]; intros ph bs st; destruct bs as [|op rest]; cbn [gen_exec_fuel exec_fuel]; try reflexivity.
  unfold step. destruct (decode_op op) as [i|]; [|reflexivity].
  rewrite gen_step_i_eq. destruct (step_i guards_sound ph i rest st) as [[rest' st']|]; [apply IH|reflexivity].
Qed.

Lemma gen_exec_eq ph bs st : gen_exec ph bs st = exec guards_sound ph bs st.
Proof. apply gen_exec_fuel_eq. Qed.

(** [verify] of lib.rs, as translated, is the model's [verify] *)
Theorem gen_verify_eq gamma claimsb proofb : gen_verify gamma claimsb proofb = verify guards_sound gamma claimsb proofb.
Proof.
  unfold gen_verify, verify, st0, set_stack. cbn zeta. rewrite gen_exec_eq.
  destruct (exec guards_sound Gamma gamma _) as [[s1 m1 c1]|]; [|reflexivity]. cbn [stack memory claims].
  rewrite gen_exec_eq.
  destruct (exec guards_sound Claim claimsb _) as [[s2 m2 c2]|]; [|reflexivity]. cbn [stack memory claims].
  rewrite gen_exec_eq.
  destruct (exec guards_sound Proof proofb _) as [[s3 m3 c3]|]; [|reflexivity]. cbn [stack memory claims].
  destruct c3; reflexivity.
Qed.

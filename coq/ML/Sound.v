(** C01: every term the machine marks Proved is valid in every model (semantic atoms), by an
    invariant over all instruction streams.  Restricted (ghost guard [g_evar_plugs_only]) to streams
    whose ESubst instructions have element-variable plugs; see Props/C01.v for the statement. *)
From Coq Require Import NArith List Bool Lia Classical_Prop.
From Pi2 Require Import ML.Syntax ML.Subst ML.Machine ML.Facts ML.Sem.
Import ListNotations.
Open Scope N_scope.

(** validity in all models, all semantic atom valuations, all valuations, all points *)
Definition mvalid (p:pat) : Prop :=
  forall (D:Type) (app_i:D->D->D->Prop) (sym_i:N->D->Prop) (av:atoms D),
    av_ok D av -> forall (v:val D) (d:D), eval D app_i sym_i av p v d.

Lemma bot_empty D app_i sym_i av v d : ~ eval D app_i sym_i av bot v d.
Proof. simpl. intro H. apply (H (fun _ => False)). simpl. intros e He. exact He. Qed.

Lemma prop1_mvalid : mvalid ax_prop1.
Proof. intros D a s av _ v d; simpl; auto. Qed.
Lemma prop2_mvalid : mvalid ax_prop2.
Proof. intros D a s av _ v d; simpl; auto. Qed.
Lemma prop3_mvalid : mvalid ax_prop3.
Proof. intros D a s av Hav v d. unfold ax_prop3, neg, phi.
  change (((av 0 [] [] [] [] [] v d -> eval D a s av bot v d) -> eval D a s av bot v d) -> av 0 [] [] [] [] [] v d).
  intros H. apply NNPP. intro Nn. apply (bot_empty D a s av v d). apply H. intro Hp. exfalso. exact (Nn Hp). Qed.
Lemma quantifier_mvalid : mvalid ax_quantifier.
Proof. intros D a s av _ v d. simpl. intros H. eexists. exact H. Qed.
Lemma existence_mvalid : mvalid ax_existence.
Proof. intros D a s av _ v d. simpl. exists d. reflexivity. Qed.

Lemma mp_mvalid l r : mvalid (Imp l r) -> mvalid l -> mvalid r.
Proof. intros H1 H2 D a s av Hav v d. apply (H1 D a s av Hav v d), (H2 D a s av Hav v d). Qed.

Lemma gen_mvalid l r x : mvalid (Imp l r) -> e_fresh r x = true -> mvalid (Imp (Ex x l) r).
Proof. intros H Hf D a s av Hav v d. simpl. intros [b Hb].
  apply (e_fresh_sound D a s av Hav r x v b Hf d). apply (H D a s av Hav). exact Hb. Qed.

Section G.
Variable g : guards.
Hypothesis G_ss_ex : g_ssubst_exists_capture g = true.
Hypothesis G_ss_mu : g_ssubst_mu_capture g = true.
Hypothesis G_es_ex : g_esubst_exists_capture g = true.
Hypothesis G_inst : g_inst_constraints g = true.
Hypothesis G_gen : g_gen_fresh g = true.
Hypothesis G_mp : g_mp_antecedent g = true.
Hypothesis G_evp : g_evar_plugs_only g = true.

Lemma substitution_mvalid p X plug q : mvalid p -> apply_ssubst g p X plug = Some q -> mvalid q.
Proof. intros H Hs D a s av Hav v d.
  apply (ssubst_sound D a s av Hav g G_ss_ex G_ss_mu p X plug q v Hs d). apply H, Hav. Qed.

Lemma instantiate_mvalid p vars plugs q : mvalid p -> evp p = true -> inst g p vars plugs = Some q -> mvalid q.
Proof. intros H Hd Hi D a s av Hav v d.
  apply (inst_sound D a s g G_ss_ex G_ss_mu G_es_ex G_inst av vars plugs Hav p q v Hd Hi d).
  apply H. apply av_upd_ok, Hav. Qed.

(** [evp] is preserved by the three operations *)
Lemma evp_esubst p : forall x z q, evp p = true -> apply_esubst g p x (EVar z) = Some q -> evp q = true.
Proof.
  induction p as [n|n|n|l IHl r IHr|l IHl r IHr|y q IHq|Y q IHq|id ef sf pos neg holes|q IHq y plug IHplug|q IHq Y plug IHplug];
    intros x z q0 He Hs; simpl in Hs, He.
  - inversion Hs; subst. destruct (N.eqb n x); reflexivity.
  - inversion Hs; subst; reflexivity.
  - inversion Hs; subst; reflexivity.
  - apply andb_true_iff in He as [E1 E2].
    destruct (apply_esubst g l x (EVar z)) eqn:El; [|discriminate]. destruct (apply_esubst g r x (EVar z)) eqn:Er; [|discriminate].
    inversion Hs; subst. simpl. rewrite (IHl _ _ _ E1 El), (IHr _ _ _ E2 Er). reflexivity.
  - apply andb_true_iff in He as [E1 E2].
    destruct (apply_esubst g l x (EVar z)) eqn:El; [|discriminate]. destruct (apply_esubst g r x (EVar z)) eqn:Er; [|discriminate].
    inversion Hs; subst. simpl. rewrite (IHl _ _ _ E1 El), (IHr _ _ _ E2 Er). reflexivity.
  - destruct (N.eqb y x); [inversion Hs; subst; exact He|].
    destruct (chk _ _); [|discriminate]. destruct (apply_esubst g q x (EVar z)) eqn:Eq; [|discriminate].
    inversion Hs; subst. simpl. eapply IHq; eassumption.
  - destruct (chk _ _); [|discriminate]. destruct (apply_esubst g q x (EVar z)) eqn:Eq; [|discriminate].
    inversion Hs; subst. simpl. eapply IHq; eassumption.
  - inversion Hs; subst. reflexivity.
  - inversion Hs; subst. simpl. simpl in He. rewrite He. reflexivity.
  - inversion Hs; subst. simpl. simpl in He. rewrite He. reflexivity.
Qed.

Lemma evp_ssubst p : forall X plug q, evp p = true -> evp plug = true -> apply_ssubst g p X plug = Some q -> evp q = true.
Proof.
  induction p as [n|n|n|l IHl r IHr|l IHl r IHr|y q IHq|Y q IHq|id ef sf pos neg holes|q IHq y plug IHplug|q IHq Y plug IHplug];
    intros X pl q0 He Hp Hs; simpl in Hs, He.
  - inversion Hs; subst; reflexivity.
  - inversion Hs; subst. destruct (N.eqb n X); [exact Hp | reflexivity].
  - inversion Hs; subst; reflexivity.
  - apply andb_true_iff in He as [E1 E2].
    destruct (apply_ssubst g l X pl) eqn:El; [|discriminate]. destruct (apply_ssubst g r X pl) eqn:Er; [|discriminate].
    inversion Hs; subst. simpl. rewrite (IHl _ _ _ E1 Hp El), (IHr _ _ _ E2 Hp Er). reflexivity.
  - apply andb_true_iff in He as [E1 E2].
    destruct (apply_ssubst g l X pl) eqn:El; [|discriminate]. destruct (apply_ssubst g r X pl) eqn:Er; [|discriminate].
    inversion Hs; subst. simpl. rewrite (IHl _ _ _ E1 Hp El), (IHr _ _ _ E2 Hp Er). reflexivity.
  - destruct (chk _ _); [|discriminate]. destruct (apply_ssubst g q X pl) eqn:Eq; [|discriminate].
    inversion Hs; subst. simpl. eapply IHq; eassumption.
  - destruct (N.eqb Y X); [inversion Hs; subst; exact He|].
    destruct (chk _ _); [|discriminate]. destruct (apply_ssubst g q X pl) eqn:Eq; [|discriminate].
    inversion Hs; subst. simpl. eapply IHq; eassumption.
  - inversion Hs; subst. simpl. exact Hp.
  - inversion Hs; subst. simpl. simpl in He. rewrite He, Hp. reflexivity.
  - inversion Hs; subst. simpl. simpl in He. rewrite He, Hp. reflexivity.
Qed.

Lemma lookup_In id vars : forall plugs pl, lookup id vars plugs = Some (Some pl) -> In pl plugs.
Proof.
  induction vars as [|v vs IH]; intros plugs pl; simpl; [discriminate|].
  destruct (N.eqb v id).
  - destruct plugs as [|p ps]; simpl; [discriminate|]. intros H; inversion H; subst. left; reflexivity.
  - destruct plugs as [|p ps]; simpl; intros H; apply IH in H; [destruct H | right; exact H].
Qed.

Lemma evp_inst vars plugs (Hpl: Forall (fun p => evp p = true) plugs) p :
  forall q, evp p = true -> inst g p vars plugs = Some q -> evp q = true.
Proof.
  induction p as [n|n|n|l IHl r IHr|l IHl r IHr|y q IHq|Y q IHq|id ef sf pos neg holes|q IHq y plug IHplug|q IHq Y plug IHplug];
    intros q0 He Hi; simpl in Hi, He.
  - inversion Hi; subst; reflexivity.
  - inversion Hi; subst; reflexivity.
  - inversion Hi; subst; reflexivity.
  - apply andb_true_iff in He as [E1 E2].
    destruct (inst g l vars plugs) eqn:El; [|discriminate]. destruct (inst g r vars plugs) eqn:Er; [|discriminate].
    inversion Hi; subst. simpl. rewrite (IHl _ E1 eq_refl), (IHr _ E2 eq_refl). reflexivity.
  - apply andb_true_iff in He as [E1 E2].
    destruct (inst g l vars plugs) eqn:El; [|discriminate]. destruct (inst g r vars plugs) eqn:Er; [|discriminate].
    inversion Hi; subst. simpl. rewrite (IHl _ E1 eq_refl), (IHr _ E2 eq_refl). reflexivity.
  - destruct (inst g q vars plugs) eqn:Eq; [|discriminate]. inversion Hi; subst. simpl. apply IHq; auto.
  - destruct (inst g q vars plugs) eqn:Eq; [|discriminate]. inversion Hi; subst. simpl. apply IHq; auto.
  - destruct (lookup id vars plugs) as [[pl|]|] eqn:El.
    + destruct (chk _ _); [|discriminate]. inversion Hi; subst.
      apply lookup_In in El. rewrite Forall_forall in Hpl. apply Hpl, El.
    + discriminate.
    + inversion Hi; subst. reflexivity.
  - apply andb_true_iff in He as [E1 E2]. destruct plug as [z| | | | | | | | |]; try discriminate.
    destruct (touches q vars || touches (EVar z) vars).
    + destruct (inst g q vars plugs) eqn:Eq; [|discriminate]. simpl in Hi.
      eapply evp_esubst; [|exact Hi]. apply IHq; auto.
    + inversion Hi; subst. simpl. rewrite E1. reflexivity.
  - apply andb_true_iff in He as [E1 E2].
    destruct (touches q vars || touches plug vars).
    + destruct (inst g q vars plugs) eqn:Eq; [|discriminate]. destruct (inst g plug vars plugs) eqn:Ep; [|discriminate].
      eapply evp_ssubst; [| |exact Hi]; [apply IHq | apply IHplug]; auto.
    + inversion Hi; subst. simpl. rewrite E1, E2. reflexivity.
Qed.

(** the invariant *)
Definition tok (t:term) : Prop :=
  match t with TPat p => evp p = true | TProved p => evp p = true /\ mvalid p end.
Definition J (st:state) : Prop := Forall tok (stack st) /\ Forall tok (memory st).

Lemma pop_pat_J s p s' : Forall tok s -> pop_pat s = Some (p, s') -> evp p = true /\ Forall tok s'.
Proof. destruct s as [|[q|q] s0]; simpl; intros H E; try discriminate. inversion E; subst. inversion H; subst. split; assumption. Qed.
Lemma pop_proved_J s p s' : Forall tok s -> pop_proved s = Some (p, s') -> (evp p = true /\ mvalid p) /\ Forall tok s'.
Proof. destruct s as [|[q|q] s0]; simpl; intros H E; try discriminate. inversion E; subst. inversion H; subst. split; assumption. Qed.

Lemma take_ids_J strict n : forall bs s ids plugs r s', Forall tok s ->
  take_ids strict n bs s = Some (ids, plugs, r, s') -> Forall (fun p => evp p = true) plugs /\ Forall tok s'.
Proof.
  induction n as [|n IH]; intros bs s ids plugs r s' Hs; simpl.
  - intros H; inversion H; subst. split; [constructor | exact Hs].
  - destruct bs as [|b bs].
    + destruct strict; [discriminate|]. intros H; inversion H; subst. split; [constructor | exact Hs].
    + destruct (pop_pat s) as [[p s1]|] eqn:Ep; [|discriminate].
      destruct (take_ids strict n bs s1) as [[[[i pl] r'] s'']|] eqn:E; [|discriminate].
      intros H; inversion H; subst. destruct (pop_pat_J _ _ _ Hs Ep) as [Hp Hs1].
      destruct (IH _ _ _ _ _ _ Hs1 E) as [H1 H2]. split; [constructor; assumption | exact H2].
Qed.

Lemma evp_phi n : evp (phi n) = true. Proof. reflexivity. Qed.

(** one instruction preserves the invariant.  [Hpub]: a pattern published in the Gamma phase is an
    axiom of the theory and is assumed valid. *)
Lemma step_i_J ph i bs st bs' st' :
  J st -> step_i g ph i bs st = Some (bs', st') ->
  (ph = Gamma -> i = IPublish -> forall p s, stack st = TPat p :: s -> mvalid p) ->
  J st'.
Proof.
  intros [Hs Hm] E Hpub. destruct i; simpl in E.
  - (* EVar *) destruct bs as [|id r]; [discriminate|]. inversion E; subst. split; [constructor; [reflexivity|exact Hs] | exact Hm].
  - destruct bs as [|id r]; [discriminate|]. inversion E; subst. split; [constructor; [reflexivity|exact Hs] | exact Hm].
  - destruct bs as [|id r]; [discriminate|]. inversion E; subst. split; [constructor; [reflexivity|exact Hs] | exact Hm].
  - (* Imp *) destruct (pop_pat (stack st)) as [[r0 s1]|] eqn:E1; [|discriminate].
    destruct (pop_pat s1) as [[l0 s2]|] eqn:E2; [|discriminate]. inversion E; subst.
    destruct (pop_pat_J _ _ _ Hs E1) as [Hr H1]. destruct (pop_pat_J _ _ _ H1 E2) as [Hl H2].
    split; [constructor; [simpl; rewrite Hl, Hr; reflexivity | exact H2] | exact Hm].
  - (* App *) destruct (pop_pat (stack st)) as [[r0 s1]|] eqn:E1; [|discriminate].
    destruct (pop_pat s1) as [[l0 s2]|] eqn:E2; [|discriminate]. inversion E; subst.
    destruct (pop_pat_J _ _ _ Hs E1) as [Hr H1]. destruct (pop_pat_J _ _ _ H1 E2) as [Hl H2].
    split; [constructor; [simpl; rewrite Hl, Hr; reflexivity | exact H2] | exact Hm].
  - (* Mu *) destruct bs as [|id r]; [discriminate|].
    destruct (pop_pat (stack st)) as [[q s1]|] eqn:E1; [|discriminate].
    destruct (pat_positive q id); [|discriminate]. inversion E; subst.
    destruct (pop_pat_J _ _ _ Hs E1) as [Hq H1]. split; [constructor; [exact Hq | exact H1] | exact Hm].
  - (* Ex *) destruct bs as [|id r]; [discriminate|].
    destruct (pop_pat (stack st)) as [[q s1]|] eqn:E1; [|discriminate]. inversion E; subst.
    destruct (pop_pat_J _ _ _ Hs E1) as [Hq H1]. split; [constructor; [exact Hq | exact H1] | exact Hm].
  - (* MVar *) destruct bs as [|id r0]; [discriminate|].
    destruct (read_vec r0) as [[ef r1]|]; [|discriminate]. destruct (read_vec r1) as [[sf r2]|]; [|discriminate].
    destruct (read_vec r2) as [[ps r3]|]; [|discriminate]. destruct (read_vec r3) as [[ng r4]|]; [|discriminate].
    destruct (read_vec r4) as [[hs r5]|]; [|discriminate].
    match type of E with (if ?c then _ else _) = _ => destruct c; [|discriminate] end. inversion E; subst.
    split; [constructor; [reflexivity | exact Hs] | exact Hm].
  - (* ESub *) destruct bs as [|x r]; [discriminate|].
    destruct (pop_pat (stack st)) as [[p s1]|] eqn:E1; [|discriminate].
    destruct (pop_pat s1) as [[plug s2]|] eqn:E2; [|discriminate].
    match type of E with (if ?c then _ else _) = _ => destruct c; [|discriminate] end.
    rewrite G_evp in E. simpl in E. destruct (is_evar plug) eqn:Ev; [|discriminate]. inversion E; subst.
    destruct (pop_pat_J _ _ _ Hs E1) as [Hp H1]. destruct (pop_pat_J _ _ _ H1 E2) as [Hpl H2].
    split; [constructor; [|exact H2] | exact Hm]. simpl. rewrite Hp. destruct plug; try discriminate. reflexivity.
  - (* SSub *) destruct bs as [|x r]; [discriminate|].
    destruct (pop_pat (stack st)) as [[p s1]|] eqn:E1; [|discriminate].
    destruct (pop_pat s1) as [[plug s2]|] eqn:E2; [|discriminate].
    match type of E with (if ?c then _ else _) = _ => destruct c; [|discriminate] end. inversion E; subst.
    destruct (pop_pat_J _ _ _ Hs E1) as [Hp H1]. destruct (pop_pat_J _ _ _ H1 E2) as [Hpl H2].
    split; [constructor; [|exact H2] | exact Hm]. simpl. rewrite Hp, Hpl. reflexivity.
  - inversion E; subst. split; [constructor; [split; [reflexivity | exact prop1_mvalid] | exact Hs] | exact Hm].
  - inversion E; subst. split; [constructor; [split; [reflexivity | exact prop2_mvalid] | exact Hs] | exact Hm].
  - inversion E; subst. split; [constructor; [split; [reflexivity | exact prop3_mvalid] | exact Hs] | exact Hm].
  - inversion E; subst. split; [constructor; [split; [reflexivity | exact quantifier_mvalid] | exact Hs] | exact Hm].
  - inversion E; subst. split; [constructor; [split; [reflexivity | exact existence_mvalid] | exact Hs] | exact Hm].
  - (* MP *) destruct (pop_proved (stack st)) as [[p2 s1]|] eqn:E1; [|discriminate].
    destruct (pop_proved s1) as [[[] s2]|] eqn:E2; try discriminate.
    rewrite G_mp in E. simpl in E. destruct (pat_eqb l p2) eqn:Eq; [|discriminate]. inversion E; subst.
    apply pat_eqb_eq in Eq. subst.
    destruct (pop_proved_J _ _ _ Hs E1) as [[Hp2 Vp2] H1]. destruct (pop_proved_J _ _ _ H1 E2) as [[Himp Vimp] H2].
    simpl in Himp. apply andb_true_iff in Himp as [_ Hr].
    split; [constructor; [split; [exact Hr | eapply mp_mvalid; eassumption] | exact H2] | exact Hm].
  - (* Gen *) destruct (pop_proved (stack st)) as [[[] s1]|] eqn:E1; try discriminate.
    destruct bs as [|x rest]; [discriminate|].
    rewrite G_gen in E. simpl in E. destruct (e_fresh r x) eqn:Ef; [|discriminate]. inversion E; subst.
    destruct (pop_proved_J _ _ _ Hs E1) as [[Himp Vimp] H1].
    split; [constructor; [split; [exact Himp | apply gen_mvalid; assumption] | exact H1] | exact Hm].
  - (* Substitution *) destruct bs as [|X rest]; [discriminate|].
    destruct (pop_proved (stack st)) as [[p s1]|] eqn:E1; [|discriminate].
    destruct (pop_pat s1) as [[plug s2]|] eqn:E2; [|discriminate].
    destruct (apply_ssubst g p X plug) as [q|] eqn:Es; [|discriminate]. inversion E; subst.
    destruct (pop_proved_J _ _ _ Hs E1) as [[Hp Vp] H1]. destruct (pop_pat_J _ _ _ H1 E2) as [Hpl H2].
    split; [constructor; [split; [exact (evp_ssubst _ _ _ _ Hp Hpl Es) | exact (substitution_mvalid _ _ _ _ Vp Es)] | exact H2] | exact Hm].
  - (* Instantiate *) destruct bs as [|n rest]; [discriminate|].
    destruct (stack st) as [|t s1] eqn:Est; [discriminate|].
    destruct (take_ids (g_instantiate_arity g) (N.to_nat n) rest s1) as [[[[ids plugs] rest'] s2]|] eqn:Et; [|discriminate].
    inversion Hs as [|t0 s0 Ht Hs1]; subst.
    destruct (take_ids_J _ _ _ _ _ _ _ _ Hs1 Et) as [Hpl H2].
    destruct t as [p|p].
    + destruct (inst g p ids plugs) as [q|] eqn:Ei; [|discriminate]. inversion E; subst.
      split; [constructor; [exact (evp_inst _ _ Hpl _ _ Ht Ei) | exact H2] | exact Hm].
    + destruct (inst g p ids plugs) as [q|] eqn:Ei; [|discriminate]. inversion E; subst.
      destruct Ht as [Hp Vp].
      split; [constructor; [split; [exact (evp_inst _ _ Hpl _ _ Hp Ei) | exact (instantiate_mvalid _ _ _ _ Vp Hp Ei)] | exact H2] | exact Hm].
  - (* Pop *) destruct (stack st) as [|t s1] eqn:Est; [discriminate|]. inversion E; subst.
    inversion Hs; subst. split; assumption.
  - (* Save *) destruct (stack st) as [|t s1] eqn:Est; [discriminate|]. inversion E; subst. simpl.
    inversion Hs; subst. split; [exact Hs | apply Forall_app; split; [exact Hm | constructor; [assumption | constructor]]].
  - (* Load *) destruct bs as [|i rest]; [discriminate|].
    destruct (nth_error (memory st) (N.to_nat i)) as [t|] eqn:En; [|discriminate]. inversion E; subst.
    apply nth_error_In in En. rewrite Forall_forall in Hm. pose proof (Hm _ En) as Ht. rewrite <- Forall_forall in Hm.
    split; [constructor; assumption | exact Hm].
  - (* Publish *) destruct ph.
    + destruct (pop_pat (stack st)) as [[p s1]|] eqn:E1; [|discriminate]. inversion E; subst.
      destruct (pop_pat_J _ _ _ Hs E1) as [Hp H1].
      assert (Vp: mvalid p).
      { destruct (stack st) as [|[q|q] s0] eqn:Est; simpl in E1; try discriminate. inversion E1; subst.
        eapply (Hpub eq_refl eq_refl). reflexivity. }
      split; [exact H1 | apply Forall_app; split; [exact Hm | constructor; [split; assumption | constructor]]].
    + destruct (pop_pat (stack st)) as [[p s1]|] eqn:E1; [|discriminate]. inversion E; subst.
      destruct (pop_pat_J _ _ _ Hs E1) as [Hp H1]. split; assumption.
    + destruct (claims st) as [|c cs]; [discriminate|].
      destruct (pop_proved (stack st)) as [[p s1]|] eqn:E1; [|discriminate].
      destruct (chk _ _); [|discriminate]. inversion E; subst.
      destruct (pop_proved_J _ _ _ Hs E1) as [_ H1]. split; assumption.
  - (* CleanMetaVar *) destruct bs as [|id r]; [discriminate|]. inversion E; subst. split; [constructor; [reflexivity|exact Hs] | exact Hm].
  - discriminate.
Qed.

End G.

(** * Lifting to whole runs *)
From Pi2 Require Import ML.Journal.

Section Runs.
Variable g : guards.
Hypothesis G_ss_ex : g_ssubst_exists_capture g = true.
Hypothesis G_ss_mu : g_ssubst_mu_capture g = true.
Hypothesis G_es_ex : g_esubst_exists_capture g = true.
Hypothesis G_inst : g_inst_constraints g = true.
Hypothesis G_gen : g_gen_fresh g = true.
Hypothesis G_mp : g_mp_antecedent g = true.
Hypothesis G_evp : g_evar_plugs_only g = true.
Hypothesis G_pub : g_publish_claim_eq g = true.

Notation J := (J).

Lemma exec_fuel_J f : forall ph bs st st',
  J st -> exec_fuel g f ph bs st = Some st' ->
  (ph = Gamma -> Forall mvalid (journal_fuel g f ph bs st)) -> J st'.
Proof.
  induction f as [|f IH]; intros ph bs st st' HJ E Hj.
  - destruct bs; simpl in E; [inversion E; subst; exact HJ | discriminate].
  - destruct bs as [|op rest]; simpl in E; [inversion E; subst; exact HJ|].
    simpl in Hj. destruct (step g ph op rest st) as [[rest' st1]|] eqn:Es; [|discriminate].
    apply (IH ph rest' st1 st'); [|exact E|].
    + unfold step in Es. destruct (decode_op op) as [i|] eqn:Ed; [|discriminate].
      eapply (step_i_J g G_ss_ex G_ss_mu G_es_ex G_inst G_gen G_mp G_evp); [exact HJ | exact Es |].
      intros Hph Hi p s Hst. subst i. specialize (Hj Hph). rewrite Hst in Hj. simpl in Hj.
      inversion Hj; subst. assumption.
    + intros Hph. specialize (Hj Hph). apply Forall_app in Hj. apply Hj.
Qed.

(** claims: every declared claim is either still outstanding or has been matched by a valid theorem *)
Definition K (cs0:list pat) (st:state) : Prop := forall c, In c cs0 -> In c (claims st) \/ mvalid c.

Lemma step_i_claims_proof i bs st bs' st' cs0 :
  J st -> K cs0 st -> step_i g Proof i bs st = Some (bs', st') -> K cs0 st'.
Proof.
  intros [Hs Hm] HK E.
  assert (Same: i <> IPublish -> claims st' = claims st).
  { intros Hne. destruct i; simpl in E; try congruence;
    repeat match type of E with
    | Some _ = Some _ => inversion E; subst; clear E; reflexivity
    | None = Some _ => discriminate E
    | (match ?x with _ => _ end) = Some _ => destruct x eqn:?
    | (if ?x then _ else _) = Some _ => destruct x eqn:?
    end. }
  destruct i; try (intros c Hc; rewrite Same by discriminate; apply HK, Hc).
  simpl in E. destruct (claims st) as [|c0 cs] eqn:Ec; [discriminate|].
  destruct (pop_proved (stack st)) as [[p s1]|] eqn:E1; [|discriminate].
  rewrite G_pub in E. simpl in E. destruct (pat_eqb c0 p) eqn:Eq; [|discriminate]. inversion E; subst. simpl.
  apply pat_eqb_eq in Eq. subst c0.
  destruct (pop_proved_J _ _ _ Hs E1) as [[_ Vp] _].
  intros c Hc. destruct (HK c Hc) as [Hin|Hv]; [|right; exact Hv].
  rewrite Ec in Hin. destruct Hin as [->|Hin]; [right; exact Vp | left; exact Hin].
Qed.

Lemma exec_fuel_JK f cs0 : forall bs st st',
  J st -> K cs0 st -> exec_fuel g f Proof bs st = Some st' -> J st' /\ K cs0 st'.
Proof.
  induction f as [|f IH]; intros bs st st' HJ HK E.
  - destruct bs; simpl in E; [inversion E; subst; split; assumption | discriminate].
  - destruct bs as [|op rest]; simpl in E; [inversion E; subst; split; assumption|].
    destruct (step g Proof op rest st) as [[rest' st1]|] eqn:Es; [|discriminate].
    unfold step in Es. destruct (decode_op op) as [i|] eqn:Ed; [|discriminate].
    apply (IH rest' st1 st'); [| |exact E].
    + eapply (step_i_J g G_ss_ex G_ss_mu G_es_ex G_inst G_gen G_mp G_evp); [exact HJ | exact Es |]. intros Hph; discriminate.
    + eapply step_i_claims_proof; eassumption.
Qed.

Lemma J_st0 : J st0. Proof. split; constructor. Qed.
Lemma J_set_stack_nil st : J st -> J (set_stack [] st).
Proof. intros [_ Hm]. split; [constructor | exact Hm]. Qed.

Lemma proved_terms_J st : J st -> forall p, In p (proved_terms st) -> mvalid p.
Proof.
  intros [Hs Hm] p Hp. unfold proved_terms in Hp. apply in_flat_map in Hp as (t & Ht & Hpt).
  assert (Htok: tok t).
  { apply in_app_or in Ht as [Ht|Ht]; [rewrite Forall_forall in Hs; apply Hs, Ht | rewrite Forall_forall in Hm; apply Hm, Ht]. }
  destruct t as [q|q]; simpl in Hpt; [destruct Hpt|]. destruct Hpt as [->|[]]. apply Htok.
Qed.

Theorem verify_sound gamma claimsb proofb st3 :
  verify g gamma claimsb proofb = Some st3 ->
  Forall mvalid (gamma_axioms g gamma) ->
  (forall c, In c (declared_claims g gamma claimsb) -> mvalid c) /\
  (forall p, In p (proved_terms st3) -> mvalid p).
Proof.
  unfold verify, gamma_axioms, declared_claims, journal, exec. intros Hv Hax.
  destruct (exec_fuel g (length gamma) Gamma gamma st0) as [s1|] eqn:E1; [|discriminate].
  destruct (exec_fuel g (length claimsb) Claim claimsb (set_stack [] s1)) as [s2|] eqn:E2; [|discriminate].
  destruct (exec_fuel g (length proofb) Proof proofb (set_stack [] s2)) as [s3|] eqn:E3; [|discriminate].
  destruct (claims s3) as [|c cs] eqn:Ec; [|discriminate]. inversion Hv; subst st3.
  assert (J1: J s1) by (eapply exec_fuel_J; [apply J_st0 | exact E1 | intros _; exact Hax]).
  assert (J2: J s2) by (eapply exec_fuel_J; [apply J_set_stack_nil, J1 | exact E2 | intros Hph; discriminate]).
  destruct (exec_fuel_JK _ (claims s2) _ _ _ (J_set_stack_nil _ J2) (fun c Hc => or_introl Hc) E3) as [J3 K3].
  split.
  - intros c Hc. destruct (K3 c Hc) as [Hin|Hv']; [rewrite Ec in Hin; destruct Hin | exact Hv'].
  - apply proved_terms_J, J3.
Qed.
End Runs.

(** C01: every term the machine marks Proved is valid in every model (semantic atoms for opaque
    nodes), by an invariant over ALL instruction streams; see Props/C01.v for the statement. *)
From Coq Require Import NArith List Bool Lia Classical_Prop.
From Pi2 Require Import ML.Syntax ML.Subst ML.Machine ML.Facts ML.Sem.
Import ListNotations.
Open Scope N_scope.

(** validity in all models, all semantic atom valuations, all valuations, all points *)
Definition mvalid (p:pat) : Prop :=
  forall (D:Type) (app_i:D->D->D->Prop) (sym_i:N->D->Prop) (av:atoms D),
    av_ok D av -> forall (v:val D) (d:D), eval D app_i sym_i av p v d.

Lemma bot_empty D app_i sym_i av v d : ~ eval D app_i sym_i av bot v d.
Proof. simpl. intro H. apply (H (fun _ => False)). simpl. intros e He. exact He. Qed.

Lemma prop1_mvalid : mvalid ax_prop1.
Proof. intros D a s av _ v d; simpl; auto. Qed.
Lemma prop2_mvalid : mvalid ax_prop2.
Proof. intros D a s av _ v d; simpl; auto. Qed.
Lemma prop3_mvalid : mvalid ax_prop3.
Proof. intros D a s av Hav v d. unfold ax_prop3, neg, phi.
  change (((av (MVar 0 [] [] [] [] []) v d -> eval D a s av bot v d) -> eval D a s av bot v d) -> av (MVar 0 [] [] [] [] []) v d).
  intros H. apply NNPP. intro Nn. apply (bot_empty D a s av v d). apply H. intro Hp. exfalso. exact (Nn Hp). Qed.
Lemma quantifier_mvalid : mvalid ax_quantifier.
Proof. intros D a s av _ v d. simpl. intros H. eexists. exact H. Qed.
Lemma existence_mvalid : mvalid ax_existence.
Proof. intros D a s av _ v d. simpl. exists d. reflexivity. Qed.

Lemma mp_mvalid l r : mvalid (Imp l r) -> mvalid l -> mvalid r.
Proof. intros H1 H2 D a s av Hav v d. apply (H1 D a s av Hav v d), (H2 D a s av Hav v d). Qed.

Lemma gen_mvalid l r x : mvalid (Imp l r) -> e_fresh r x = true -> mvalid (Imp (Ex x l) r).
Proof. intros H Hf D a s av Hav v d. simpl. intros [b Hb].
  apply (e_fresh_sound D a s av Hav r x v b Hf d). apply (H D a s av Hav). exact Hb. Qed.

Section G.
Variable g : guards.
Hypothesis G_ss_ex : g_ssubst_exists_capture g = true.
Hypothesis G_ss_mu : g_ssubst_mu_capture g = true.
Hypothesis G_es_ex : g_esubst_exists_capture g = true.
Hypothesis G_inst : g_inst_constraints g = true.
Hypothesis G_gen : g_gen_fresh g = true.
Hypothesis G_mp : g_mp_antecedent g = true.

Lemma substitution_mvalid p X plug q : mvalid p -> apply_ssubst g p X plug = Some q -> mvalid q.
Proof. intros H Hs D a s av Hav v d.
  apply (ssubst_sound D a s av Hav g G_ss_ex G_ss_mu p X plug q v Hs d). apply H, Hav. Qed.

Lemma instantiate_mvalid p vars plugs q : mvalid p -> inst g p vars plugs = Some q -> mvalid q.
Proof. intros H Hi D a s av Hav v d.
  apply (inst_sound D a s g G_ss_ex G_ss_mu G_es_ex G_inst av vars plugs Hav p q v Hi d).
  apply H. apply av_upd_ok; assumption. Qed.

(** the invariant: every term tagged Proved (stack or memory) is valid *)
Definition tok (t:term) : Prop := match t with TPat _ => True | TProved p => mvalid p end.
Definition J (st:state) : Prop := Forall tok (stack st) /\ Forall tok (memory st).

Lemma pop_pat_J s p s' : Forall tok s -> pop_pat s = Some (p, s') -> Forall tok s'.
Proof. destruct s as [|[q|q] s0]; simpl; intros H E; try discriminate. inversion E; subst. inversion H; subst. assumption. Qed.
Lemma pop_proved_J s p s' : Forall tok s -> pop_proved s = Some (p, s') -> mvalid p /\ Forall tok s'.
Proof. destruct s as [|[q|q] s0]; simpl; intros H E; try discriminate. inversion E; subst. inversion H; subst. split; assumption. Qed.
Lemma take_ids_J strict n : forall bs s ids plugs r s', Forall tok s ->
  take_ids strict n bs s = Some (ids, plugs, r, s') -> Forall tok s'.
Proof.
  induction n as [|n IH]; intros bs s ids plugs r s' Hs; simpl.
  - intros H; inversion H; subst. exact Hs.
  - destruct bs as [|b bs].
    + destruct strict; [discriminate|]. intros H; inversion H; subst. exact Hs.
    + destruct (pop_pat s) as [[p s1]|] eqn:Ep; [|discriminate].
      destruct (take_ids strict n bs s1) as [[[[i pl] r'] s'']|] eqn:E; [|discriminate].
      intros H; inversion H; subst. eapply IH; [eapply pop_pat_J; eassumption | exact E].
Qed.

Ltac pushP := split; [constructor; [exact I | assumption] | assumption].

(** one instruction preserves the invariant.  [Hpub]: a pattern published in the Gamma phase is an
    axiom of the theory and is assumed valid. *)
Lemma step_i_J ph i bs st bs' st' :
  J st -> step_i g ph i bs st = Some (bs', st') ->
  (ph = Gamma -> i = IPublish -> forall p s, stack st = TPat p :: s -> mvalid p) ->
  J st'.
Proof.
  intros [Hs Hm] E Hpub. destruct i; simpl in E.
  - destruct bs as [|id r]; [discriminate|]. inversion E; subst. pushP.
  - destruct bs as [|id r]; [discriminate|]. inversion E; subst. pushP.
  - destruct bs as [|id r]; [discriminate|]. inversion E; subst. pushP.
  - destruct (pop_pat (stack st)) as [[r0 s1]|] eqn:E1; [|discriminate].
    destruct (pop_pat s1) as [[l0 s2]|] eqn:E2; [|discriminate]. inversion E; subst.
    pose proof (pop_pat_J _ _ _ (pop_pat_J _ _ _ Hs E1) E2). pushP.
  - destruct (pop_pat (stack st)) as [[r0 s1]|] eqn:E1; [|discriminate].
    destruct (pop_pat s1) as [[l0 s2]|] eqn:E2; [|discriminate]. inversion E; subst.
    pose proof (pop_pat_J _ _ _ (pop_pat_J _ _ _ Hs E1) E2). pushP.
  - destruct bs as [|id r]; [discriminate|].
    destruct (pop_pat (stack st)) as [[q s1]|] eqn:E1; [|discriminate].
    destruct (pat_positive q id); [|discriminate]. inversion E; subst.
    pose proof (pop_pat_J _ _ _ Hs E1). pushP.
  - destruct bs as [|id r]; [discriminate|].
    destruct (pop_pat (stack st)) as [[q s1]|] eqn:E1; [|discriminate]. inversion E; subst.
    pose proof (pop_pat_J _ _ _ Hs E1). pushP.
  - destruct bs as [|id r0]; [discriminate|].
    destruct (read_vec r0) as [[ef r1]|]; [|discriminate]. destruct (read_vec r1) as [[sf r2]|]; [|discriminate].
    destruct (read_vec r2) as [[ps r3]|]; [|discriminate]. destruct (read_vec r3) as [[ng r4]|]; [|discriminate].
    destruct (read_vec r4) as [[hs r5]|]; [|discriminate].
    match type of E with (if ?c then _ else _) = _ => destruct c; [|discriminate] end. inversion E; subst. pushP.
  - destruct bs as [|x r]; [discriminate|].
    destruct (pop_pat (stack st)) as [[p s1]|] eqn:E1; [|discriminate].
    destruct (pop_pat s1) as [[plug s2]|] eqn:E2; [|discriminate].
    match type of E with (if ?c then _ else _) = _ => destruct c; [|discriminate] end.
    destruct (chk _ _); [|discriminate]. inversion E; subst.
    pose proof (pop_pat_J _ _ _ (pop_pat_J _ _ _ Hs E1) E2). pushP.
  - destruct bs as [|x r]; [discriminate|].
    destruct (pop_pat (stack st)) as [[p s1]|] eqn:E1; [|discriminate].
    destruct (pop_pat s1) as [[plug s2]|] eqn:E2; [|discriminate].
    match type of E with (if ?c then _ else _) = _ => destruct c; [|discriminate] end. inversion E; subst.
    pose proof (pop_pat_J _ _ _ (pop_pat_J _ _ _ Hs E1) E2). pushP.
  - inversion E; subst. split; [constructor; [exact prop1_mvalid | exact Hs] | exact Hm].
  - inversion E; subst. split; [constructor; [exact prop2_mvalid | exact Hs] | exact Hm].
  - inversion E; subst. split; [constructor; [exact prop3_mvalid | exact Hs] | exact Hm].
  - inversion E; subst. split; [constructor; [exact quantifier_mvalid | exact Hs] | exact Hm].
  - inversion E; subst. split; [constructor; [exact existence_mvalid | exact Hs] | exact Hm].
  - (* MP *) destruct (pop_proved (stack st)) as [[p2 s1]|] eqn:E1; [|discriminate].
    destruct (pop_proved s1) as [[[] s2]|] eqn:E2; try discriminate.
    rewrite G_mp in E. simpl in E. destruct (pat_eqb l p2) eqn:Eq; [|discriminate]. inversion E; subst.
    apply pat_eqb_eq in Eq. subst.
    destruct (pop_proved_J _ _ _ Hs E1) as [Vp2 H1]. destruct (pop_proved_J _ _ _ H1 E2) as [Vimp H2].
    split; [constructor; [eapply mp_mvalid; eassumption | exact H2] | exact Hm].
  - (* Gen *) destruct (pop_proved (stack st)) as [[[] s1]|] eqn:E1; try discriminate.
    destruct bs as [|x rest]; [discriminate|].
    rewrite G_gen in E. simpl in E. destruct (e_fresh r x) eqn:Ef; [|discriminate]. inversion E; subst.
    destruct (pop_proved_J _ _ _ Hs E1) as [Vimp H1].
    split; [constructor; [apply gen_mvalid; assumption | exact H1] | exact Hm].
  - (* Substitution *) destruct bs as [|X rest]; [discriminate|].
    destruct (pop_proved (stack st)) as [[p s1]|] eqn:E1; [|discriminate].
    destruct (pop_pat s1) as [[plug s2]|] eqn:E2; [|discriminate].
    destruct (apply_ssubst g p X plug) as [q|] eqn:Es; [|discriminate]. inversion E; subst.
    destruct (pop_proved_J _ _ _ Hs E1) as [Vp H1]. pose proof (pop_pat_J _ _ _ H1 E2) as H2.
    split; [constructor; [exact (substitution_mvalid _ _ _ _ Vp Es) | exact H2] | exact Hm].
  - (* Instantiate *) destruct bs as [|n rest]; [discriminate|].
    destruct (stack st) as [|t s1] eqn:Est; [discriminate|].
    destruct (take_ids (g_instantiate_arity g) (N.to_nat n) rest s1) as [[[[ids plugs] rest'] s2]|] eqn:Et; [|discriminate].
    inversion Hs as [|t0 s0 Ht Hs1]; subst.
    pose proof (take_ids_J _ _ _ _ _ _ _ _ Hs1 Et) as H2.
    destruct t as [p|p].
    + destruct (inst g p ids plugs) as [q|] eqn:Ei; [|discriminate]. inversion E; subst. pushP.
    + destruct (inst g p ids plugs) as [q|] eqn:Ei; [|discriminate]. inversion E; subst.
      split; [constructor; [exact (instantiate_mvalid _ _ _ _ Ht Ei) | exact H2] | exact Hm].
  - (* Pop *) destruct (stack st) as [|t s1] eqn:Est; [discriminate|]. inversion E; subst.
    inversion Hs; subst. split; assumption.
  - (* Save *) destruct (stack st) as [|t s1] eqn:Est; [discriminate|]. inversion E; subst. simpl.
    inversion Hs; subst. split; [exact Hs | apply Forall_app; split; [exact Hm | constructor; [assumption | constructor]]].
  - (* Load *) destruct bs as [|i rest]; [discriminate|].
    destruct (nth_error (memory st) (N.to_nat i)) as [t|] eqn:En; [|discriminate]. inversion E; subst.
    apply nth_error_In in En. rewrite Forall_forall in Hm. pose proof (Hm _ En) as Ht. rewrite <- Forall_forall in Hm.
    split; [constructor; assumption | exact Hm].
  - (* Publish *) destruct ph.
    + destruct (pop_pat (stack st)) as [[p s1]|] eqn:E1; [|discriminate]. inversion E; subst.
      pose proof (pop_pat_J _ _ _ Hs E1) as H1.
      assert (Vp: mvalid p).
      { destruct (stack st) as [|[q|q] s0] eqn:Est; simpl in E1; try discriminate. inversion E1; subst.
        eapply (Hpub eq_refl eq_refl). reflexivity. }
      split; [exact H1 | apply Forall_app; split; [exact Hm | constructor; [exact Vp | constructor]]].
    + destruct (pop_pat (stack st)) as [[p s1]|] eqn:E1; [|discriminate]. inversion E; subst.
      pose proof (pop_pat_J _ _ _ Hs E1) as H1. split; assumption.
    + destruct (claims st) as [|c cs]; [discriminate|].
      destruct (pop_proved (stack st)) as [[p s1]|] eqn:E1; [|discriminate].
      destruct (chk _ _); [|discriminate]. inversion E; subst.
      destruct (pop_proved_J _ _ _ Hs E1) as [_ H1]. split; assumption.
  - destruct bs as [|id r]; [discriminate|]. inversion E; subst. pushP.
  - discriminate.
Qed.

End G.

(** * Lifting to whole runs *)
From Pi2 Require Import ML.Journal.

Section Runs.
Variable g : guards.
Hypothesis G_ss_ex : g_ssubst_exists_capture g = true.
Hypothesis G_ss_mu : g_ssubst_mu_capture g = true.
Hypothesis G_es_ex : g_esubst_exists_capture g = true.
Hypothesis G_inst : g_inst_constraints g = true.
Hypothesis G_gen : g_gen_fresh g = true.
Hypothesis G_mp : g_mp_antecedent g = true.
Hypothesis G_pub : g_publish_claim_eq g = true.

Notation J := (J).

Lemma exec_fuel_J f : forall ph bs st st',
  J st -> exec_fuel g f ph bs st = Some st' ->
  (ph = Gamma -> Forall mvalid (journal_fuel g f ph bs st)) -> J st'.
Proof.
  induction f as [|f IH]; intros ph bs st st' HJ E Hj.
  - destruct bs; simpl in E; [inversion E; subst; exact HJ | discriminate].
  - destruct bs as [|op rest]; simpl in E; [inversion E; subst; exact HJ|].
    simpl in Hj. destruct (step g ph op rest st) as [[rest' st1]|] eqn:Es; [|discriminate].
    apply (IH ph rest' st1 st'); [|exact E|].
    + unfold step in Es. destruct (decode_op op) as [i|] eqn:Ed; [|discriminate].
      eapply (step_i_J g G_ss_ex G_ss_mu G_es_ex G_inst G_gen G_mp); [exact HJ | exact Es |].
      intros Hph Hi p s Hst. subst i. specialize (Hj Hph). rewrite Hst in Hj. simpl in Hj.
      inversion Hj; subst. assumption.
    + intros Hph. specialize (Hj Hph). apply Forall_app in Hj. apply Hj.
Qed.

(** claims: every declared claim is either still outstanding or has been matched by a valid theorem *)
Definition K (cs0:list pat) (st:state) : Prop := forall c, In c cs0 -> In c (claims st) \/ mvalid c.

Lemma step_i_claims_proof i bs st bs' st' cs0 :
  J st -> K cs0 st -> step_i g Proof i bs st = Some (bs', st') -> K cs0 st'.
Proof.
  intros [Hs Hm] HK E.
  assert (Same: i <> IPublish -> claims st' = claims st).
  { intros Hne. destruct i; simpl in E; try congruence;
    repeat match type of E with
    | Some _ = Some _ => inversion E; subst; clear E; reflexivity
    | None = Some _ => discriminate E
    | (match ?x with _ => _ end) = Some _ => destruct x eqn:?
    | (if ?x then _ else _) = Some _ => destruct x eqn:?
    end. }
  destruct i; try (intros c Hc; rewrite Same by discriminate; apply HK, Hc).
  simpl in E. destruct (claims st) as [|c0 cs] eqn:Ec; [discriminate|].
  destruct (pop_proved (stack st)) as [[p s1]|] eqn:E1; [|discriminate].
  rewrite G_pub in E. simpl in E. destruct (pat_eqb c0 p) eqn:Eq; [|discriminate]. inversion E; subst. simpl.
  apply pat_eqb_eq in Eq. subst c0.
  destruct (pop_proved_J _ _ _ Hs E1) as [Vp _].
  intros c Hc. destruct (HK c Hc) as [Hin|Hv]; [|right; exact Hv].
  rewrite Ec in Hin. destruct Hin as [->|Hin]; [right; exact Vp | left; exact Hin].
Qed.

Lemma exec_fuel_JK f cs0 : forall bs st st',
  J st -> K cs0 st -> exec_fuel g f Proof bs st = Some st' -> J st' /\ K cs0 st'.
Proof.
  induction f as [|f IH]; intros bs st st' HJ HK E.
  - destruct bs; simpl in E; [inversion E; subst; split; assumption | discriminate].
  - destruct bs as [|op rest]; simpl in E; [inversion E; subst; split; assumption|].
    destruct (step g Proof op rest st) as [[rest' st1]|] eqn:Es; [|discriminate].
    unfold step in Es. destruct (decode_op op) as [i|] eqn:Ed; [|discriminate].
    apply (IH rest' st1 st'); [| |exact E].
    + eapply (step_i_J g G_ss_ex G_ss_mu G_es_ex G_inst G_gen G_mp); [exact HJ | exact Es |]. intros Hph; discriminate.
    + eapply step_i_claims_proof; eassumption.
Qed.

Lemma J_st0 : J st0. Proof. split; constructor. Qed.
Lemma J_set_stack_nil st : J st -> J (set_stack [] st).
Proof. intros [_ Hm]. split; [constructor | exact Hm]. Qed.

Lemma proved_terms_J st : J st -> forall p, In p (proved_terms st) -> mvalid p.
Proof.
  intros [Hs Hm] p Hp. unfold proved_terms in Hp. apply in_flat_map in Hp as (t & Ht & Hpt).
  assert (Htok: tok t).
  { apply in_app_or in Ht as [Ht|Ht]; [rewrite Forall_forall in Hs; apply Hs, Ht | rewrite Forall_forall in Hm; apply Hm, Ht]. }
  destruct t as [q|q]; simpl in Hpt; [destruct Hpt|]. destruct Hpt as [->|[]]. exact Htok.
Qed.

Theorem verify_sound gamma claimsb proofb st3 :
  verify g gamma claimsb proofb = Some st3 ->
  Forall mvalid (gamma_axioms g gamma) ->
  (forall c, In c (declared_claims g gamma claimsb) -> mvalid c) /\
  (forall p, In p (proved_terms st3) -> mvalid p).
Proof.
  unfold verify, gamma_axioms, declared_claims, journal, exec. intros Hv Hax.
  destruct (exec_fuel g (length gamma) Gamma gamma st0) as [s1|] eqn:E1; [|discriminate].
  destruct (exec_fuel g (length claimsb) Claim claimsb (set_stack [] s1)) as [s2|] eqn:E2; [|discriminate].
  destruct (exec_fuel g (length proofb) Proof proofb (set_stack [] s2)) as [s3|] eqn:E3; [|discriminate].
  destruct (claims s3) as [|c cs] eqn:Ec; [|discriminate]. inversion Hv; subst st3.
  assert (J1: J s1) by (eapply exec_fuel_J; [apply J_st0 | exact E1 | intros _; exact Hax]).
  assert (J2: J s2) by (eapply exec_fuel_J; [apply J_set_stack_nil, J1 | exact E2 | intros Hph; discriminate]).
  destruct (exec_fuel_JK _ (claims s2) _ _ _ (J_set_stack_nil _ J2) (fun c Hc => or_introl Hc) E3) as [J3 K3].
  split.
  - intros c Hc. destruct (K3 c Hc) as [Hin|Hv']; [rewrite Ec in Hin; destruct Hin | exact Hv'].
  - apply proved_terms_J, J3.
Qed.
End Runs.

(** M1: the checker's [Pattern] type (rust/src/lib.rs:94-133) and its judgement
    functions (lib.rs:135-332).  Model only; proofs live in other files. *)
From Coq Require Import NArith List Bool.
Import ListNotations.
Open Scope N_scope.

Inductive pat :=
| EVar (n:N) | SVar (n:N) | Sym (n:N)
| Imp (l r:pat) | App (l r:pat) | Ex (x:N) (p:pat) | Mu (X:N) (p:pat)
| MVar (id:N) (ef sf pos neg holes: list N)
| ESub (p:pat) (x:N) (plug:pat) | SSub (p:pat) (X:N) (plug:pat).

Definition mem (x:N) (l:list N) : bool := existsb (N.eqb x) l.

Fixpoint list_eqb (a b:list N) : bool :=
  match a, b with
  | [], [] => true
  | x::a', y::b' => N.eqb x y && list_eqb a' b'
  | _, _ => false
  end.

(** derived [PartialEq] on [Pattern] *)
Fixpoint pat_eqb (a b:pat) : bool :=
  match a, b with
  | EVar n, EVar m | SVar n, SVar m | Sym n, Sym m => N.eqb n m
  | Imp l r, Imp l' r' | App l r, App l' r' => pat_eqb l l' && pat_eqb r r'
  | Ex x p, Ex y q | Mu x p, Mu y q => N.eqb x y && pat_eqb p q
  | MVar i a1 a2 a3 a4 a5, MVar j b1 b2 b3 b4 b5 =>
      N.eqb i j && list_eqb a1 b1 && list_eqb a2 b2 && list_eqb a3 b3 && list_eqb a4 b4 && list_eqb a5 b5
  | ESub p x q, ESub p' y q' | SSub p x q, SSub p' y q' => pat_eqb p p' && N.eqb x y && pat_eqb q q'
  | _, _ => false
  end.

(** lib.rs:136 *)
Fixpoint e_fresh (p:pat) (x:N) : bool :=
  match p with
  | EVar n => negb (N.eqb n x)
  | SVar _ | Sym _ => true
  | MVar _ ef _ _ _ _ => mem x ef
  | Imp l r | App l r => e_fresh l x && e_fresh r x
  | Ex y q => N.eqb x y || e_fresh q x
  | Mu _ q => e_fresh q x
  | ESub q y plug => if N.eqb x y then e_fresh plug x else e_fresh q x && e_fresh plug x
  | SSub q _ plug => e_fresh q x && e_fresh plug x
  end.

(** lib.rs:177 *)
Fixpoint s_fresh (p:pat) (X:N) : bool :=
  match p with
  | SVar n => negb (N.eqb n X)
  | EVar _ | Sym _ => true
  | MVar _ _ sf _ _ _ => mem X sf
  | Imp l r | App l r => s_fresh l X && s_fresh r X
  | Ex _ q => s_fresh q X
  | Mu Y q => N.eqb X Y || s_fresh q X
  | ESub q _ plug => s_fresh q X && s_fresh plug X
  | SSub q Y plug => if N.eqb X Y then s_fresh plug X else s_fresh q X && s_fresh plug X
  end.

(** lib.rs:217 ([positive], b = true) and lib.rs:250 ([negative], b = false) *)
Fixpoint polar (b:bool) (p:pat) (X:N) : bool :=
  match p with
  | EVar _ | Sym _ => true
  | SVar n => if b then true else negb (N.eqb n X)
  | MVar _ _ _ pos neg _ => if b then mem X pos else mem X neg
  | Imp l r => polar (negb b) l X && polar b r X
  | App l r => polar b l X && polar b r X
  | Ex _ q => polar b q X
  | Mu Y q => N.eqb X Y || polar b q X
  | ESub q _ plug => polar b q X && s_fresh plug X
  | SSub q Y plug =>
      let plug_ok := s_fresh plug X
                     || (polar true q Y && polar b plug X)
                     || (polar false q Y && polar (negb b) plug X) in
      if N.eqb X Y then plug_ok else polar b q X && plug_ok
  end.
Definition pat_positive := polar true.
Definition pat_negative := polar false.

(** lib.rs:317 *)
Definition is_redundant_subst (p:pat) : bool :=
  match p with
  | ESub q x plug => pat_eqb (EVar x) plug || e_fresh q x
  | SSub q X plug => pat_eqb (SVar X) plug || s_fresh q X
  | _ => false
  end.

Definition is_meta_head (p:pat) : bool :=
  match p with MVar _ _ _ _ _ _ | ESub _ _ _ | SSub _ _ _ => true | _ => false end.

(** lib.rs:286; [None] = [unimplemented!] panic *)
Definition well_formed (p:pat) : option bool :=
  match p with
  | MVar _ ef _ _ _ holes => Some (negb (existsb (fun h => mem h ef) holes))
  | Mu X q => Some (pat_positive q X)
  | ESub q _ _ | SSub q _ _ => Some (negb (is_redundant_subst p) && is_meta_head q)
  | _ => None
  end.

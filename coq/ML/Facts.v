(** Basic facts about the checker model: decidable equality reflects, lookup/touches, fuel. *)
From Coq Require Import NArith PeanoNat List Bool Lia.
From Pi2 Require Import ML.Syntax ML.Subst ML.Machine.
Import ListNotations.
Open Scope N_scope.

Lemma list_eqb_eq a : forall b, list_eqb a b = true <-> a = b.
Proof.
  induction a as [|x a IH]; intros [|y b]; simpl; split; intros H; try reflexivity; try discriminate.
  - apply andb_true_iff in H as [H1 H2]. apply N.eqb_eq in H1. apply IH in H2. congruence.
  - inversion H; subst. rewrite N.eqb_refl. simpl. apply IH. reflexivity.
Qed.

Lemma pat_eqb_refl p : pat_eqb p p = true.
Proof.
  induction p; simpl; rewrite ?N.eqb_refl, ?IHp, ?IHp1, ?IHp2; simpl; try reflexivity.
  repeat (rewrite (proj2 (list_eqb_eq _ _) eq_refl)). reflexivity.
Qed.

Lemma pat_eqb_eq a : forall b, pat_eqb a b = true <-> a = b.
Proof.
  intros b; split; [|intros ->; apply pat_eqb_refl].
  revert b. induction a as [n|n|n|l IHl r IHr|l IHl r IHr|y q IHq|Y q IHq|id ef sf pos neg holes|q IHq y plug IHplug|q IHq Y plug IHplug];
    intros [m|m|m|l' r'|l' r'|y' q'|Y' q'|id' ef' sf' pos' neg' holes'|q' y' plug'|q' Y' plug']; simpl; intros H; try discriminate.
  - apply N.eqb_eq in H; congruence.
  - apply N.eqb_eq in H; congruence.
  - apply N.eqb_eq in H; congruence.
  - apply andb_true_iff in H as [H1 H2]. f_equal; auto.
  - apply andb_true_iff in H as [H1 H2]. f_equal; auto.
  - apply andb_true_iff in H as [H1 H2]. apply N.eqb_eq in H1. f_equal; auto.
  - apply andb_true_iff in H as [H1 H2]. apply N.eqb_eq in H1. f_equal; auto.
  - repeat (apply andb_true_iff in H as [H ?]).
    apply N.eqb_eq in H. repeat match goal with K : list_eqb _ _ = true |- _ => apply list_eqb_eq in K end. congruence.
  - apply andb_true_iff in H as [H H3]. apply andb_true_iff in H as [H1 H2]. apply N.eqb_eq in H2. f_equal; auto.
  - apply andb_true_iff in H as [H H3]. apply andb_true_iff in H as [H1 H2]. apply N.eqb_eq in H2. f_equal; auto.
Qed.

Lemma mem_In x l : mem x l = true <-> In x l.
Proof.
  unfold mem. rewrite existsb_exists. split.
  - intros (y & Hy & E). apply N.eqb_eq in E. subst. exact Hy.
  - intros H. exists x. split; [exact H | apply N.eqb_refl].
Qed.

Lemma forallb_mem f x l : forallb f l = true -> mem x l = true -> f x = true.
Proof. intros H1 H2. apply mem_In in H2. rewrite forallb_forall in H1. auto. Qed.

Lemma lookup_none id vars : forall plugs, lookup id vars plugs = None <-> mem id vars = false.
Proof.
  induction vars as [|v vs IH]; intros plugs; simpl; [tauto|].
  rewrite (N.eqb_sym id v). destruct (N.eqb v id); simpl; [split; discriminate | apply IH].
Qed.

Section G.
Variable g : guards.

Lemma inst_untouched p vars plugs : touches p vars = false -> inst g p vars plugs = Some p.
Proof.
  induction p as [n|n|n|l IHl r IHr|l IHl r IHr|y q IHq|Y q IHq|id ef sf pos neg holes|q IHq y plug IHplug|q IHq Y plug IHplug];
    simpl; intros H; try reflexivity.
  - apply orb_false_iff in H as [H1 H2]. rewrite (IHl H1), (IHr H2). reflexivity.
  - apply orb_false_iff in H as [H1 H2]. rewrite (IHl H1), (IHr H2). reflexivity.
  - rewrite (IHq H). reflexivity.
  - rewrite (IHq H). reflexivity.
  - apply (lookup_none id vars plugs) in H. rewrite H. reflexivity.
  - rewrite H. reflexivity.
  - rewrite H. reflexivity.
Qed.

(** every step consumes its opcode byte, so [length bs] is enough fuel *)
Lemma take_n_len n : forall bs v r, take_n n bs = Some (v, r) -> (length r <= length bs)%nat.
Proof.
  induction n as [|n IH]; intros bs v r; simpl.
  - intros H; inversion H; subst; lia.
  - destruct bs as [|b bs]; [discriminate|]. destruct (take_n n bs) as [[v' r']|] eqn:E; [|discriminate].
    intros H; inversion H; subst. apply IH in E. simpl; lia.
Qed.
Lemma read_vec_len bs v r : read_vec bs = Some (v, r) -> (length r < length bs)%nat.
Proof. destruct bs as [|b bs]; simpl; [discriminate|]. intros H. apply take_n_len in H. lia. Qed.

Lemma take_ids_len strict n : forall bs s ids plugs r s', take_ids strict n bs s = Some (ids, plugs, r, s') -> (length r <= length bs)%nat.
Proof.
  induction n as [|n IH]; intros bs s ids plugs r s'; simpl.
  - intros H; inversion H; subst; lia.
  - destruct bs as [|b bs].
    + destruct strict; [discriminate|]. intros H; inversion H; subst; simpl; lia.
    + destruct (pop_pat s) as [[p s1]|]; [|discriminate].
      destruct (take_ids strict n bs s1) as [[[[i pl] r'] s'']|] eqn:E; [|discriminate].
      intros H; inversion H; subst. apply IH in E. simpl; lia.
Qed.

Lemma step_i_len ph i bs st bs' st' : step_i g ph i bs st = Some (bs', st') -> (length bs' <= length bs)%nat.
Proof.
  destruct i; simpl; intros H;
  repeat match type of H with
  | Some _ = Some _ => inversion H; subst; clear H; simpl; try lia
  | None = Some _ => discriminate H
  | (match ?x with _ => _ end) = Some _ =>
      match x with
      | read_vec _ => let E := fresh "E" in destruct x as [[? ?]|] eqn:E; [apply read_vec_len in E|]
      | take_ids _ _ _ _ => let E := fresh "E" in destruct x as [[[[? ?] ?] ?]|] eqn:E; [apply take_ids_len in E|]
      | _ => destruct x eqn:?
      end
  | (if ?x then _ else _) = Some _ => destruct x eqn:?
  end; simpl in *; try lia.
Qed.

Lemma exec_fuel_enough_aux ph : forall n bs, (length bs <= n)%nat ->
  forall f st, (length bs <= f)%nat -> exec_fuel g f ph bs st = exec_fuel g (length bs) ph bs st.
Proof.
  induction n as [|n IH]; intros bs Hn f st Hf.
  - destruct bs; [destruct f; reflexivity | simpl in Hn; lia].
  - destruct bs as [|op rest]; [destruct f; reflexivity|].
    destruct f as [|f]; [simpl in Hf; lia|]. simpl.
    destruct (step g ph op rest st) as [[rest' st']|] eqn:E; [|reflexivity].
    assert (L: (length rest' <= length rest)%nat).
    { unfold step in E. destruct (decode_op op); [|discriminate]. eapply step_i_len; eassumption. }
    simpl in Hn, Hf.
    rewrite (IH rest' ltac:(lia) f st' ltac:(lia)).
    rewrite (IH rest' ltac:(lia) (length rest) st' ltac:(lia)). reflexivity.
Qed.

Lemma exec_fuel_enough ph f bs st : (length bs <= f)%nat -> exec_fuel g f ph bs st = exec g ph bs st.
Proof. intros H. unfold exec. eapply exec_fuel_enough_aux; [apply Nat.le_refl | exact H]. Qed.

Lemma exec_nil ph st : exec g ph [] st = Some st.
Proof. reflexivity. Qed.

Lemma exec_cons ph op rest st :
  exec g ph (op :: rest) st =
  match step g ph op rest st with Some (rest', st') => exec g ph rest' st' | None => None end.
Proof.
  unfold exec at 1. simpl. destruct (step g ph op rest st) as [[rest' st']|] eqn:E; [|reflexivity].
  apply exec_fuel_enough. unfold step in E. destruct (decode_op op); [|discriminate]. apply step_i_len in E. exact E.
Qed.

End G.

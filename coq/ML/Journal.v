(** Specification-level observers of a run (definitions only): the patterns a phase publishes. *)
From Coq Require Import NArith List Bool.
From Pi2 Require Import ML.Syntax ML.Subst ML.Machine.
Import ListNotations.
Open Scope N_scope.

Definition pat_of_term (t:term) : pat := match t with TPat p | TProved p => p end.

Section G.
Variable g : guards.

(** the term consumed by each successful Publish instruction, in order *)
Fixpoint journal_fuel (fuel:nat) (ph:phase) (bs:list N) (st:state) : list pat :=
  match bs with
  | [] => []
  | op::rest =>
      match fuel with
      | O => []
      | S f =>
          match step g ph op rest st with
          | Some (rest', st') =>
              (match decode_op op, stack st with
               | Some IPublish, t :: _ => [pat_of_term t]
               | _, _ => [] end) ++ journal_fuel f ph rest' st'
          | None => []
          end
      end
  end.
Definition journal (ph:phase) (bs:list N) (st:state) : list pat := journal_fuel (length bs) ph bs st.

(** axioms published by the gamma file *)
Definition gamma_axioms (gamma:list N) : list pat := journal Gamma gamma st0.

(** claims declared by the claim file (state after the claim phase) *)
Definition declared_claims (gamma claimsb:list N) : list pat :=
  match exec g Gamma gamma st0 with
  | Some s1 => match exec g Claim claimsb (set_stack [] s1) with
               | Some s2 => claims s2 | None => [] end
  | None => [] end.

Definition proved_terms (st:state) : list pat :=
  flat_map (fun t => match t with TProved p => [p] | TPat _ => [] end) (stack st ++ memory st).

End G.


(** Concrete patterns (no metavariables, no pending substitutions), their free variables and
    occurrence polarities: the ground truth the meta-level judgements are measured against. *)
From Coq Require Import NArith List Bool.
From Pi2 Require Import ML.Syntax.
Import ListNotations.
Open Scope N_scope.

Fixpoint concrete (p:pat) : bool :=
  match p with
  | EVar _ | SVar _ | Sym _ => true
  | Imp l r | App l r => concrete l && concrete r
  | Ex _ q | Mu _ q => concrete q
  | MVar _ _ _ _ _ _ | ESub _ _ _ | SSub _ _ _ => false
  end.

(** x occurs free in p (element variable) *)
Fixpoint efree (x:N) (p:pat) : bool :=
  match p with
  | EVar n => N.eqb n x
  | Imp l r | App l r => efree x l || efree x r
  | Ex y q => negb (N.eqb x y) && efree x q
  | Mu _ q => efree x q
  | _ => false
  end.

(** X occurs free in p at polarity [pol] (true = positive position, false = negative) *)
Fixpoint socc (pol:bool) (X:N) (p:pat) : bool :=
  match p with
  | SVar n => pol && N.eqb n X
  | Imp l r => socc (negb pol) X l || socc pol X r
  | App l r => socc pol X l || socc pol X r
  | Ex _ q => socc pol X q
  | Mu Y q => negb (N.eqb X Y) && socc pol X q
  | _ => false
  end.
Definition sfree (X:N) (p:pat) : bool := socc true X p || socc false X p.

(** textbook (naive) structural substitutions on concrete patterns; they coincide with
    capture-avoiding substitution exactly when no capture occurs *)
Fixpoint esubst_ref (p:pat) (x:N) (r:pat) : pat :=
  match p with
  | EVar n => if N.eqb n x then r else p
  | Imp a b => Imp (esubst_ref a x r) (esubst_ref b x r)
  | App a b => App (esubst_ref a x r) (esubst_ref b x r)
  | Ex y q => if N.eqb y x then p else Ex y (esubst_ref q x r)
  | Mu Y q => Mu Y (esubst_ref q x r)
  | _ => p
  end.
Fixpoint ssubst_ref (p:pat) (X:N) (r:pat) : pat :=
  match p with
  | SVar n => if N.eqb n X then r else p
  | Imp a b => Imp (ssubst_ref a X r) (ssubst_ref b X r)
  | App a b => App (ssubst_ref a X r) (ssubst_ref b X r)
  | Ex y q => Ex y (ssubst_ref q X r)
  | Mu Y q => if N.eqb Y X then p else Mu Y (ssubst_ref q X r)
  | _ => p
  end.

(** does substituting r for x in p capture a free variable of r? *)
Fixpoint ecaptures (p:pat) (x:N) (r:pat) : bool :=
  match p with
  | Imp a b | App a b => ecaptures a x r || ecaptures b x r
  | Ex y q => negb (N.eqb y x) && efree x q && (efree y r || ecaptures q x r)
  | Mu Y q => efree x q && (sfree Y r || ecaptures q x r)
  | _ => false
  end.

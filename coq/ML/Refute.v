(** Witnesses: what goes wrong when a guard is missing (the configuration of the pinned tree). *)
From Coq Require Import NArith List Bool.
From Pi2 Require Import ML.Syntax ML.Subst ML.Machine ML.Facts ML.Sem ML.Sound ML.Journal.
Import ListNotations.
Open Scope N_scope.

(** D1: empty theory; claim (exists x0. x0) -> x0 *)
Definition d1_claim : list N := [2; 0; 8; 0; 2; 0; 5; 30].
Definition d1_proof : list N :=
  [2; 0; 3; 0; 137; 0; 137; 0; 5; 137; 0; 13; 26; 2; 2; 1; 137; 0; 137; 0; 5; 12; 26; 1; 1; 21;
   137; 0; 12; 26; 1; 1; 21; 26; 1; 0; 22; 0; 24; 0; 30].
Definition d1_conclusion : pat := Imp (Ex 0 (EVar 0)) (EVar 0).

Lemma d1_accepted_when_unguarded :
  (exists st, verify guards_pinned [] d1_claim d1_proof = Some st) /\
  declared_claims guards_pinned [] d1_claim = [d1_conclusion].
Proof. split; [eexists|]; vm_compute; reflexivity. Qed.

Lemma d1_rejected_when_guarded : verify guards_sound [] d1_claim d1_proof = None.
Proof. vm_compute. reflexivity. Qed.

(** two-element countermodel *)
Lemma d1_conclusion_invalid : ~ mvalid d1_conclusion.
Proof.
  intro H. specialize (H bool (fun _ _ _ => False) (fun _ _ => False)).
  set (av := fun (_:pat) (_:val bool) (_:bool) => False).
  assert (Hok: av_ok bool av). { unfold av_ok, seq, av. repeat split; intros; tauto. }
  specialize (H av Hok (mkval bool (fun _ => false) (fun _ _ => False)) true).
  simpl in H. discriminate H. exists true. reflexivity.
Qed.

(** D2: `Instantiate 3` followed by no ids at the end of the stream *)
Lemma d2_truncated_instantiate :
  (exists st, exec guards_pinned Proof [12; 26; 3] st0 = Some st) /\
  exec guards_sound Proof [12; 26; 3] st0 = None.
Proof. split; [eexists|]; vm_compute; reflexivity. Qed.

(** D1b: apply_esubst under Mu captures a set variable when unguarded *)
Lemma d1b_esubst_mu_capture :
  apply_esubst guards_pinned (Mu 0 (EVar 1)) 1 (SVar 0) = Some (Mu 0 (SVar 0)) /\
  apply_esubst guards_sound (Mu 0 (EVar 1)) 1 (SVar 0) = None.
Proof. split; reflexivity. Qed.

(** Non-vacuity: a stream satisfying every hypothesis of the soundness theorem: gamma publishes
    the (valid) axiom Existence-shaped pattern?  We use an empty gamma and prove phi0 -> phi0 and its
    generalisation; . *)
Definition ok_claim : list N := [137; 0; 137; 0; 5; 30].          (* phi0 -> phi0 *)
Definition ok_proof : list N :=
  [137; 0; 137; 0; 137; 0; 5; 137; 0; 13; 26; 3; 0; 1; 2;      (* prop2[phi0, phi0->phi0, phi0] *)
   137; 0; 137; 0; 5; 137; 0; 12; 26; 2; 0; 1; 21;             (* prop1[phi0, phi0->phi0]; MP *)
   137; 0; 137; 0; 12; 26; 2; 0; 1; 21; 30].                   (* prop1[phi0, phi0]; MP; Publish *)
Lemma ok_accepted :
  (exists st, verify guards_sound [] ok_claim ok_proof = Some st) /\
  declared_claims guards_sound [] ok_claim = [Imp (phi 0) (phi 0)] /\
  gamma_axioms guards_sound [] = [].
Proof. split; [eexists|split]; vm_compute; reflexivity. Qed.

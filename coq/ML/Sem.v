(** Matching-logic semantics of the checker's patterns and the semantic soundness lemmas used by
    C01 (and, in their semantic form, C06/C11).  Sets are predicates, compared extensionally by
    [seq]; valuations by [veq]; no functional extensionality is used.
    *Opaque nodes* — metavariables (keyed by id AND the five constraint lists) and ESubst nodes whose
    plug is not an element variable (syntactic substitution of a general pattern for an element
    variable has no compositional semantics) — are interpreted by *semantic atoms*
    [av node : val -> set] that must respect exactly the freshness the checker JUDGES for the node
    ([av_ok]).  Instantiation re-defines the atoms by the denotation of the instantiated node
    ([av_upd]); that this is again [av_ok] is the stability of the freshness judgements under
    instantiation (JudgeInst.fresh_inst). *)
From Coq Require Import NArith List Bool Lia Morphisms Setoid.
From Pi2 Require Import ML.Syntax ML.Subst ML.Facts ML.Concrete ML.JudgeInst.
Import ListNotations.
Open Scope N_scope.

Section Sem.
Variable D : Type.
Variable app_i : D -> D -> D -> Prop.
Variable sym_i : N -> D -> Prop.
Definition set := D -> Prop.
Definition seq (A B:set) := forall d, A d <-> B d.
Record val := mkval { ve : N -> D; vs : N -> set }.
Definition veq (v w:val) := (forall x, ve v x = ve w x) /\ (forall X, seq (vs v X) (vs w X)).
Definition upd_e (v:val) (x:N) (a:D) : val := mkval (fun y => if N.eqb y x then a else ve v y) (vs v).
Definition upd_s (v:val) (X:N) (A:set) : val := mkval (ve v) (fun Y => if N.eqb Y X then A else vs v Y).

Definition atoms := pat -> val -> set.
Section WithAv.
Variable av : atoms.

Fixpoint eval (p:pat) (v:val) : set :=
 match p with
 | EVar x => fun d => d = ve v x
 | SVar X => vs v X
 | Sym s => sym_i s
 | Imp l r => fun d => eval l v d -> eval r v d
 | App l r => fun d => exists a b, eval l v a /\ eval r v b /\ app_i a b d
 | Ex x p => fun d => exists a, eval p (upd_e v x a) d
 | Mu X p => fun d => forall A:set, (forall e, eval p (upd_s v X A) e -> A e) -> A d
 | MVar _ _ _ _ _ _ => av p v
 | ESub q x plug => match plug with EVar y => eval q (upd_e v x (ve v y)) | _ => av p v end
 | SSub q X plug => eval q (upd_s v X (eval plug v))
 end.

(* atom valuation respects val equivalence and freshness constraints *)
Definition av_ok :=
  (forall n v w, veq v w -> seq (av n v) (av n w)) /\
  (forall n v x a, e_fresh n x = true -> seq (av n (upd_e v x a)) (av n v)) /\
  (forall n v X A, s_fresh n X = true -> seq (av n (upd_s v X A)) (av n v)).

Hypothesis Hav : av_ok.

Lemma veq_refl v : veq v v. Proof. split; intros; [reflexivity| intro; reflexivity]. Qed.
Lemma veq_sym v w : veq v w -> veq w v.
Proof. intros [H1 H2]; split; intros; [symmetry; apply H1 | intro d; symmetry; apply H2]. Qed.
Lemma veq_upd_e v w x a : veq v w -> veq (upd_e v x a) (upd_e w x a).
Proof. intros [H1 H2]; split; simpl; intros; [destruct (N.eqb _ _); auto | apply H2]. Qed.
Lemma veq_upd_s v w X A B : veq v w -> seq A B -> veq (upd_s v X A) (upd_s w X B).
Proof. intros [H1 H2] HA; split; simpl; intros; [apply H1 | destruct (N.eqb _ _); auto]. Qed.

Lemma eval_ext p : forall v w, veq v w -> seq (eval p v) (eval p w).
Proof.
  induction p as [n|n|n|l IHl r IHr|l IHl r IHr|y q IHq|Y q IHq|id ef sf pos neg holes|q IHq y plug IHplug|q IHq Y plug IHplug]; intros v w Hvw d; simpl.
  - destruct Hvw as [H _]. rewrite H. reflexivity.
  - apply Hvw.
  - reflexivity.
  - rewrite (IHl v w Hvw d), (IHr v w Hvw d). reflexivity.
  - split; intros (a & b & Ha & Hb & Hab); exists a, b; (split; [|split]); auto;
      try (apply (IHl v w Hvw a); assumption); try (apply (IHr v w Hvw b); assumption).
  - split; intros [a Ha]; exists a; eapply IHq; try eassumption; [apply veq_upd_e, veq_sym, Hvw | apply veq_upd_e, Hvw].
  - split; intros H A HA; apply H; intros e He; apply HA; eapply IHq; try eassumption.
    + apply veq_upd_s; [apply veq_sym, Hvw| intro; reflexivity].
    + apply veq_upd_s; [apply Hvw| intro; reflexivity].
  - destruct Hav as [H _]. apply H, Hvw.
  - destruct plug as [z| | | | | | | | |]; try (destruct Hav as [H _]; apply H, Hvw).
    assert (E: ve v z = ve w z) by apply Hvw. rewrite E. apply IHq. apply veq_upd_e, Hvw.
  - apply IHq. apply veq_upd_s; [apply Hvw | intro; apply IHplug, Hvw].
Qed.

Lemma upd_e_comm v x y a b : x <> y -> veq (upd_e (upd_e v x a) y b) (upd_e (upd_e v y b) x a).
Proof. intros; split; simpl; intros; [| intro; reflexivity].
  destruct (N.eqb_spec x0 y), (N.eqb_spec x0 x); subst; congruence. Qed.
Lemma upd_e_shadow v x a b : veq (upd_e (upd_e v x a) x b) (upd_e v x b).
Proof. split; simpl; intros; [destruct (N.eqb x0 x); reflexivity | intro; reflexivity]. Qed.
Lemma upd_es_comm v x a X A : veq (upd_e (upd_s v X A) x a) (upd_s (upd_e v x a) X A).
Proof. split; simpl; intros; [reflexivity| intro; reflexivity]. Qed.
Lemma upd_s_comm v X Y A B : X <> Y -> veq (upd_s (upd_s v X A) Y B) (upd_s (upd_s v Y B) X A).
Proof. intros; split; simpl; intros; [reflexivity|].
  destruct (N.eqb_spec X0 Y), (N.eqb_spec X0 X); subst; try congruence; intro; reflexivity. Qed.
Lemma upd_s_shadow v X A B : veq (upd_s (upd_s v X A) X B) (upd_s v X B).
Proof. split; simpl; intros; [reflexivity | destruct (N.eqb X0 X); intro; reflexivity]. Qed.

(* C06 (semantic form): meta-level freshness judgement implies semantic independence *)
Lemma e_fresh_sound p : forall x v a, e_fresh p x = true -> seq (eval p (upd_e v x a)) (eval p v).
Proof.
  induction p as [n|n|n|l IHl r IHr|l IHl r IHr|y q IHq|Y q IHq|id ef sf pos neg holes|q IHq y plug IHplug|q IHq Y plug IHplug]; intros x v a Hf d; pose proof Hf as Hf0; simpl in Hf |- *.
  - destruct (N.eqb_spec n x); [discriminate|]. reflexivity.
  - reflexivity.
  - reflexivity.
  - apply andb_true_iff in Hf as [H1 H2]. rewrite (IHl _ v a H1 d), (IHr _ v a H2 d). reflexivity.
  - apply andb_true_iff in Hf as [H1 H2].
    split; intros (u & w & Hu & Hw & Huw); exists u, w; (split;[|split]); auto;
    try (apply (IHl _ v a H1 u); assumption); try (apply (IHr _ v a H2 w); assumption).
  - destruct (N.eqb_spec x y).
    + subst. split; intros [b Hb]; exists b; apply (eval_ext q _ _ (upd_e_shadow v y a b)); assumption.
    + simpl in Hf. split; intros [b Hb]; exists b.
      * apply (IHq _ (upd_e v y b) a Hf d). apply (eval_ext q _ _ (upd_e_comm v x y a b n)). assumption.
      * apply (eval_ext q _ _ (upd_e_comm v x y a b n)). apply (IHq _ (upd_e v y b) a Hf d). assumption.
  - split; intros H A HA; apply H; intros e He; apply HA.
    + apply (IHq _ (upd_s v Y A) a Hf e). apply (eval_ext q _ _ (upd_es_comm v x a Y A)). assumption.
    + apply (eval_ext q _ _ (upd_es_comm v x a Y A)). apply (IHq _ (upd_s v Y A) a Hf e). assumption.
  - destruct Hav as (_ & H & _). apply H, Hf0.
  - destruct plug as [z| | | | | | | | |]; try (destruct Hav as (_ & H & _); apply H, Hf0). simpl in Hf.
    destruct (N.eqb_spec x y).
    + subst. destruct (N.eqb_spec z y); [discriminate|]. 
      apply eval_ext. apply upd_e_shadow.
    + apply andb_true_iff in Hf as [H1 H2]. destruct (N.eqb_spec z x); [discriminate|].
      rewrite <- (IHq _ (upd_e v y (ve v z)) a H1 d).
      apply eval_ext. apply upd_e_comm. congruence.
  - apply andb_true_iff in Hf as [H1 H2].
    rewrite <- (IHq _ (upd_s v Y (eval plug v)) a H1 d).
    apply eval_ext. split; simpl; [reflexivity|].
    intros Z. destruct (N.eqb Z Y); [apply IHplug, H2 | intro; reflexivity].
Qed.

Lemma s_fresh_sound p : forall X v A, s_fresh p X = true -> seq (eval p (upd_s v X A)) (eval p v).
Proof.
  induction p as [n|n|n|l IHl r IHr|l IHl r IHr|y q IHq|Y q IHq|id ef sf pos neg holes|q IHq y plug IHplug|q IHq Y plug IHplug]; intros X v A Hf d; pose proof Hf as Hf0; simpl in Hf |- *.
  - reflexivity.
  - destruct (N.eqb_spec n X); [discriminate|]. reflexivity.
  - reflexivity.
  - apply andb_true_iff in Hf as [H1 H2]. rewrite (IHl _ v A H1 d), (IHr _ v A H2 d). reflexivity.
  - apply andb_true_iff in Hf as [H1 H2].
    split; intros (u & w & Hu & Hw & Huw); exists u, w; (split;[|split]); auto;
    try (apply (IHl _ v A H1 u); assumption); try (apply (IHr _ v A H2 w); assumption).
  - split; intros [b Hb]; exists b.
    + apply (IHq _ (upd_e v y b) A Hf d). apply (eval_ext q _ _ (veq_sym _ _ (upd_es_comm v y b X A))). assumption.
    + apply (eval_ext q _ _ (upd_es_comm v y b X A)). apply (IHq _ (upd_e v y b) A Hf d). assumption.
  - destruct (N.eqb_spec X Y).
    + subst. split; intros H B HB; apply H; intros e He; apply HB; apply (eval_ext q _ _ (upd_s_shadow v Y A B)); assumption.
    + simpl in Hf. split; intros H B HB; apply H; intros e He; apply HB.
      * apply (IHq _ (upd_s v Y B) A Hf e). apply (eval_ext q _ _ (upd_s_comm v X Y A B n)). assumption.
      * apply (eval_ext q _ _ (upd_s_comm v X Y A B n)). apply (IHq _ (upd_s v Y B) A Hf e). assumption.
  - destruct Hav as (_ & _ & H). apply H, Hf0.
  - destruct plug as [z| | | | | | | | |]; try (destruct Hav as (_ & _ & H); apply H, Hf0). simpl in Hf.
    apply andb_true_iff in Hf as [H1 _].
    rewrite <- (IHq _ (upd_e v y (ve v z)) A H1 d).
    apply eval_ext. apply upd_es_comm.
  - destruct (N.eqb_spec X Y).
    + subst. apply eval_ext. split; simpl; [reflexivity|].
      intros Z. destruct (N.eqb_spec Z Y); [apply IHplug, Hf | intro; reflexivity].
    + apply andb_true_iff in Hf as [H1 H2].
      rewrite <- (IHq _ (upd_s v Y (eval plug v)) A H1 d).
      apply eval_ext. split; simpl; [reflexivity|].
      intros Z. destruct (N.eqb_spec Z Y), (N.eqb_spec Z X); subst; try congruence; try (intro; reflexivity).
      apply IHplug, H2.
Qed.

(** Which guards the semantic lemmas need. *)
Variable g : guards.
Hypothesis G_ss_ex : g_ssubst_exists_capture g = true.
Hypothesis G_ss_mu : g_ssubst_mu_capture g = true.
Hypothesis G_es_ex : g_esubst_exists_capture g = true.

(* semantic substitution lemma for the Substitution rule (set variables) *)
Lemma ssubst_sound p : forall X plug q v, apply_ssubst g p X plug = Some q ->
   seq (eval q v) (eval p (upd_s v X (eval plug v))).
Proof.
  induction p as [n|n|n|l IHl r IHr|l IHl r IHr|y q IHq|Y q IHq|id ef sf pos neg holes|q IHq y plug IHplug|q IHq Y plug IHplug]; intros X pl q0 v Hs d; simpl in Hs.
  - inversion Hs; subst. reflexivity.
  - inversion Hs; subst. simpl. destruct (N.eqb_spec n X); simpl; reflexivity.
  - inversion Hs; subst. reflexivity.
  - destruct (apply_ssubst g l X pl) eqn:El; [|discriminate]. destruct (apply_ssubst g r X pl) eqn:Er; [|discriminate].
    inversion Hs; subst. simpl. rewrite (IHl _ _ _ v El d), (IHr _ _ _ v Er d). reflexivity.
  - destruct (apply_ssubst g l X pl) eqn:El; [|discriminate]. destruct (apply_ssubst g r X pl) eqn:Er; [|discriminate].
    inversion Hs; subst. simpl.
    split; intros (u & w & Hu & Hw & Huw); exists u, w; (split;[|split]); auto;
    try (apply (IHl _ _ _ v El u); assumption); try (apply (IHr _ _ _ v Er w); assumption).
  - rewrite G_ss_ex in Hs. simpl in Hs. destruct (e_fresh pl y) eqn:Ef; [|discriminate].
    destruct (apply_ssubst g q X pl) eqn:Eq; [|discriminate]. inversion Hs; subst. simpl.
    split; intros [b Hb]; exists b.
    + apply (IHq _ _ _ (upd_e v y b) Eq d) in Hb.
      eapply eval_ext; [|exact Hb]. split; simpl; [reflexivity|].
      intros Z. destruct (N.eqb Z X); [|intro; reflexivity].
      intro e. symmetry. apply (e_fresh_sound pl y v b Ef e).
    + apply (IHq _ _ _ (upd_e v y b) Eq d).
      eapply eval_ext; [|exact Hb]. split; simpl; [reflexivity|].
      intros Z. destruct (N.eqb Z X); [|intro; reflexivity].
      intro e. apply (e_fresh_sound pl y v b Ef e).
  - destruct (N.eqb_spec Y X).
    + inversion Hs; subst. simpl.
      split; intros H B HB; apply H; intros e He; apply HB; apply (eval_ext q _ _ (upd_s_shadow v X (eval pl v) B)); assumption.
    + rewrite G_ss_mu in Hs. simpl in Hs. destruct (s_fresh pl Y) eqn:Ef; [|discriminate].
      destruct (apply_ssubst g q X pl) eqn:Eq; [|discriminate]. inversion Hs; subst. simpl.
      assert (K: forall B, veq (upd_s (upd_s v Y B) X (eval pl (upd_s v Y B))) (upd_s (upd_s v X (eval pl v)) Y B)).
      { intros B. split; simpl; [reflexivity|]. intros Z.
        destruct (N.eqb_spec Z X), (N.eqb_spec Z Y); subst; try congruence; try (intro; reflexivity).
        apply s_fresh_sound, Ef. }
      split; intros H B HB; apply H; intros e He; apply HB.
      * apply (eval_ext q _ _ (K B)). apply (IHq _ _ _ (upd_s v Y B) Eq e). assumption.
      * apply (IHq _ _ _ (upd_s v Y B) Eq e). apply (eval_ext q _ _ (K B)). assumption.
  - inversion Hs; subst. reflexivity.
  - inversion Hs; subst. reflexivity.
  - inversion Hs; subst. reflexivity.
Qed.

Lemma esubst_sound p : forall x z q v, apply_esubst g p x (EVar z) = Some q ->
   seq (eval q v) (eval p (upd_e v x (ve v z))).
Proof.
  induction p as [n|n|n|l IHl r IHr|l IHl r IHr|y q IHq|Y q IHq|id ef sf pos neg holes|q IHq y plug IHplug|q IHq Y plug IHplug]; intros x z q0 v Hs d; simpl in Hs.
  - inversion Hs; subst. destruct (N.eqb_spec n x) as [->|Hne]; simpl.
    + rewrite N.eqb_refl. reflexivity.
    + destruct (N.eqb_spec n x); [congruence| reflexivity].
  - inversion Hs; subst. reflexivity.
  - inversion Hs; subst. reflexivity.
  - destruct (apply_esubst g l x (EVar z)) eqn:El; [|discriminate]. destruct (apply_esubst g r x (EVar z)) eqn:Er; [|discriminate].
    inversion Hs; subst. simpl. rewrite (IHl _ _ _ v El d), (IHr _ _ _ v Er d). reflexivity.
  - destruct (apply_esubst g l x (EVar z)) eqn:El; [|discriminate]. destruct (apply_esubst g r x (EVar z)) eqn:Er; [|discriminate].
    inversion Hs; subst. simpl.
    split; intros (u & w & Hu & Hw & Huw); exists u, w; (split;[|split]); auto;
    try (apply (IHl _ _ _ v El u); assumption); try (apply (IHr _ _ _ v Er w); assumption).
  - destruct (N.eqb_spec y x).
    + inversion Hs; subst. simpl.
      split; intros [b Hb]; exists b; apply (eval_ext q _ _ (upd_e_shadow v x (ve v z) b)); assumption.
    + rewrite G_es_ex in Hs. simpl in Hs. destruct (N.eqb_spec z y); [discriminate|]. simpl in Hs.
      destruct (apply_esubst g q x (EVar z)) eqn:Eq; [|discriminate]. inversion Hs; subst. simpl.
      assert (K: forall b, veq (upd_e (upd_e v y b) x (ve (upd_e v y b) z)) (upd_e (upd_e v x (ve v z)) y b)).
      { intros b. split; simpl; [|intros; intro; reflexivity]. intros w.
        destruct (N.eqb_spec z y); [congruence|].
        destruct (N.eqb_spec w x), (N.eqb_spec w y); subst; congruence. }
      split; intros [b Hb]; exists b.
      * apply (eval_ext q _ _ (K b)). apply (IHq _ _ _ (upd_e v y b) Eq d). assumption.
      * apply (IHq _ _ _ (upd_e v y b) Eq d). apply (eval_ext q _ _ (K b)). assumption.
  - (* Mu: the s_fresh guard is vacuous for an EVar plug *)
    assert (Hg: chk (g_esubst_mu_capture g) true = true) by (unfold chk; destruct (g_esubst_mu_capture g); reflexivity).
    rewrite Hg in Hs.
    destruct (apply_esubst g q x (EVar z)) eqn:Eq; [|discriminate]. inversion Hs; subst. simpl.
    split; intros H B HB; apply H; intros e He; apply HB.
    + apply (eval_ext q _ _ (upd_es_comm v x (ve v z) Y B)). apply (IHq _ _ _ (upd_s v Y B) Eq e). assumption.
    + apply (IHq _ _ _ (upd_s v Y B) Eq e). apply (eval_ext q _ _ (upd_es_comm v x (ve v z) Y B)). assumption.
  - inversion Hs; subst. reflexivity.
  - inversion Hs; subst. reflexivity.
  - inversion Hs; subst. reflexivity.
Qed.
End WithAv.

(* ---- instantiate ---- *)
Variable g : guards.
Hypothesis G_ss_ex : g_ssubst_exists_capture g = true.
Hypothesis G_ss_mu : g_ssubst_mu_capture g = true.
Hypothesis G_es_ex : g_esubst_exists_capture g = true.
Hypothesis G_inst : g_inst_constraints g = true.

(** after instantiating with (vars, plugs), an opaque node denotes what its instance denotes *)
Definition av_upd (av:atoms) (vars:list N) (plugs:list pat) : atoms :=
  fun n v => match inst g n vars plugs with Some q => eval av q v | None => av n v end.

Lemma av_upd_ok av vars plugs : av_ok av -> av_ok (av_upd av vars plugs).
Proof.
  intros Hav. pose proof Hav as (H1 & H2 & H3). unfold av_upd. split; [|split].
  - intros n v w Hvw. destruct (inst g n vars plugs) as [q|]; [apply eval_ext; assumption | apply H1, Hvw].
  - intros n v x a Hf. destruct (inst g n vars plugs) as [q|] eqn:Ei; [|apply H2, Hf].
    apply e_fresh_sound; [assumption|]. destruct (fresh_inst g G_inst _ _ _ _ Ei) as [F _]. apply F, Hf.
  - intros n v X A Hf. destruct (inst g n vars plugs) as [q|] eqn:Ei; [|apply H3, Hf].
    apply s_fresh_sound; [assumption|]. destruct (fresh_inst g G_inst _ _ _ _ Ei) as [_ F]. apply F, Hf.
Qed.

Lemma eval_untouched av vars plugs (Hav: av_ok av) p : forall v, touches p vars = false ->
  seq (eval av p v) (eval (av_upd av vars plugs) p v).
Proof.
  induction p as [n|n|n|l IHl r IHr|l IHl r IHr|y q IHq|Y q IHq|id ef sf pos neg holes|q IHq y plug IHplug|q IHq Y plug IHplug]; intros v Ht d; pose proof Ht as Ht0; simpl in Ht |- *; try reflexivity.
  - apply orb_false_iff in Ht as [H1 H2]. rewrite (IHl v H1 d), (IHr v H2 d). reflexivity.
  - apply orb_false_iff in Ht as [H1 H2].
    split; intros (a & b & Ha & Hb & Hab); exists a, b; (split;[|split]); auto;
    try (apply (IHl v H1 a); assumption); try (apply (IHr v H2 b); assumption).
  - split; intros [b Hb]; exists b; apply (IHq (upd_e v y b) Ht d); assumption.
  - split; intros H B HB; apply H; intros e He; apply HB; apply (IHq (upd_s v Y B) Ht e); assumption.
  - unfold av_upd. rewrite (inst_untouched g _ _ plugs Ht0). reflexivity.
  - apply orb_false_iff in Ht as [H1 H2].
    destruct plug as [z| | | | | | | | |]; try (unfold av_upd; rewrite (inst_untouched g _ _ plugs Ht0); reflexivity).
    apply (IHq _ H1 d).
  - apply orb_false_iff in Ht as [H1 H2].
    rewrite (IHq (upd_s v Y (eval av plug v)) H1 d).
    apply eval_ext; [apply av_upd_ok, Hav|].
    split; simpl; [reflexivity|]. intros Z. destruct (N.eqb Z Y); [|intro; reflexivity].
    intro e. apply (IHplug v H2 e).
Qed.

Lemma inst_sound av vars plugs (Hav: av_ok av) p : forall q v,
  inst g p vars plugs = Some q -> seq (eval av q v) (eval (av_upd av vars plugs) p v).
Proof.
  induction p as [n|n|n|l IHl r IHr|l IHl r IHr|y q IHq|Y q IHq|id ef sf pos neg holes|q IHq y plug IHplug|q IHq Y plug IHplug]; intros q0 v Hi d; pose proof Hi as Hi0; simpl in Hi.
  - inversion Hi; subst; reflexivity.
  - inversion Hi; subst; reflexivity.
  - inversion Hi; subst; reflexivity.
  - destruct (inst g l vars plugs) eqn:El; [|discriminate]. destruct (inst g r vars plugs) eqn:Er; [|discriminate].
    inversion Hi; subst. simpl. rewrite (IHl _ v eq_refl d), (IHr _ v eq_refl d). reflexivity.
  - destruct (inst g l vars plugs) eqn:El; [|discriminate]. destruct (inst g r vars plugs) eqn:Er; [|discriminate].
    inversion Hi; subst. simpl.
    split; intros (u & w & Hu & Hw & Huw); exists u, w; (split;[|split]); auto;
    try (apply (IHl _ v eq_refl u); assumption); try (apply (IHr _ v eq_refl w); assumption).
  - destruct (inst g q vars plugs) eqn:Eq; [|discriminate]. inversion Hi; subst. simpl.
    split; intros [b Hb]; exists b; apply (IHq _ (upd_e v y b) eq_refl d); assumption.
  - destruct (inst g q vars plugs) eqn:Eq; [|discriminate]. inversion Hi; subst. simpl.
    split; intros H B HB; apply H; intros e He; apply HB; apply (IHq _ (upd_s v Y B) eq_refl e); assumption.
  - (* metavariable: an opaque node, re-defined by its instance *)
    cbn [eval]. unfold av_upd. rewrite Hi0. reflexivity.
  - destruct plug as [z| | | | | | | | |]; try (cbn [eval]; unfold av_upd; rewrite Hi0; reflexivity).
    (* element-variable plug: compositional *)
    destruct (touches q vars || touches (EVar z) vars) eqn:Et.
    + destruct (inst g q vars plugs) eqn:Eq; [|discriminate]. simpl in Hi.
      rewrite (esubst_sound av Hav g G_es_ex _ _ _ _ v Hi d). simpl.
      apply (IHq _ (upd_e v y (ve v z)) eq_refl d).
    + inversion Hi; subst. apply (eval_untouched av vars plugs Hav (ESub q y (EVar z)) v Et d).
  - destruct (touches q vars || touches plug vars) eqn:Et.
    + destruct (inst g q vars plugs) eqn:Eq; [|discriminate]. destruct (inst g plug vars plugs) eqn:Ep; [|discriminate].
      rewrite (ssubst_sound av Hav g G_ss_ex G_ss_mu _ _ _ _ v Hi d). simpl.
      rewrite (IHq _ (upd_s v Y (eval av p0 v)) eq_refl d).
      apply eval_ext; [apply av_upd_ok, Hav|].
      split; simpl; [reflexivity|]. intros Z. destruct (N.eqb Z Y); [|intro; reflexivity].
      intro e. apply (IHplug _ v eq_refl e).
    + inversion Hi; subst. apply (eval_untouched av vars plugs Hav (SSub q Y plug) v Et d).
Qed.
End Sem.

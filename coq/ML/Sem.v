(** Matching-logic semantics of the checker's patterns and the semantic soundness lemmas used by
    C01 (and, in their semantic form, C06/C11).  Sets are predicates, compared extensionally by
    [seq]; valuations by [veq]; no functional extensionality is used.
    Metavariables are interpreted by *semantic atoms* keyed by the whole MetaVar node
    (id and its five constraint lists): [av id ef sf pos neg holes : val -> set]. *)
From Coq Require Import NArith List Bool Lia Morphisms Setoid.
From Pi2 Require Import ML.Syntax ML.Subst ML.Facts.
Import ListNotations.
Open Scope N_scope.

Section Sem.
Variable D : Type.
Variable app_i : D -> D -> D -> Prop.
Variable sym_i : N -> D -> Prop.
Definition set := D -> Prop.
Definition seq (A B:set) := forall d, A d <-> B d.
Record val := mkval { ve : N -> D; vs : N -> set }.
Definition veq (v w:val) := (forall x, ve v x = ve w x) /\ (forall X, seq (vs v X) (vs w X)).
Definition upd_e (v:val) (x:N) (a:D) : val := mkval (fun y => if N.eqb y x then a else ve v y) (vs v).
Definition upd_s (v:val) (X:N) (A:set) : val := mkval (ve v) (fun Y => if N.eqb Y X then A else vs v Y).

Definition atoms := N -> list N -> list N -> list N -> list N -> list N -> val -> set.
Section WithAv.
Variable av : atoms.

Fixpoint eval (p:pat) (v:val) : set :=
 match p with
 | EVar x => fun d => d = ve v x
 | SVar X => vs v X
 | Sym s => sym_i s
 | Imp l r => fun d => eval l v d -> eval r v d
 | App l r => fun d => exists a b, eval l v a /\ eval r v b /\ app_i a b d
 | Ex x p => fun d => exists a, eval p (upd_e v x a) d
 | Mu X p => fun d => forall A:set, (forall e, eval p (upd_s v X A) e -> A e) -> A d
 | MVar id ef sf pos neg holes => av id ef sf pos neg holes v
 | ESub p x plug => match plug with EVar y => eval p (upd_e v x (ve v y)) | _ => fun _ => False end
 | SSub p X plug => eval p (upd_s v X (eval plug v))
 end.

(* atom valuation respects val equivalence and freshness constraints *)
Definition av_ok := 
  (forall id ef sf pos neg holes v w, veq v w -> seq (av id ef sf pos neg holes v) (av id ef sf pos neg holes w)) /\
  (forall id ef sf pos neg holes v x a, mem x ef = true -> seq (av id ef sf pos neg holes (upd_e v x a)) (av id ef sf pos neg holes v)) /\
  (forall id ef sf pos neg holes v X A, mem X sf = true -> seq (av id ef sf pos neg holes (upd_s v X A)) (av id ef sf pos neg holes v)).

Hypothesis Hav : av_ok.

Lemma veq_refl v : veq v v. Proof. split; intros; [reflexivity| intro; reflexivity]. Qed.
Lemma veq_sym v w : veq v w -> veq w v.
Proof. intros [H1 H2]; split; intros; [symmetry; apply H1 | intro d; symmetry; apply H2]. Qed.
Lemma veq_upd_e v w x a : veq v w -> veq (upd_e v x a) (upd_e w x a).
Proof. intros [H1 H2]; split; simpl; intros; [destruct (N.eqb _ _); auto | apply H2]. Qed.
Lemma veq_upd_s v w X A B : veq v w -> seq A B -> veq (upd_s v X A) (upd_s w X B).
Proof. intros [H1 H2] HA; split; simpl; intros; [apply H1 | destruct (N.eqb _ _); auto]. Qed.

Lemma eval_ext p : forall v w, veq v w -> seq (eval p v) (eval p w).
Proof.
  induction p as [n|n|n|l IHl r IHr|l IHl r IHr|y q IHq|Y q IHq|id ef sf pos neg holes|q IHq y plug IHplug|q IHq Y plug IHplug]; intros v w Hvw d; simpl.
  - destruct Hvw as [H _]. rewrite H. reflexivity.
  - apply Hvw.
  - reflexivity.
  - rewrite (IHl v w Hvw d), (IHr v w Hvw d). reflexivity.
  - split; intros (a & b & Ha & Hb & Hab); exists a, b; (split; [|split]); auto;
      try (apply (IHl v w Hvw a); assumption); try (apply (IHr v w Hvw b); assumption).
  - split; intros [a Ha]; exists a; eapply IHq; try eassumption; [apply veq_upd_e, veq_sym, Hvw | apply veq_upd_e, Hvw].
  - split; intros H A HA; apply H; intros e He; apply HA; eapply IHq; try eassumption.
    + apply veq_upd_s; [apply veq_sym, Hvw| intro; reflexivity].
    + apply veq_upd_s; [apply Hvw| intro; reflexivity].
  - destruct Hav as [H _]. apply H, Hvw.
  - destruct plug as [z| | | | | | | | |]; try reflexivity. 
    assert (E: ve v z = ve w z) by apply Hvw. rewrite E. apply IHq. apply veq_upd_e, Hvw.
  - apply IHq. apply veq_upd_s; [apply Hvw | intro; apply IHplug, Hvw].
Qed.

Lemma upd_e_comm v x y a b : x <> y -> veq (upd_e (upd_e v x a) y b) (upd_e (upd_e v y b) x a).
Proof. intros; split; simpl; intros; [| intro; reflexivity].
  destruct (N.eqb_spec x0 y), (N.eqb_spec x0 x); subst; congruence. Qed.
Lemma upd_e_shadow v x a b : veq (upd_e (upd_e v x a) x b) (upd_e v x b).
Proof. split; simpl; intros; [destruct (N.eqb x0 x); reflexivity | intro; reflexivity]. Qed.
Lemma upd_es_comm v x a X A : veq (upd_e (upd_s v X A) x a) (upd_s (upd_e v x a) X A).
Proof. split; simpl; intros; [reflexivity| intro; reflexivity]. Qed.
Lemma upd_s_comm v X Y A B : X <> Y -> veq (upd_s (upd_s v X A) Y B) (upd_s (upd_s v Y B) X A).
Proof. intros; split; simpl; intros; [reflexivity|].
  destruct (N.eqb_spec X0 Y), (N.eqb_spec X0 X); subst; try congruence; intro; reflexivity. Qed.
Lemma upd_s_shadow v X A B : veq (upd_s (upd_s v X A) X B) (upd_s v X B).
Proof. split; simpl; intros; [reflexivity | destruct (N.eqb X0 X); intro; reflexivity]. Qed.

(* C06 (semantic form): meta-level freshness judgement implies semantic independence *)
Lemma e_fresh_sound p : forall x v a, e_fresh p x = true -> seq (eval p (upd_e v x a)) (eval p v).
Proof.
  induction p as [n|n|n|l IHl r IHr|l IHl r IHr|y q IHq|Y q IHq|id ef sf pos neg holes|q IHq y plug IHplug|q IHq Y plug IHplug]; intros x v a Hf d; simpl in *.
  - destruct (N.eqb_spec n x); [discriminate|]. reflexivity.
  - reflexivity.
  - reflexivity.
  - apply andb_true_iff in Hf as [H1 H2]. rewrite (IHl _ v a H1 d), (IHr _ v a H2 d). reflexivity.
  - apply andb_true_iff in Hf as [H1 H2].
    split; intros (u & w & Hu & Hw & Huw); exists u, w; (split;[|split]); auto;
    try (apply (IHl _ v a H1 u); assumption); try (apply (IHr _ v a H2 w); assumption).
  - destruct (N.eqb_spec x y).
    + subst. split; intros [b Hb]; exists b; apply (eval_ext q _ _ (upd_e_shadow v y a b)); assumption.
    + simpl in Hf. split; intros [b Hb]; exists b.
      * apply (IHq _ (upd_e v y b) a Hf d). apply (eval_ext q _ _ (upd_e_comm v x y a b n)). assumption.
      * apply (eval_ext q _ _ (upd_e_comm v x y a b n)). apply (IHq _ (upd_e v y b) a Hf d). assumption.
  - split; intros H A HA; apply H; intros e He; apply HA.
    + apply (IHq _ (upd_s v Y A) a Hf e). apply (eval_ext q _ _ (upd_es_comm v x a Y A)). assumption.
    + apply (eval_ext q _ _ (upd_es_comm v x a Y A)). apply (IHq _ (upd_s v Y A) a Hf e). assumption.
  - destruct Hav as (_ & H & _). apply H, Hf.
  - destruct plug as [z| | | | | | | | |]; try reflexivity. simpl in Hf.
    destruct (N.eqb_spec x y).
    + subst. destruct (N.eqb_spec z y); [discriminate|]. 
      apply eval_ext. apply upd_e_shadow.
    + apply andb_true_iff in Hf as [H1 H2]. destruct (N.eqb_spec z x); [discriminate|].
      rewrite <- (IHq _ (upd_e v y (ve v z)) a H1 d).
      apply eval_ext. apply upd_e_comm. congruence.
  - apply andb_true_iff in Hf as [H1 H2].
    rewrite <- (IHq _ (upd_s v Y (eval plug v)) a H1 d).
    apply eval_ext. split; simpl; [reflexivity|].
    intros Z. destruct (N.eqb Z Y); [apply IHplug, H2 | intro; reflexivity].
Qed.

Lemma s_fresh_sound p : forall X v A, s_fresh p X = true -> seq (eval p (upd_s v X A)) (eval p v).
Proof.
  induction p as [n|n|n|l IHl r IHr|l IHl r IHr|y q IHq|Y q IHq|id ef sf pos neg holes|q IHq y plug IHplug|q IHq Y plug IHplug]; intros X v A Hf d; simpl in *.
  - reflexivity.
  - destruct (N.eqb_spec n X); [discriminate|]. reflexivity.
  - reflexivity.
  - apply andb_true_iff in Hf as [H1 H2]. rewrite (IHl _ v A H1 d), (IHr _ v A H2 d). reflexivity.
  - apply andb_true_iff in Hf as [H1 H2].
    split; intros (u & w & Hu & Hw & Huw); exists u, w; (split;[|split]); auto;
    try (apply (IHl _ v A H1 u); assumption); try (apply (IHr _ v A H2 w); assumption).
  - split; intros [b Hb]; exists b.
    + apply (IHq _ (upd_e v y b) A Hf d). apply (eval_ext q _ _ (veq_sym _ _ (upd_es_comm v y b X A))). assumption.
    + apply (eval_ext q _ _ (upd_es_comm v y b X A)). apply (IHq _ (upd_e v y b) A Hf d). assumption.
  - destruct (N.eqb_spec X Y).
    + subst. split; intros H B HB; apply H; intros e He; apply HB; apply (eval_ext q _ _ (upd_s_shadow v Y A B)); assumption.
    + simpl in Hf. split; intros H B HB; apply H; intros e He; apply HB.
      * apply (IHq _ (upd_s v Y B) A Hf e). apply (eval_ext q _ _ (upd_s_comm v X Y A B n)). assumption.
      * apply (eval_ext q _ _ (upd_s_comm v X Y A B n)). apply (IHq _ (upd_s v Y B) A Hf e). assumption.
  - destruct Hav as (_ & _ & H). apply H, Hf.
  - destruct plug as [z| | | | | | | | |]; try reflexivity. simpl in Hf.
    apply andb_true_iff in Hf as [H1 _].
    rewrite <- (IHq _ (upd_e v y (ve v z)) A H1 d).
    apply eval_ext. apply upd_es_comm.
  - destruct (N.eqb_spec X Y).
    + subst. apply eval_ext. split; simpl; [reflexivity|].
      intros Z. destruct (N.eqb_spec Z Y); [apply IHplug, Hf | intro; reflexivity].
    + apply andb_true_iff in Hf as [H1 H2].
      rewrite <- (IHq _ (upd_s v Y (eval plug v)) A H1 d).
      apply eval_ext. split; simpl; [reflexivity|].
      intros Z. destruct (N.eqb_spec Z Y), (N.eqb_spec Z X); subst; try congruence; try (intro; reflexivity).
      apply IHplug, H2.
Qed.

(** Which guards the semantic lemmas need. *)
Variable g : guards.
Hypothesis G_ss_ex : g_ssubst_exists_capture g = true.
Hypothesis G_ss_mu : g_ssubst_mu_capture g = true.
Hypothesis G_es_ex : g_esubst_exists_capture g = true.

(* semantic substitution lemma for the Substitution rule (set variables) *)
Lemma ssubst_sound p : forall X plug q v, apply_ssubst g p X plug = Some q ->
   seq (eval q v) (eval p (upd_s v X (eval plug v))).
Proof.
  induction p as [n|n|n|l IHl r IHr|l IHl r IHr|y q IHq|Y q IHq|id ef sf pos neg holes|q IHq y plug IHplug|q IHq Y plug IHplug]; intros X pl q0 v Hs d; simpl in Hs.
  - inversion Hs; subst. reflexivity.
  - inversion Hs; subst. simpl. destruct (N.eqb_spec n X); simpl; reflexivity.
  - inversion Hs; subst. reflexivity.
  - destruct (apply_ssubst g l X pl) eqn:El; [|discriminate]. destruct (apply_ssubst g r X pl) eqn:Er; [|discriminate].
    inversion Hs; subst. simpl. rewrite (IHl _ _ _ v El d), (IHr _ _ _ v Er d). reflexivity.
  - destruct (apply_ssubst g l X pl) eqn:El; [|discriminate]. destruct (apply_ssubst g r X pl) eqn:Er; [|discriminate].
    inversion Hs; subst. simpl.
    split; intros (u & w & Hu & Hw & Huw); exists u, w; (split;[|split]); auto;
    try (apply (IHl _ _ _ v El u); assumption); try (apply (IHr _ _ _ v Er w); assumption).
  - rewrite G_ss_ex in Hs. simpl in Hs. destruct (e_fresh pl y) eqn:Ef; [|discriminate].
    destruct (apply_ssubst g q X pl) eqn:Eq; [|discriminate]. inversion Hs; subst. simpl.
    split; intros [b Hb]; exists b.
    + apply (IHq _ _ _ (upd_e v y b) Eq d) in Hb.
      eapply eval_ext; [|exact Hb]. split; simpl; [reflexivity|].
      intros Z. destruct (N.eqb Z X); [|intro; reflexivity].
      intro e. symmetry. apply (e_fresh_sound pl y v b Ef e).
    + apply (IHq _ _ _ (upd_e v y b) Eq d).
      eapply eval_ext; [|exact Hb]. split; simpl; [reflexivity|].
      intros Z. destruct (N.eqb Z X); [|intro; reflexivity].
      intro e. apply (e_fresh_sound pl y v b Ef e).
  - destruct (N.eqb_spec Y X).
    + inversion Hs; subst. simpl.
      split; intros H B HB; apply H; intros e He; apply HB; apply (eval_ext q _ _ (upd_s_shadow v X (eval pl v) B)); assumption.
    + rewrite G_ss_mu in Hs. simpl in Hs. destruct (s_fresh pl Y) eqn:Ef; [|discriminate].
      destruct (apply_ssubst g q X pl) eqn:Eq; [|discriminate]. inversion Hs; subst. simpl.
      assert (K: forall B, veq (upd_s (upd_s v Y B) X (eval pl (upd_s v Y B))) (upd_s (upd_s v X (eval pl v)) Y B)).
      { intros B. split; simpl; [reflexivity|]. intros Z.
        destruct (N.eqb_spec Z X), (N.eqb_spec Z Y); subst; try congruence; try (intro; reflexivity).
        apply s_fresh_sound, Ef. }
      split; intros H B HB; apply H; intros e He; apply HB.
      * apply (eval_ext q _ _ (K B)). apply (IHq _ _ _ (upd_s v Y B) Eq e). assumption.
      * apply (IHq _ _ _ (upd_s v Y B) Eq e). apply (eval_ext q _ _ (K B)). assumption.
  - inversion Hs; subst. reflexivity.
  - inversion Hs; subst. reflexivity.
  - inversion Hs; subst. reflexivity.
Qed.

Lemma esubst_sound p : forall x z q v, apply_esubst g p x (EVar z) = Some q ->
   seq (eval q v) (eval p (upd_e v x (ve v z))).
Proof.
  induction p as [n|n|n|l IHl r IHr|l IHl r IHr|y q IHq|Y q IHq|id ef sf pos neg holes|q IHq y plug IHplug|q IHq Y plug IHplug]; intros x z q0 v Hs d; simpl in Hs.
  - inversion Hs; subst. destruct (N.eqb_spec n x) as [->|Hne]; simpl.
    + rewrite N.eqb_refl. reflexivity.
    + destruct (N.eqb_spec n x); [congruence| reflexivity].
  - inversion Hs; subst. reflexivity.
  - inversion Hs; subst. reflexivity.
  - destruct (apply_esubst g l x (EVar z)) eqn:El; [|discriminate]. destruct (apply_esubst g r x (EVar z)) eqn:Er; [|discriminate].
    inversion Hs; subst. simpl. rewrite (IHl _ _ _ v El d), (IHr _ _ _ v Er d). reflexivity.
  - destruct (apply_esubst g l x (EVar z)) eqn:El; [|discriminate]. destruct (apply_esubst g r x (EVar z)) eqn:Er; [|discriminate].
    inversion Hs; subst. simpl.
    split; intros (u & w & Hu & Hw & Huw); exists u, w; (split;[|split]); auto;
    try (apply (IHl _ _ _ v El u); assumption); try (apply (IHr _ _ _ v Er w); assumption).
  - destruct (N.eqb_spec y x).
    + inversion Hs; subst. simpl.
      split; intros [b Hb]; exists b; apply (eval_ext q _ _ (upd_e_shadow v x (ve v z) b)); assumption.
    + rewrite G_es_ex in Hs. simpl in Hs. destruct (N.eqb_spec z y); [discriminate|]. simpl in Hs.
      destruct (apply_esubst g q x (EVar z)) eqn:Eq; [|discriminate]. inversion Hs; subst. simpl.
      assert (K: forall b, veq (upd_e (upd_e v y b) x (ve (upd_e v y b) z)) (upd_e (upd_e v x (ve v z)) y b)).
      { intros b. split; simpl; [|intros; intro; reflexivity]. intros w.
        destruct (N.eqb_spec z y); [congruence|].
        destruct (N.eqb_spec w x), (N.eqb_spec w y); subst; congruence. }
      split; intros [b Hb]; exists b.
      * apply (eval_ext q _ _ (K b)). apply (IHq _ _ _ (upd_e v y b) Eq d). assumption.
      * apply (IHq _ _ _ (upd_e v y b) Eq d). apply (eval_ext q _ _ (K b)). assumption.
  - (* Mu: the s_fresh guard is vacuous for an EVar plug *)
    assert (Hg: chk (g_esubst_mu_capture g) true = true) by (unfold chk; destruct (g_esubst_mu_capture g); reflexivity).
    rewrite Hg in Hs.
    destruct (apply_esubst g q x (EVar z)) eqn:Eq; [|discriminate]. inversion Hs; subst. simpl.
    split; intros H B HB; apply H; intros e He; apply HB.
    + apply (eval_ext q _ _ (upd_es_comm v x (ve v z) Y B)). apply (IHq _ _ _ (upd_s v Y B) Eq e). assumption.
    + apply (IHq _ _ _ (upd_s v Y B) Eq e). apply (eval_ext q _ _ (upd_es_comm v x (ve v z) Y B)). assumption.
  - inversion Hs; subst. reflexivity.
  - inversion Hs; subst. reflexivity.
  - inversion Hs; subst. reflexivity.
Qed.
End WithAv.

(** discipline of C01_partial: every ESubst node has an EVar plug *)
Fixpoint evp (p:pat) : bool :=
  match p with
  | Imp l r | App l r => evp l && evp r
  | Ex _ q | Mu _ q => evp q
  | ESub q _ plug => evp q && match plug with EVar _ => true | _ => false end
  | SSub q _ plug => evp q && evp plug
  | _ => true
  end.

(* ---- instantiate ---- *)
Variable g : guards.
Hypothesis G_ss_ex : g_ssubst_exists_capture g = true.
Hypothesis G_ss_mu : g_ssubst_mu_capture g = true.
Hypothesis G_es_ex : g_esubst_exists_capture g = true.
Hypothesis G_inst : g_inst_constraints g = true.

Definition av_upd (av:atoms) (vars:list N) (plugs:list pat) : atoms :=
  fun id ef sf pos neg holes v =>
    match lookup id vars plugs with
    | Some (Some plug) => if check_constraints ef sf pos neg plug then eval av plug v else av id ef sf pos neg holes v
    | _ => av id ef sf pos neg holes v
    end.

Lemma check_ef ef sf pos neg pl : check_constraints ef sf pos neg pl = true -> forallb (e_fresh pl) ef = true.
Proof. unfold check_constraints. intros H. repeat (apply andb_true_iff in H as [H ?]). exact H. Qed.
Lemma check_sf ef sf pos neg pl : check_constraints ef sf pos neg pl = true -> forallb (s_fresh pl) sf = true.
Proof. unfold check_constraints. intros H. repeat (apply andb_true_iff in H as [H ?]). assumption. Qed.

Lemma av_upd_ok av vars plugs : av_ok av -> av_ok (av_upd av vars plugs).
Proof.
  intros Hav. pose proof Hav as (H1 & H2 & H3). unfold av_upd. split; [|split].
  - intros id ef sf pos neg holes v w Hvw. destruct (lookup id vars plugs) as [[pl|]|]; try (apply H1, Hvw).
    destruct (check_constraints ef sf pos neg pl); [apply eval_ext; assumption | apply H1, Hvw].
  - intros id ef sf pos neg holes v x a Hm. destruct (lookup id vars plugs) as [[pl|]|]; try (apply H2, Hm).
    destruct (check_constraints ef sf pos neg pl) eqn:Ec; [|apply H2, Hm].
    apply e_fresh_sound; [assumption|]. eapply forallb_mem; [eapply check_ef; eassumption | exact Hm].
  - intros id ef sf pos neg holes v X A Hm. destruct (lookup id vars plugs) as [[pl|]|]; try (apply H3, Hm).
    destruct (check_constraints ef sf pos neg pl) eqn:Ec; [|apply H3, Hm].
    apply s_fresh_sound; [assumption|]. eapply forallb_mem; [eapply check_sf; eassumption | exact Hm].
Qed.

Lemma eval_untouched av vars plugs (Hav: av_ok av) p : forall v, touches p vars = false ->
  seq (eval av p v) (eval (av_upd av vars plugs) p v).
Proof.
  induction p as [n|n|n|l IHl r IHr|l IHl r IHr|y q IHq|Y q IHq|id ef sf pos neg holes|q IHq y plug IHplug|q IHq Y plug IHplug]; intros v Ht d; simpl in *; try reflexivity.
  - apply orb_false_iff in Ht as [H1 H2]. rewrite (IHl v H1 d), (IHr v H2 d). reflexivity.
  - apply orb_false_iff in Ht as [H1 H2].
    split; intros (a & b & Ha & Hb & Hab); exists a, b; (split;[|split]); auto;
    try (apply (IHl v H1 a); assumption); try (apply (IHr v H2 b); assumption).
  - split; intros [b Hb]; exists b; apply (IHq (upd_e v y b) Ht d); assumption.
  - split; intros H B HB; apply H; intros e He; apply HB; apply (IHq (upd_s v Y B) Ht e); assumption.
  - unfold av_upd. apply (lookup_none id vars plugs) in Ht. rewrite Ht. reflexivity.
  - apply orb_false_iff in Ht as [H1 H2]. destruct plug; try reflexivity. apply (IHq _ H1 d).
  - apply orb_false_iff in Ht as [H1 H2].
    rewrite (IHq (upd_s v Y (eval av plug v)) H1 d).
    apply eval_ext; [apply av_upd_ok, Hav|].
    split; simpl; [reflexivity|]. intros Z. destruct (N.eqb Z Y); [|intro; reflexivity].
    intro e. apply (IHplug v H2 e).
Qed.

Lemma inst_sound av vars plugs (Hav: av_ok av) p : forall q v, evp p = true ->
  inst g p vars plugs = Some q -> seq (eval av q v) (eval (av_upd av vars plugs) p v).
Proof.
  induction p as [n|n|n|l IHl r IHr|l IHl r IHr|y q IHq|Y q IHq|id ef sf pos neg holes|q IHq y plug IHplug|q IHq Y plug IHplug]; intros q0 v Hd Hi d; simpl in Hi, Hd.
  - inversion Hi; subst; reflexivity.
  - inversion Hi; subst; reflexivity.
  - inversion Hi; subst; reflexivity.
  - apply andb_true_iff in Hd as [D1 D2].
    destruct (inst g l vars plugs) eqn:El; [|discriminate]. destruct (inst g r vars plugs) eqn:Er; [|discriminate].
    inversion Hi; subst. simpl. rewrite (IHl _ v D1 eq_refl d), (IHr _ v D2 eq_refl d). reflexivity.
  - apply andb_true_iff in Hd as [D1 D2].
    destruct (inst g l vars plugs) eqn:El; [|discriminate]. destruct (inst g r vars plugs) eqn:Er; [|discriminate].
    inversion Hi; subst. simpl.
    split; intros (u & w & Hu & Hw & Huw); exists u, w; (split;[|split]); auto;
    try (apply (IHl _ v D1 eq_refl u); assumption); try (apply (IHr _ v D2 eq_refl w); assumption).
  - destruct (inst g q vars plugs) eqn:Eq; [|discriminate]. inversion Hi; subst. simpl.
    split; intros [b Hb]; exists b; apply (IHq _ (upd_e v y b) Hd eq_refl d); assumption.
  - destruct (inst g q vars plugs) eqn:Eq; [|discriminate]. inversion Hi; subst. simpl.
    split; intros H B HB; apply H; intros e He; apply HB; apply (IHq _ (upd_s v Y B) Hd eq_refl e); assumption.
  - unfold av_upd. simpl. destruct (lookup id vars plugs) as [[pl|]|].
    + rewrite G_inst in Hi. simpl in Hi. destruct (check_constraints ef sf pos neg pl); [|discriminate]. inversion Hi; subst. reflexivity.
    + discriminate.
    + inversion Hi; subst. reflexivity.
  - apply andb_true_iff in Hd as [D1 D2]. destruct plug as [z| | | | | | | | |]; try discriminate.
    destruct (touches q vars || touches (EVar z) vars) eqn:Et.
    + destruct (inst g q vars plugs) eqn:Eq; [|discriminate]. simpl in Hi.
      rewrite (esubst_sound av Hav g G_es_ex _ _ _ _ v Hi d). simpl.
      apply (IHq _ (upd_e v y (ve v z)) D1 eq_refl d).
    + inversion Hi; subst. apply (eval_untouched av vars plugs Hav (ESub q y (EVar z)) v Et d).
  - apply andb_true_iff in Hd as [D1 D2].
    destruct (touches q vars || touches plug vars) eqn:Et.
    + destruct (inst g q vars plugs) eqn:Eq; [|discriminate]. destruct (inst g plug vars plugs) eqn:Ep; [|discriminate].
      rewrite (ssubst_sound av Hav g G_ss_ex G_ss_mu _ _ _ _ v Hi d). simpl.
      rewrite (IHq _ (upd_s v Y (eval av p0 v)) D1 eq_refl d).
      apply eval_ext; [apply av_upd_ok, Hav|].
      split; simpl; [reflexivity|]. intros Z. destruct (N.eqb Z Y); [|intro; reflexivity].
      intro e. apply (IHplug _ v D2 eq_refl e).
    + inversion Hi; subst. apply (eval_untouched av vars plugs Hav (SSub q Y plug) v Et d).
Qed.
End Sem.

(** C06 (checker side): the meta-level judgements e_fresh / s_fresh / positive / negative are stable
    under every instantiation the checker performs (constraints respected), for arbitrary
    meta-patterns including stacked ESubst/SSubst; and on concrete patterns they say exactly
    "does not occur free" / "occurs only positively / negatively". *)
From Coq Require Import NArith List Bool Lia.
From Pi2 Require Import ML.Syntax ML.Subst ML.Facts ML.Concrete.
Import ListNotations.
Open Scope N_scope.

(** ** concrete patterns: the judgements are exact *)
Lemma e_fresh_concrete p x : concrete p = true -> e_fresh p x = negb (efree x p).
Proof.
  induction p as [n|n|n|l IHl r IHr|l IHl r IHr|z q IHq|Z q IHq|id ef sf pos neg holes|q IHq z plug IHplug|q IHq Z plug IHplug]; simpl; intros C; try discriminate; try reflexivity.
  - apply andb_true_iff in C as [C1 C2]. rewrite IHl, IHr by assumption. rewrite negb_orb. reflexivity.
  - apply andb_true_iff in C as [C1 C2]. rewrite IHl, IHr by assumption. rewrite negb_orb. reflexivity.
  - rewrite IHq by assumption. rewrite negb_andb, negb_involutive. reflexivity.
  - apply IHq, C.
Qed.

Lemma polar_concrete p : forall b X, concrete p = true -> polar b p X = negb (socc (negb b) X p).
Proof.
  induction p as [n|n|n|l IHl r IHr|l IHl r IHr|z q IHq|Z q IHq|id ef sf pos neg holes|q IHq z plug IHplug|q IHq Z plug IHplug]; simpl; intros b X C; try discriminate; try reflexivity.
  - destruct b; simpl; reflexivity.
  - apply andb_true_iff in C as [C1 C2]. rewrite IHl, IHr by assumption. rewrite negb_orb, negb_involutive. reflexivity.
  - apply andb_true_iff in C as [C1 C2]. rewrite IHl, IHr by assumption. rewrite negb_orb. reflexivity.
  - apply IHq, C.
  - rewrite IHq by assumption. rewrite negb_andb, negb_involutive. reflexivity.
Qed.

Lemma s_fresh_concrete p X : concrete p = true -> s_fresh p X = negb (sfree X p).
Proof.
  unfold sfree. induction p as [n|n|n|l IHl r IHr|l IHl r IHr|z q IHq|Z q IHq|id ef sf pos neg holes|q IHq z plug IHplug|q IHq Z plug IHplug]; simpl; intros C; try discriminate; try reflexivity.
  - rewrite orb_false_r. reflexivity.
  - apply andb_true_iff in C as [C1 C2]. rewrite IHl, IHr by assumption. simpl.
    destruct (socc true X l), (socc false X l), (socc true X r), (socc false X r); reflexivity.
  - apply andb_true_iff in C as [C1 C2]. rewrite IHl, IHr by assumption.
    destruct (socc true X l), (socc false X l), (socc true X r), (socc false X r); reflexivity.
  - apply IHq, C.
  - rewrite IHq by assumption. destruct (N.eqb X Z), (socc true X q), (socc false X q); reflexivity.
Qed.

(** on concrete patterns fresh implies both polarities (false for a metavariable that lists X as
    s_fresh but not as positive: the judgements are conservative, not stable, see [polar_inst]) *)
Lemma s_fresh_polar_concrete p b X : concrete p = true -> s_fresh p X = true -> polar b p X = true.
Proof.
  intros C H. rewrite (s_fresh_concrete _ _ C) in H. rewrite (polar_concrete _ _ _ C).
  unfold sfree in H. apply negb_true_iff in H. apply orb_false_iff in H as [H1 H2].
  destruct b; simpl; [rewrite H2 | rewrite H1]; reflexivity.
Qed.

Lemma s_fresh_ESub a y b X : s_fresh (ESub a y b) X = s_fresh a X && s_fresh b X. Proof. reflexivity. Qed.
Lemma s_fresh_SSub a Y b X : s_fresh (SSub a Y b) X = if N.eqb X Y then s_fresh b X else s_fresh a X && s_fresh b X. Proof. reflexivity. Qed.
Lemma e_fresh_ESub a y b x : e_fresh (ESub a y b) x = if N.eqb x y then e_fresh b x else e_fresh a x && e_fresh b x. Proof. reflexivity. Qed.
Lemma e_fresh_SSub a Y b x : e_fresh (SSub a Y b) x = e_fresh a x && e_fresh b x. Proof. reflexivity. Qed.

Section G.
Variable g : guards.

(** ** freshness of substitution results (arbitrary meta-patterns) *)
Lemma e_fresh_apply_esubst a : forall y b c x, apply_esubst g a y b = Some c ->
  (if N.eqb x y then e_fresh b x else e_fresh a x && e_fresh b x) = true -> e_fresh c x = true.
Proof.
  induction a as [n|n|n|l IHl r IHr|l IHl r IHr|z q IHq|Z q IHq|id ef sf pos neg holes|q IHq z plug IHplug|q IHq Z plug IHplug];
    intros y b c x Hs Hc; simpl in Hs.
  - inversion Hs; subst. destruct (N.eqb_spec n y) as [->|Hn].
    + destruct (N.eqb x y); [exact Hc | apply andb_true_iff in Hc; apply Hc].
    + simpl. destruct (N.eqb_spec x y) as [->|Hx]; [destruct (N.eqb_spec n y); [contradiction | reflexivity]|].
      apply andb_true_iff in Hc as [H1 _]. exact H1.
  - inversion Hs; subst. reflexivity.
  - inversion Hs; subst. reflexivity.
  - destruct (apply_esubst g l y b) eqn:El; [|discriminate]. destruct (apply_esubst g r y b) eqn:Er; [|discriminate].
    inversion Hs; subst. simpl. rewrite (IHl _ _ _ x El), (IHr _ _ _ x Er); try reflexivity;
      destruct (N.eqb x y); try exact Hc; simpl in Hc; repeat (apply andb_true_iff in Hc as [Hc ?]); try (apply andb_true_iff in Hc as [? ?]);
      repeat match goal with H : _ && _ = true |- _ => apply andb_true_iff in H as [? ?] end;
      repeat (apply andb_true_iff; split); assumption.
  - destruct (apply_esubst g l y b) eqn:El; [|discriminate]. destruct (apply_esubst g r y b) eqn:Er; [|discriminate].
    inversion Hs; subst. simpl. rewrite (IHl _ _ _ x El), (IHr _ _ _ x Er); try reflexivity;
      destruct (N.eqb x y); try exact Hc; simpl in Hc;
      repeat match goal with H : _ && _ = true |- _ => apply andb_true_iff in H as [? ?] end;
      repeat (apply andb_true_iff; split); assumption.
  - destruct (N.eqb z y) eqn:Ezy.
    + apply N.eqb_eq in Ezy. subst z. inversion Hs; subst. cbn [e_fresh].
      destruct (N.eqb x y) eqn:Exy; [reflexivity|]. apply andb_true_iff in Hc as [H1 _]. cbn [e_fresh] in H1. rewrite Exy in H1. exact H1.
    + destruct (chk _ _); [|discriminate]. destruct (apply_esubst g q y b) eqn:Eq; [|discriminate].
      inversion Hs; subst. cbn [e_fresh]. destruct (N.eqb x z) eqn:Exz; [reflexivity|]. cbn [orb].
      apply (IHq _ _ _ x Eq). destruct (N.eqb x y); [exact Hc|].
      apply andb_true_iff in Hc as [H1 H2]. cbn [e_fresh] in H1. rewrite Exz in H1. cbn [orb] in H1. rewrite H1, H2. reflexivity.
  - destruct (chk _ _); [|discriminate]. destruct (apply_esubst g q y b) eqn:Eq; [|discriminate].
    inversion Hs; subst. simpl. apply (IHq _ _ _ x Eq). exact Hc.
  - inversion Hs; subst. rewrite e_fresh_ESub. exact Hc.
  - inversion Hs; subst. rewrite e_fresh_ESub. exact Hc.
  - inversion Hs; subst. rewrite e_fresh_ESub. exact Hc.
Qed.

Ltac bsplit := repeat match goal with H : _ && _ = true |- _ => apply andb_true_iff in H as [? ?] end.

Lemma s_fresh_apply_esubst a : forall y b c X, apply_esubst g a y b = Some c ->
  s_fresh a X = true -> s_fresh b X = true -> s_fresh c X = true.
Proof.
  induction a as [n|n|n|l IHl r IHr|l IHl r IHr|z q IHq|Z q IHq|id ef sf pos neg holes|q IHq z plug IHplug|q IHq Z plug IHplug];
    intros y b c X Hs Ha Hb; simpl in Hs.
  - inversion Hs; subst. destruct (N.eqb n y); [exact Hb | reflexivity].
  - inversion Hs; subst. exact Ha.
  - inversion Hs; subst. reflexivity.
  - destruct (apply_esubst g l y b) eqn:El; [|discriminate]. destruct (apply_esubst g r y b) eqn:Er; [|discriminate].
    inversion Hs; subst. cbn [s_fresh] in *. bsplit. rewrite (IHl _ _ _ X El), (IHr _ _ _ X Er); auto.
  - destruct (apply_esubst g l y b) eqn:El; [|discriminate]. destruct (apply_esubst g r y b) eqn:Er; [|discriminate].
    inversion Hs; subst. cbn [s_fresh] in *. bsplit. rewrite (IHl _ _ _ X El), (IHr _ _ _ X Er); auto.
  - destruct (N.eqb z y); [inversion Hs; subst; exact Ha|].
    destruct (chk _ _); [|discriminate]. destruct (apply_esubst g q y b) eqn:Eq; [|discriminate].
    inversion Hs; subst. cbn [s_fresh] in *. eapply IHq; eassumption.
  - destruct (chk _ _); [|discriminate]. destruct (apply_esubst g q y b) eqn:Eq; [|discriminate].
    inversion Hs; subst. cbn [s_fresh] in *. destruct (N.eqb X Z); [reflexivity|]. cbn [orb] in *. eapply IHq; eassumption.
  - inversion Hs; subst. rewrite s_fresh_ESub, Ha, Hb. reflexivity.
  - inversion Hs; subst. rewrite s_fresh_ESub, Ha, Hb. reflexivity.
  - inversion Hs; subst. rewrite s_fresh_ESub, Ha, Hb. reflexivity.
Qed.

Lemma e_fresh_apply_ssubst a : forall Y b c x, apply_ssubst g a Y b = Some c ->
  e_fresh a x = true -> e_fresh b x = true -> e_fresh c x = true.
Proof.
  induction a as [n|n|n|l IHl r IHr|l IHl r IHr|z q IHq|Z q IHq|id ef sf pos neg holes|q IHq z plug IHplug|q IHq Z plug IHplug];
    intros Y b c x Hs Ha Hb; simpl in Hs.
  - inversion Hs; subst. exact Ha.
  - inversion Hs; subst. destruct (N.eqb n Y); [exact Hb | reflexivity].
  - inversion Hs; subst. reflexivity.
  - destruct (apply_ssubst g l Y b) eqn:El; [|discriminate]. destruct (apply_ssubst g r Y b) eqn:Er; [|discriminate].
    inversion Hs; subst. cbn [e_fresh] in *. bsplit. rewrite (IHl _ _ _ x El), (IHr _ _ _ x Er); auto.
  - destruct (apply_ssubst g l Y b) eqn:El; [|discriminate]. destruct (apply_ssubst g r Y b) eqn:Er; [|discriminate].
    inversion Hs; subst. cbn [e_fresh] in *. bsplit. rewrite (IHl _ _ _ x El), (IHr _ _ _ x Er); auto.
  - destruct (chk _ _); [|discriminate]. destruct (apply_ssubst g q Y b) eqn:Eq; [|discriminate].
    inversion Hs; subst. cbn [e_fresh] in *. destruct (N.eqb x z); [reflexivity|]. cbn [orb] in *. eapply IHq; eassumption.
  - destruct (N.eqb Z Y); [inversion Hs; subst; exact Ha|].
    destruct (chk _ _); [|discriminate]. destruct (apply_ssubst g q Y b) eqn:Eq; [|discriminate].
    inversion Hs; subst. cbn [e_fresh] in *. eapply IHq; eassumption.
  - inversion Hs; subst. rewrite e_fresh_SSub, Ha, Hb. reflexivity.
  - inversion Hs; subst. rewrite e_fresh_SSub, Ha, Hb. reflexivity.
  - inversion Hs; subst. rewrite e_fresh_SSub, Ha, Hb. reflexivity.
Qed.

Lemma s_fresh_apply_ssubst a : forall Y b c X, apply_ssubst g a Y b = Some c ->
  (if N.eqb X Y then s_fresh b X else s_fresh a X && s_fresh b X) = true -> s_fresh c X = true.
Proof.
  induction a as [n|n|n|l IHl r IHr|l IHl r IHr|z q IHq|Z q IHq|id ef sf pos neg holes|q IHq z plug IHplug|q IHq Z plug IHplug];
    intros Y b c X Hs Hc; simpl in Hs.
  - inversion Hs; subst. reflexivity.
  - inversion Hs; subst. destruct (N.eqb n Y) eqn:Eny.
    + destruct (N.eqb X Y); [exact Hc | bsplit; assumption].
    + cbn [s_fresh]. destruct (N.eqb X Y) eqn:Exy.
      * apply N.eqb_eq in Exy. subst. rewrite Eny. reflexivity.
      * bsplit. assumption.
  - inversion Hs; subst. reflexivity.
  - destruct (apply_ssubst g l Y b) eqn:El; [|discriminate]. destruct (apply_ssubst g r Y b) eqn:Er; [|discriminate].
    inversion Hs; subst. cbn [s_fresh] in *. rewrite (IHl _ _ _ X El), (IHr _ _ _ X Er); try reflexivity;
      destruct (N.eqb X Y); try exact Hc; bsplit; repeat (apply andb_true_iff; split); assumption.
  - destruct (apply_ssubst g l Y b) eqn:El; [|discriminate]. destruct (apply_ssubst g r Y b) eqn:Er; [|discriminate].
    inversion Hs; subst. cbn [s_fresh] in *. rewrite (IHl _ _ _ X El), (IHr _ _ _ X Er); try reflexivity;
      destruct (N.eqb X Y); try exact Hc; bsplit; repeat (apply andb_true_iff; split); assumption.
  - destruct (chk _ _); [|discriminate]. destruct (apply_ssubst g q Y b) eqn:Eq; [|discriminate].
    inversion Hs; subst. cbn [s_fresh] in *. eapply IHq; eassumption.
  - destruct (N.eqb Z Y) eqn:Ezy.
    + apply N.eqb_eq in Ezy. subst Z. inversion Hs; subst. cbn [s_fresh].
      destruct (N.eqb X Y) eqn:Exy; [reflexivity|]. bsplit. cbn [s_fresh] in *. rewrite Exy in *. assumption.
    + destruct (chk _ _); [|discriminate]. destruct (apply_ssubst g q Y b) eqn:Eq; [|discriminate].
      inversion Hs; subst. cbn [s_fresh]. destruct (N.eqb X Z) eqn:Exz; [reflexivity|]. cbn [orb].
      apply (IHq _ _ _ X Eq). destruct (N.eqb X Y); [exact Hc|].
      bsplit. cbn [s_fresh] in *. rewrite Exz in *. cbn [orb] in *. apply andb_true_iff; split; assumption.
  - inversion Hs; subst. rewrite s_fresh_SSub. exact Hc.
  - inversion Hs; subst. rewrite s_fresh_SSub. exact Hc.
  - inversion Hs; subst. rewrite s_fresh_SSub. exact Hc.
Qed.

(** ** stability of the freshness judgements under the checker's instantiation: ALL meta-patterns,
       ALL (possibly schematic) plugs that pass the constraint checks *)
Hypothesis G_inst : g_inst_constraints g = true.

Lemma check_parts ef sf pos neg pl : check_constraints ef sf pos neg pl = true ->
  forallb (e_fresh pl) ef = true /\ forallb (s_fresh pl) sf = true /\
  forallb (pat_positive pl) pos = true /\ forallb (pat_negative pl) neg = true.
Proof. unfold check_constraints. intros H. bsplit. auto. Qed.

Lemma fresh_inst p : forall vars plugs q, inst g p vars plugs = Some q ->
  (forall x, e_fresh p x = true -> e_fresh q x = true) /\ (forall X, s_fresh p X = true -> s_fresh q X = true).
Proof.
  induction p as [n|n|n|l IHl r IHr|l IHl r IHr|z q0 IHq|Z q0 IHq|id ef sf pos neg holes|q0 IHq z plug IHplug|q0 IHq Z plug IHplug];
    intros vars plugs q Hi; simpl in Hi.
  - inversion Hi; subst. auto.
  - inversion Hi; subst. auto.
  - inversion Hi; subst. auto.
  - destruct (inst g l vars plugs) eqn:El; [|discriminate]. destruct (inst g r vars plugs) eqn:Er; [|discriminate].
    inversion Hi; subst. destruct (IHl _ _ _ El) as [A1 A2]. destruct (IHr _ _ _ Er) as [B1 B2].
    split; intros v H; cbn [e_fresh s_fresh] in *; bsplit; rewrite ?A1, ?A2, ?B1, ?B2; auto.
  - destruct (inst g l vars plugs) eqn:El; [|discriminate]. destruct (inst g r vars plugs) eqn:Er; [|discriminate].
    inversion Hi; subst. destruct (IHl _ _ _ El) as [A1 A2]. destruct (IHr _ _ _ Er) as [B1 B2].
    split; intros v H; cbn [e_fresh s_fresh] in *; bsplit; rewrite ?A1, ?A2, ?B1, ?B2; auto.
  - destruct (inst g q0 vars plugs) eqn:Eq; [|discriminate]. inversion Hi; subst. destruct (IHq _ _ _ Eq) as [A1 A2].
    split; intros v H; cbn [e_fresh s_fresh] in *; [|auto].
    destruct (N.eqb v z); [reflexivity|]. cbn [orb] in *. auto.
  - destruct (inst g q0 vars plugs) eqn:Eq; [|discriminate]. inversion Hi; subst. destruct (IHq _ _ _ Eq) as [A1 A2].
    split; intros v H; cbn [e_fresh s_fresh] in *; [auto|].
    destruct (N.eqb v Z); [reflexivity|]. cbn [orb] in *. auto.
  - destruct (lookup id vars plugs) as [[pl|]|] eqn:El.
    + rewrite G_inst in Hi. cbn [chk] in Hi. destruct (check_constraints ef sf pos neg pl) eqn:Ec; [|discriminate].
      inversion Hi; subst. destruct (check_parts _ _ _ _ _ Ec) as (C1 & C2 & _).
      split; intros v H; cbn [e_fresh s_fresh] in H; eapply forallb_mem; eassumption.
    + discriminate.
    + inversion Hi; subst. auto.
  - destruct (touches q0 vars || touches plug vars).
    + destruct (inst g q0 vars plugs) as [a|] eqn:Eq; [|discriminate]. destruct (inst g plug vars plugs) as [b|] eqn:Ep; [|discriminate].
      destruct (IHq _ _ _ Eq) as [A1 A2]. destruct (IHplug _ _ _ Ep) as [B1 B2].
      split; intros v H; cbn [e_fresh s_fresh] in H.
      * apply (e_fresh_apply_esubst _ _ _ _ v Hi). destruct (N.eqb v z); [auto|]. bsplit. rewrite A1, B1; auto.
      * bsplit. eapply s_fresh_apply_esubst; eauto.
    + inversion Hi; subst. auto.
  - destruct (touches q0 vars || touches plug vars).
    + destruct (inst g q0 vars plugs) as [a|] eqn:Eq; [|discriminate]. destruct (inst g plug vars plugs) as [b|] eqn:Ep; [|discriminate].
      destruct (IHq _ _ _ Eq) as [A1 A2]. destruct (IHplug _ _ _ Ep) as [B1 B2].
      split; intros v H; cbn [e_fresh s_fresh] in H.
      * bsplit. eapply e_fresh_apply_ssubst; eauto.
      * apply (s_fresh_apply_ssubst _ _ _ _ v Hi). destruct (N.eqb v Z); [auto|]. bsplit. rewrite A2, B2; auto.
    + inversion Hi; subst. auto.
Qed.
End G.

(** ** polarity: true of every concrete instance *)
Section P.
Variable g : guards.
Hypothesis G_inst : g_inst_constraints g = true.

Ltac bsplit := repeat match goal with H : _ && _ = true |- _ => apply andb_true_iff in H as [? ?] end.

Lemma concrete_apply_esubst_inv a : forall y b c, apply_esubst g a y b = Some c -> concrete c = true -> concrete a = true.
Proof.
  induction a as [n|n|n|l IHl r IHr|l IHl r IHr|z q IHq|Z q IHq|id ef sf pos neg holes|q IHq z plug IHplug|q IHq Z plug IHplug];
    intros y b c Hs Hc; simpl in Hs; try reflexivity; try (inversion Hs; subst; discriminate Hc).
  - destruct (apply_esubst g l y b) eqn:El; [|discriminate]. destruct (apply_esubst g r y b) eqn:Er; [|discriminate].
    inversion Hs; subst. simpl in *. bsplit. rewrite (IHl _ _ _ El), (IHr _ _ _ Er); auto.
  - destruct (apply_esubst g l y b) eqn:El; [|discriminate]. destruct (apply_esubst g r y b) eqn:Er; [|discriminate].
    inversion Hs; subst. simpl in *. bsplit. rewrite (IHl _ _ _ El), (IHr _ _ _ Er); auto.
  - destruct (N.eqb z y); [inversion Hs; subst; exact Hc|].
    destruct (chk _ _); [|discriminate]. destruct (apply_esubst g q y b) eqn:Eq; [|discriminate].
    inversion Hs; subst. simpl in *. eapply IHq; eassumption.
  - destruct (chk _ _); [|discriminate]. destruct (apply_esubst g q y b) eqn:Eq; [|discriminate].
    inversion Hs; subst. simpl in *. eapply IHq; eassumption.
Qed.
Lemma concrete_apply_ssubst_inv a : forall Y b c, apply_ssubst g a Y b = Some c -> concrete c = true -> concrete a = true.
Proof.
  induction a as [n|n|n|l IHl r IHr|l IHl r IHr|z q IHq|Z q IHq|id ef sf pos neg holes|q IHq z plug IHplug|q IHq Z plug IHplug];
    intros Y b c Hs Hc; simpl in Hs; try reflexivity; try (inversion Hs; subst; discriminate Hc).
  - destruct (apply_ssubst g l Y b) eqn:El; [|discriminate]. destruct (apply_ssubst g r Y b) eqn:Er; [|discriminate].
    inversion Hs; subst. simpl in *. bsplit. rewrite (IHl _ _ _ El), (IHr _ _ _ Er); auto.
  - destruct (apply_ssubst g l Y b) eqn:El; [|discriminate]. destruct (apply_ssubst g r Y b) eqn:Er; [|discriminate].
    inversion Hs; subst. simpl in *. bsplit. rewrite (IHl _ _ _ El), (IHr _ _ _ Er); auto.
  - destruct (chk _ _); [|discriminate]. destruct (apply_ssubst g q Y b) eqn:Eq; [|discriminate].
    inversion Hs; subst. simpl in *. eapply IHq; eassumption.
  - destruct (N.eqb Z Y); [inversion Hs; subst; exact Hc|].
    destruct (chk _ _); [|discriminate]. destruct (apply_ssubst g q Y b) eqn:Eq; [|discriminate].
    inversion Hs; subst. simpl in *. eapply IHq; eassumption.
Qed.

Lemma polar_apply_esubst a : forall y b c pb X, apply_esubst g a y b = Some c -> concrete c = true ->
  polar pb a X = true -> s_fresh b X = true -> polar pb c X = true.
Proof.
  induction a as [n|n|n|l IHl r IHr|l IHl r IHr|z q IHq|Z q IHq|id ef sf pos neg holes|q IHq z plug IHplug|q IHq Z plug IHplug];
    intros y b c pb X Hs Hc Ha Hb; simpl in Hs; try (inversion Hs; subst; discriminate Hc).
  - inversion Hs; subst. destruct (N.eqb n y); [apply s_fresh_polar_concrete; assumption | reflexivity].
  - inversion Hs; subst. exact Ha.
  - inversion Hs; subst. reflexivity.
  - destruct (apply_esubst g l y b) eqn:El; [|discriminate]. destruct (apply_esubst g r y b) eqn:Er; [|discriminate].
    inversion Hs; subst. simpl in *. bsplit. rewrite (IHl _ _ _ _ X El), (IHr _ _ _ _ X Er); auto.
  - destruct (apply_esubst g l y b) eqn:El; [|discriminate]. destruct (apply_esubst g r y b) eqn:Er; [|discriminate].
    inversion Hs; subst. simpl in *. bsplit. rewrite (IHl _ _ _ _ X El), (IHr _ _ _ _ X Er); auto.
  - destruct (N.eqb z y); [inversion Hs; subst; exact Ha|].
    destruct (chk _ _); [|discriminate]. destruct (apply_esubst g q y b) eqn:Eq; [|discriminate].
    inversion Hs; subst. simpl in *. eapply IHq; eassumption.
  - destruct (chk _ _); [|discriminate]. destruct (apply_esubst g q y b) eqn:Eq; [|discriminate].
    inversion Hs; subst. simpl in *. destruct (N.eqb X Z); [reflexivity|]. cbn [orb] in *. eapply IHq; eassumption.
Qed.

(** the side condition computed by [positive]/[negative] on an SSubst node, with the plug's
    polarity needed only if the plug is actually used (then it is concrete) *)
Definition ss_cond (a b:pat) (Y X:N) (pb:bool) : Prop :=
  s_fresh b X = true
  \/ (polar true a Y = true /\ (concrete b = true -> polar pb b X = true))
  \/ (polar false a Y = true /\ (concrete b = true -> polar (negb pb) b X = true)).

Lemma polar_apply_ssubst a : forall Y b c pb X, apply_ssubst g a Y b = Some c -> concrete c = true ->
  (if N.eqb X Y then ss_cond a b Y X pb else polar pb a X = true /\ ss_cond a b Y X pb) -> polar pb c X = true.
Proof.
  induction a as [n|n|n|l IHl r IHr|l IHl r IHr|z q IHq|Z q IHq|id ef sf pos neg holes|q IHq z plug IHplug|q IHq Z plug IHplug];
    intros Y b c pb X Hs Hc Hcond; simpl in Hs; try (inversion Hs; subst; discriminate Hc).
  - inversion Hs; subst. reflexivity.
  - inversion Hs; subst. destruct (N.eqb n Y) eqn:Eny.
    + apply N.eqb_eq in Eny. subst n.
      assert (C: ss_cond (SVar Y) b Y X pb) by (destruct (N.eqb X Y); [exact Hcond | apply Hcond]).
      destruct C as [Sf|[[_ Hp]|[Hn _]]].
      * apply s_fresh_polar_concrete; assumption.
      * apply Hp, Hc.
      * simpl in Hn. rewrite N.eqb_refl in Hn. discriminate Hn.
    + destruct (N.eqb X Y) eqn:Exy.
      * apply N.eqb_eq in Exy. subst X. simpl. rewrite Eny. destruct pb; reflexivity.
      * apply Hcond.
  - inversion Hs; subst. reflexivity.
  - destruct (apply_ssubst g l Y b) eqn:El; [|discriminate]. destruct (apply_ssubst g r Y b) eqn:Er; [|discriminate].
    inversion Hs; subst. simpl in Hc. bsplit. cbn [polar].
    assert (CL: if N.eqb X Y then ss_cond l b Y X (negb pb) else polar (negb pb) l X = true /\ ss_cond l b Y X (negb pb)).
    { assert (K: ss_cond (Imp l r) b Y X pb -> ss_cond l b Y X (negb pb)).
      { intros [Sf|[[Hp Hb]|[Hn Hb]]]; [left; exact Sf | |]; cbn [polar negb] in *; bsplit.
        - right; right. split; [assumption|]. rewrite negb_involutive. exact Hb.
        - right; left. split; assumption. }
      destruct (N.eqb X Y); [apply K, Hcond|]. destruct Hcond as [Hp Hcc]. cbn [polar] in Hp. bsplit. split; [assumption | apply K, Hcc]. }
    assert (CR: if N.eqb X Y then ss_cond r b Y X pb else polar pb r X = true /\ ss_cond r b Y X pb).
    { assert (K: ss_cond (Imp l r) b Y X pb -> ss_cond r b Y X pb).
      { intros [Sf|[[Hp Hb]|[Hn Hb]]]; [left; exact Sf | |]; cbn [polar negb] in *; bsplit.
        - right; left. split; assumption.
        - right; right. split; assumption. }
      destruct (N.eqb X Y); [apply K, Hcond|]. destruct Hcond as [Hp Hcc]. cbn [polar] in Hp. bsplit. split; [assumption | apply K, Hcc]. }
    rewrite (IHl _ _ _ _ X El), (IHr _ _ _ _ X Er); auto.
  - destruct (apply_ssubst g l Y b) eqn:El; [|discriminate]. destruct (apply_ssubst g r Y b) eqn:Er; [|discriminate].
    inversion Hs; subst. simpl in Hc. bsplit. cbn [polar].
    assert (K: forall s, (s = l \/ s = r) -> ss_cond (App l r) b Y X pb -> ss_cond s b Y X pb).
    { intros s Hsub [Sf|[[Hp Hb]|[Hn Hb]]]; [left; exact Sf | |]; cbn [polar] in *; bsplit.
      - right; left. split; [destruct Hsub; subst; assumption | exact Hb].
      - right; right. split; [destruct Hsub; subst; assumption | exact Hb]. }
    rewrite (IHl _ _ _ _ X El), (IHr _ _ _ _ X Er); auto.
    + destruct (N.eqb X Y); [apply (K r); auto|]. destruct Hcond as [Hp Hcc]. cbn [polar] in Hp. bsplit. split; [assumption | apply (K r); auto].
    + destruct (N.eqb X Y); [apply (K l); auto|]. destruct Hcond as [Hp Hcc]. cbn [polar] in Hp. bsplit. split; [assumption | apply (K l); auto].
  - destruct (chk _ _); [|discriminate]. destruct (apply_ssubst g q Y b) eqn:Eq; [|discriminate].
    inversion Hs; subst. simpl in Hc. cbn [polar]. apply (IHq _ _ _ _ X Eq Hc).
    assert (K: ss_cond (Ex z q) b Y X pb -> ss_cond q b Y X pb).
    { intros [Sf|[[Hp Hb]|[Hn Hb]]]; [left; exact Sf | right; left | right; right]; cbn [polar] in *; split; assumption. }
    destruct (N.eqb X Y); [apply K, Hcond|]. destruct Hcond as [Hp Hcc]. cbn [polar] in Hp. split; [assumption | apply K, Hcc].
  - destruct (N.eqb Z Y) eqn:Ezy.
    + apply N.eqb_eq in Ezy. subst Z. inversion Hs; subst. cbn [polar].
      destruct (N.eqb X Y) eqn:Exy; [reflexivity|]. destruct Hcond as [Hp _]. cbn [polar] in Hp. rewrite Exy in Hp. exact Hp.
    + destruct (chk _ _); [|discriminate]. destruct (apply_ssubst g q Y b) eqn:Eq; [|discriminate].
      inversion Hs; subst. simpl in Hc. cbn [polar]. destruct (N.eqb X Z) eqn:Exz; [reflexivity|]. cbn [orb].
      apply (IHq _ _ _ _ X Eq Hc).
      assert (K: ss_cond (Mu Z q) b Y X pb -> ss_cond q b Y X pb).
      { intros [Sf|[[Hp Hb]|[Hn Hb]]]; [left; exact Sf | right; left | right; right]; cbn [polar] in *;
          rewrite (N.eqb_sym Y Z), Ezy in *; cbn [orb] in *; split; assumption. }
      destruct (N.eqb X Y); [apply K, Hcond|]. destruct Hcond as [Hp Hcc]. cbn [polar] in Hp. rewrite Exz in Hp. cbn [orb] in Hp.
      split; [assumption | apply K, Hcc].
Qed.

Lemma polar_SSub a Y b pb X : polar pb (SSub a Y b) X =
  (let ok := s_fresh b X || (polar true a Y && polar pb b X) || (polar false a Y && polar (negb pb) b X) in
   if N.eqb X Y then ok else polar pb a X && ok).
Proof. reflexivity. Qed.
Lemma polar_ESub a y b pb X : polar pb (ESub a y b) X = polar pb a X && s_fresh b X.
Proof. reflexivity. Qed.

Lemma polar_inst p : forall vars plugs q, inst g p vars plugs = Some q -> concrete q = true ->
  forall pb X, polar pb p X = true -> polar pb q X = true.
Proof.
  induction p as [n|n|n|l IHl r IHr|l IHl r IHr|z q0 IHq|Z q0 IHq|id ef sf pos neg holes|q0 IHq z plug IHplug|q0 IHq Z plug IHplug];
    intros vars plugs q Hi Hc pb X Hp; simpl in Hi.
  - inversion Hi; subst. exact Hp.
  - inversion Hi; subst. exact Hp.
  - inversion Hi; subst. exact Hp.
  - destruct (inst g l vars plugs) eqn:El; [|discriminate]. destruct (inst g r vars plugs) eqn:Er; [|discriminate].
    inversion Hi; subst. simpl in Hc. cbn [polar] in *. bsplit. rewrite (IHl _ _ _ El), (IHr _ _ _ Er); auto.
  - destruct (inst g l vars plugs) eqn:El; [|discriminate]. destruct (inst g r vars plugs) eqn:Er; [|discriminate].
    inversion Hi; subst. simpl in Hc. cbn [polar] in *. bsplit. rewrite (IHl _ _ _ El), (IHr _ _ _ Er); auto.
  - destruct (inst g q0 vars plugs) eqn:Eq; [|discriminate]. inversion Hi; subst. simpl in Hc. cbn [polar] in *. eapply IHq; eassumption.
  - destruct (inst g q0 vars plugs) eqn:Eq; [|discriminate]. inversion Hi; subst. simpl in Hc. cbn [polar] in *.
    destruct (N.eqb X Z); [reflexivity|]. cbn [orb] in *. eapply IHq; eassumption.
  - destruct (lookup id vars plugs) as [[pl|]|] eqn:El.
    + rewrite G_inst in Hi. cbn [chk] in Hi. destruct (check_constraints ef sf pos neg pl) eqn:Ec; [|discriminate].
      inversion Hi; subst. destruct (check_parts _ _ _ _ _ Ec) as (_ & _ & C3 & C4).
      cbn [polar] in Hp. destruct pb; [apply (forallb_mem _ _ _ C3 Hp) | apply (forallb_mem _ _ _ C4 Hp)].
    + discriminate.
    + inversion Hi; subst. discriminate Hc.
  - destruct (touches q0 vars || touches plug vars).
    + destruct (inst g q0 vars plugs) as [a|] eqn:Eq; [|discriminate]. destruct (inst g plug vars plugs) as [b|] eqn:Ep; [|discriminate].
      rewrite polar_ESub in Hp. bsplit.
      pose proof (concrete_apply_esubst_inv _ _ _ _ Hi Hc) as Ca.
      eapply polar_apply_esubst; [exact Hi | exact Hc | eapply IHq; eassumption |].
      destruct (fresh_inst g G_inst _ _ _ _ Ep) as [_ F]. apply F. assumption.
    + inversion Hi; subst. discriminate Hc.
  - destruct (touches q0 vars || touches plug vars).
    + destruct (inst g q0 vars plugs) as [a|] eqn:Eq; [|discriminate]. destruct (inst g plug vars plugs) as [b|] eqn:Ep; [|discriminate].
      pose proof (concrete_apply_ssubst_inv _ _ _ _ Hi Hc) as Ca.
      destruct (fresh_inst g G_inst _ _ _ _ Ep) as [_ F].
      rewrite polar_SSub in Hp. cbv zeta in Hp.
      assert (K: s_fresh plug X || polar true q0 Z && polar pb plug X || polar false q0 Z && polar (negb pb) plug X = true -> ss_cond a b Z X pb).
      { intros H. apply orb_true_iff in H as [H|H]; [apply orb_true_iff in H as [H|H]|].
        - left. apply F, H.
        - right; left. bsplit. split; [eapply IHq; eassumption | intros Cb; eapply IHplug; eassumption].
        - right; right. bsplit. split; [eapply IHq; eassumption | intros Cb; eapply IHplug; eassumption]. }
      eapply polar_apply_ssubst; [exact Hi | exact Hc |].
      destruct (N.eqb X Z); [apply K, Hp|]. bsplit. split; [eapply IHq; eassumption | apply K; assumption].
    + inversion Hi; subst. discriminate Hc.
Qed.
End P.

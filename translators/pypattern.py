"""Fail-closed translator: the methods of the pattern classes of generation/src/proof_generation/pattern.py and the three
proof rules of basic_interpreter.py  ->  coq/Gen/PyPattern.v (Gallina over the `ppat` type of coq/Py/Pattern.v).

Translated (statement by statement, expression by expression; one match arm per class method):
  pattern.py   EVar SVar Symbol Implies App Exists Mu MetaVar ESubst SSubst Instantiate:
               evar_is_free, apply_esubst, apply_ssubst, instantiate, metavars;  Instantiate.simplify and
               MetaVar.can_be_replaced_by are inlined at their call sites
  basic_interpreter.py  BasicInterpreter.modus_ponens, exists_generalization, instantiate

Conventions of the output
  * dynamic dispatch `e.m(args)` on a pattern = call of the generated function `src_m` (one unit of fuel per call, as in
    the hand-written model); `None` = out of fuel or a Python exception (AssertionError / KeyError)
  * Python `int` = N, `Pattern` = ppat, `Mapping[int, Pattern]` / frozendict = insertion-ordered association list,
    `set[int]` = list (union = append), `tuple[EVar, ...]` = list of the variables' ids
  * evaluation order is Python's: receiver, then arguments left to right; `and` / `or` short-circuit
  * `Implies.extract(x)` and `a == b` (dataclass-generated / Instantiate.__eq__) are the model primitives
    `extract_imp` and `py_eq` (Py/GenSupport.v); they are not defined by method bodies that could be translated

Accepted subset (anything else: SystemExit naming the node):
  statements   docstring; `return E`; `if T: <block ending in return>` followed by more statements; `x = E`; `x: T = E`;
               `a, b = Implies.extract(E)`; `assert E[, msg]`;
               `for v in E: if T: acc = acc.union(E1) else: acc.add(E2)` (accumulation into a set)
  expressions  self, self.<field>, self.var.name, parameters, locals, True/False; == != on ints; `not E`; `A and B`; `A or B`;
               `E in D` / `E not in D` (dict keys, set, EVar(e)/SVar(e) in a variable tuple); `D[k]`; set() ; {e}; A.union(B);
               constructor calls (positional or keyword) of the pattern classes and Proved; frozendict(E); {**A, **B};
               {k: E for k, v in D.items()} ; {k: v for k, v in D.items() if T}; method calls e.m(args) for the translated
               methods; self.simplify(); self.can_be_replaced_by(E); <Proved>.conclusion; str()/f-strings only inside assert messages

Canonical forms (robustness rounds; equivalent idioms give the same text):
  * a test `negb c` is the test `c` with the branches exchanged (mk_if): negated tests with swapped branches, `!=` for `==`,
    `is None` / `is not None` orders, conditional expressions, early returns, `else` after a returning branch
  * `not (A and B)` = `not A or not B` (de Morgan, same evaluation order), `not (a == b)` = `a != b`, `not (a in b)` = `a not in b`
  * `D or E` / `D and E` on dicts = `D if D else E` / `E if D else D`
  * a local is its value (class methods, rules: always; matching functions: when the value already has a name), so naming or
    inlining an intermediate result does not matter
  * `a, b = x, y`; `a, b = <pair>`; `a, b = self.helper(..)` / `Class.helper(..)` with a straight-line helper (instance or static
    method) returning a tuple: the helper's statements renamed apart
  * `for f in (A, B, C): BODY` with a literal tuple = the copies of BODY; `zip(p, q)` of two pairs = the list of the two
    component pairs; a `for` over any expression of that type is the local structural loop
  * a helper function keeps what an `isinstance` test established about the argument it is given
  * `assert E` with E free of effects is the guard `if E then .. else None` (the agreement proof then has to show E);
    D.keys() and A.isdisjoint(B) are available for such tests.  `assert x is not None` on a local whose translation has a
    non-option type holds by construction and is dropped; on an option type it is the guard; on a parameter that defaults to
    None it is refused
  * `PRE; while isinstance(param, C): param = E; REST` = the tail call `if isinstance(param, C): return f(E, ...)`, under the
    side condition (emitted as a lemma of the generated file, so checked by Coq, not here) that re-running PRE on its own
    results changes nothing
"""
from __future__ import annotations

import ast
import os
import re

CTORS = {
    'EVar': ('PEVar', ['name']), 'SVar': ('PSVar', ['name']), 'Symbol': ('PSym', ['name']),
    'Implies': ('PImp', ['left', 'right']), 'App': ('PApp', ['left', 'right']),
    'Exists': ('PEx', ['var', 'subpattern']), 'Mu': ('PMu', ['var', 'subpattern']),
    'MetaVar': ('PMVar', ['name', 'e_fresh', 's_fresh', 'positive', 'negative', 'app_ctx_holes']),
    'ESubst': ('PESub', ['pattern', 'var', 'plug']), 'SSubst': ('PSSub', ['pattern', 'var', 'plug']),
    'Instantiate': ('PInst', ['pattern', 'inst']),
}
FIELD_T = {'name': 'N', 'left': 'pat', 'right': 'pat', 'var': 'N', 'subpattern': 'pat', 'pattern': 'pat', 'plug': 'pat',
           'e_fresh': 'evars', 's_fresh': 'svars', 'positive': 'svars', 'negative': 'svars', 'app_ctx_holes': 'evars',
           'inst': 'dict'}
# method -> (generated name, [(param, type)], result type, uses fuel)
METHODS = {
    'evar_is_free': ('src_evar_is_free', [('name', 'N')], 'bool', True),
    'apply_esubst': ('src_apply_esubst', [('evar_id', 'N'), ('plug', 'pat')], 'pat', True),
    'apply_ssubst': ('src_apply_ssubst', [('svar_id', 'N'), ('plug', 'pat')], 'pat', True),
    'instantiate': ('src_instantiate', [('delta', 'dict')], 'pat', True),
    'metavars': ('src_metavars', [], 'set', False),
}
# classmethods that are model primitives (their bodies use vars()/sorted()/cls and are not translated)
PRIMS = {('Implies', 'unwrap'): ('unwrap_imp', 'optpair'), ('App', 'unwrap'): ('unwrap_app', 'optpair'),
         ('EVar', 'deconstruct'): ('decon_evar', 'optN'), ('SVar', 'deconstruct'): ('decon_svar', 'optN'),
         ('Symbol', 'deconstruct'): ('decon_sym', 'optN'), ('Exists', 'deconstruct'): ('decon_ex', 'optNpat'),
         ('Mu', 'deconstruct'): ('decon_mu', 'optNpat')}
BINDER_T = {}      # generated binder -> type tag (for the parameters of the auxiliary continuation definitions)
AUX = []           # auxiliary top-level definitions (text), in dependency order
COQ_TAG = {'pat': 'ppat', 'dict': 'delta', 'N': 'N', 'bool': 'bool', 'optN': 'option N', 'optpair': 'option (ppat * ppat)',
           'pair': '(ppat * ppat)', 'optNpat': 'option (N * ppat)', 'Npat': '(N * ppat)', 'optdict': 'option delta'}
UNOPT = {'optpair': 'pair', 'optN': 'N', 'optNpat': 'Npat', 'optdict': 'dict'}
COQ_T = {'N': 'N', 'bool': 'bool', 'pat': 'ppat', 'dict': 'delta', 'set': 'list N'}


def die(node, why):
    where = f'line {getattr(node, "lineno", "?")}'
    try:
        txt = ast.unparse(node)
    except Exception:  # noqa: BLE001
        txt = type(node).__name__
    raise SystemExit(f'pypattern translator: unsupported ({why}) at {where}: {txt[:160]}')


class Ctx:
    """one method body: names in scope, the class, fresh-name counter"""

    def __init__(self, cls, classes, fuel):
        self.cls, self.classes, self.fuel = cls, classes, fuel
        self.env = {}          # python name -> (gallina term, type)
        self.n = 0
        self.self_term = 'self'
        self.defcls = cls      # the class in which the method being translated is defined (for super())
        self.refined = {}      # python name -> class (after isinstance), its fields are bound as s_<field>

    def fresh(self, base='c', ty=None):
        self.n += 1
        name = f'{base}{self.n}'
        if ty is not None:
            BINDER_T[name] = ty
        return name

    def copy(self):
        c = Ctx(self.cls, self.classes, self.fuel)
        c.env = dict(self.env)
        c.n = self.n
        c.self_term = self.self_term
        c.defcls = self.defcls
        c.refined = dict(self.refined)
        return c


def mk_if(c, a, b):
    """canonical conditional: a negated test is the positive test with the branches exchanged"""
    c = c.strip()
    while c.startswith('(negb ') and c.endswith(')') and balanced(c[6:-1]):
        c = c[6:-1].strip()
        a, b = b, a
    return f'(if {c} then {a} else {b})'


def balanced(t):
    """is t one complete term (so that `(negb t)` is exactly the negation of t)?"""
    t = t.strip()
    if not t.startswith('('):
        return ' ' not in t
    d = 0
    for i, ch in enumerate(t):
        if ch == '(':
            d += 1
        elif ch == ')':
            d -= 1
            if d == 0:
                return i == len(t) - 1
    return False


def is_effect(ctx, e):
    """does evaluating e call a fuel-consuming method / index a dict (option-valued)?"""
    for n in ast.walk(e):
        if isinstance(n, ast.Subscript):
            return True
        if isinstance(n, ast.Call) and isinstance(n.func, ast.Attribute):
            m = n.func.attr
            if m in METHODS and METHODS[m][3]:
                return True
            if m == 'simplify':
                return True
        if isinstance(n, ast.DictComp) and is_effect(ctx, n.value):
            return True
    return False


# ---- expressions: tr(ctx, e, k) where k(term, type) -> Gallina of type `option _` -------------------------------

def tr(ctx, e, k):
    if isinstance(e, ast.Name):
        if e.id == 'self':
            return k(ctx.self_term, 'pat')
        if e.id in ctx.env:
            return k(*ctx.env[e.id])
        die(e, 'unknown name')
    if isinstance(e, ast.Constant) and isinstance(e.value, bool):
        return k('true' if e.value else 'false', 'bool')
    if isinstance(e, ast.Attribute):
        # self.var.name (the EVar/SVar object of a substitution node) = the variable id
        if (isinstance(e.value, ast.Attribute) and isinstance(e.value.value, ast.Name) and e.value.value.id == 'self'
                and e.value.attr == 'var' and e.attr == 'name' and ctx.cls in ('ESubst', 'SSubst')):
            return k('s_var', 'N')
        if isinstance(e.value, ast.Name) and e.value.id == 'self':
            if e.attr not in CTORS[ctx.cls][1]:
                die(e, f'{ctx.cls} has no field {e.attr}')
            if e.attr == 'var' and ctx.cls in ('ESubst', 'SSubst'):
                die(e, 'the variable object of a substitution is only supported as self.var.name')
            return k('s_' + e.attr, FIELD_T[e.attr])
        if isinstance(e.value, ast.Name) and e.value.id in ctx.refined:
            cls = ctx.refined[e.value.id]
            if e.attr not in CTORS[cls][1] or (e.attr == 'var' and cls in ('ESubst', 'SSubst')):
                die(e, f'{cls} has no plain field {e.attr}')
            return k('s_' + e.attr, FIELD_T[e.attr])
        if e.attr == 'conclusion':          # Proved.conclusion
            return tr(ctx, e.value, lambda t, ty: k(t, 'pat') if ty == 'proved' else die(e, 'conclusion of a non-Proved'))
        if e.attr == 'name':                # <EVar parameter>.name
            return tr(ctx, e.value, lambda t, ty: k(t, 'N') if ty == 'evarobj' else die(e, '.name of a non-variable'))
        die(e, 'attribute')
    if isinstance(e, ast.IfExp):
        def kt(tt, tyt):
            if tyt == 'dict':
                tt = f'(negb (isnil {tt}))'
            elif tyt != 'bool':
                die(e, f'conditional expression on a condition of type {tyt}')
            if is_effect(ctx, e.body) or is_effect(ctx, e.orelse):
                die(e, 'effectful branch of a conditional expression outside return position')
            return tr(ctx, e.body, lambda ta, tya: tr(ctx, e.orelse, lambda tb, tyb:
                      k(mk_if(tt, ta, tb), tya) if tya == tyb else die(e, 'branches of different type')))
        return tr(ctx, e.test, kt)
    if isinstance(e, ast.Dict) and not e.keys:
        return k('[]', 'dict')
    if isinstance(e, ast.UnaryOp) and isinstance(e.op, ast.Not):
        o = e.operand
        # de Morgan (same evaluation order and short circuit), negated comparisons
        if isinstance(o, ast.BoolOp):
            n_ = ast.BoolOp(op=ast.Or() if isinstance(o.op, ast.And) else ast.And(),
                            values=[ast.copy_location(ast.UnaryOp(op=ast.Not(), operand=v), v) for v in o.values])
            return tr(ctx, ast.copy_location(n_, e), k)
        FLIP = {ast.Eq: ast.NotEq, ast.NotEq: ast.Eq, ast.In: ast.NotIn, ast.NotIn: ast.In, ast.Is: ast.IsNot, ast.IsNot: ast.Is}
        if isinstance(o, ast.Compare) and len(o.ops) == 1 and type(o.ops[0]) in FLIP:
            return tr(ctx, ast.copy_location(ast.Compare(left=o.left, ops=[FLIP[type(o.ops[0])]()], comparators=o.comparators), e), k)

        def kn(t, ty):
            if ty == 'dict':
                return k(f'(isnil {t})', 'bool')
            if ty == 'bool':
                return k(f'(negb {t})', 'bool')
            die(e, f'not on {ty}')
        return tr(ctx, e.operand, kn)
    if isinstance(e, ast.Compare) and len(e.ops) == 1:
        op, a, b = e.ops[0], e.left, e.comparators[0]
        if isinstance(op, (ast.Eq, ast.NotEq)):
            def k1(ta, tya):
                def k2(tb, tyb):
                    if tya == 'N' and tyb == 'N':
                        t = f'(N.eqb {ta} {tb})'
                        return k(t if isinstance(op, ast.Eq) else f'(negb {t})', 'bool')
                    if tya == 'pat' and tyb == 'pat':
                        c = ctx.fresh('c', 'bool')
                        r = c if isinstance(op, ast.Eq) else f'(negb {c})'
                        return f'bind (py_eq flags_current n {ta} {tb}) (fun {c} => {k(r, "bool")})'
                    die(e, f'comparison of {tya} and {tyb}')
                return tr(ctx, b, k2)
            return tr(ctx, a, k1)
        if isinstance(op, (ast.In, ast.NotIn)):
            neg = isinstance(op, ast.NotIn)

            def fin(t):
                return k(f'(negb {t})' if neg else t, 'bool')

            def k1(ta, tya):
                def k2(tb, tyb):
                    if tya == 'N' and tyb == 'dict':
                        return fin(f'(amem {ta} {tb})')
                    if tya == 'N' and tyb == 'set':
                        return fin(f'(mem {ta} {tb})')
                    if (tya, tyb) in (('evarobj', 'evars'), ('svarobj', 'svars')):      # EVar(x) in self.e_fresh
                        return fin(f'(mem {ta} {tb})')
                    die(e, f'{tya} in {tyb}')
                return tr(ctx, b, k2)
            return tr(ctx, a, k1)
        die(e, 'comparison operator')
    if isinstance(e, ast.BoolOp):
        vals = e.values
        is_and = isinstance(e.op, ast.And)

        def go(i, acc):
            if i == len(vals):
                return k(acc, 'bool')

            def kv(t, ty):
                if ty == 'dict' and acc is None and len(vals) == 2 and not is_effect(ctx, vals[1]):
                    # `D or E` = D if D else E;  `D and E` = E if D else D   (a dict is true when it is not empty)
                    return tr(ctx, vals[1], lambda t2, ty2: k(mk_if(f'(negb (isnil {t}))', t2 if is_and else t, t if is_and else t2), 'dict')
                              if ty2 == 'dict' else die(e, f'dict {"and" if is_and else "or"} {ty2}'))
                if ty != 'bool':
                    die(e, f'boolean operator on {ty}')
                if acc is None:
                    return go(i + 1, t)
                if is_effect(ctx, vals[i]):
                    die(e, 'effectful operand of and/or outside tail position')
                return go(i + 1, f'({acc} && {t})' if is_and else f'({acc} || {t})')
            if acc is not None and is_effect(ctx, vals[i]):
                # short circuit around an effectful operand
                if i == len(vals) - 1 and getattr(k, 'tail', False):
                    rest = tr(ctx, vals[i], k)
                else:
                    rest = tr(ctx, vals[i], lambda t, ty: go(i + 1, t))
                return (f'(if {acc} then {rest} else {k("false", "bool")})' if is_and
                        else f'(if {acc} then {k("true", "bool")} else {rest})')
            return tr(ctx, vals[i], kv)
        return go(0, None)
    if isinstance(e, ast.BinOp) and isinstance(e.op, ast.BitOr):        # set union / dict merge, as a.union(b) / {**a, **b}
        return tr(ctx, e.left, lambda ta, tya: tr(ctx, e.right, lambda tb, tyb:
                  k(f'({ta} ++ {tb})', tya) if tya == tyb and tya in ('set', 'dict') else die(e, f'{tya} | {tyb}')))
    if isinstance(e, ast.Subscript) and isinstance(e.slice, ast.Constant) and e.slice.value in (0, 1):
        def kp(t, ty):
            if ty == 'pair':
                return k(f'({"fst" if e.slice.value == 0 else "snd"} {t})', 'pat')
            if ty == 'Npat':
                return k(f'({"fst" if e.slice.value == 0 else "snd"} {t})', 'N' if e.slice.value == 0 else 'pat')
            die(e, f'index of {ty}')
        return tr(ctx, e.value, kp)
    if isinstance(e, ast.Subscript):
        def k1(td, tyd):
            def k2(tk, tyk):
                if tyd == 'dict' and tyk == 'N':
                    if getattr(k, 'tail', False):
                        return f'alookup {tk} {td}'
                    c = ctx.fresh('c', 'pat')
                    return f'bind (alookup {tk} {td}) (fun {c} => {k(c, "pat")})'
                die(e, f'{tyd}[{tyk}]')
            return tr(ctx, e.slice, k2)
        return tr(ctx, e.value, k1)
    if isinstance(e, ast.Set) and len(e.elts) == 1:
        return tr(ctx, e.elts[0], lambda t, ty: k(f'[{t}]', 'set') if ty == 'N' else die(e, 'set element'))
    if isinstance(e, ast.Dict) and all(x is None for x in e.keys) and len(e.values) == 2:      # {**a, **b}
        return tr(ctx, e.values[0], lambda ta, tya: tr(ctx, e.values[1], lambda tb, tyb:
                  k(f'({ta} ++ {tb})', 'dict') if tya == tyb == 'dict' else die(e, 'dict merge')))
    if isinstance(e, ast.DictComp) and len(e.generators) == 1:
        g = e.generators[0]
        if not (isinstance(g.target, ast.Tuple) and len(g.target.elts) == 2 and all(isinstance(x, ast.Name) for x in g.target.elts)
                and isinstance(g.iter, ast.Call) and isinstance(g.iter.func, ast.Attribute) and g.iter.func.attr == 'items'
                and not g.iter.args and isinstance(e.key, ast.Name) and e.key.id == g.target.elts[0].id):
            die(e, 'dict comprehension shape')
        kn, vn = g.target.elts[0].id, g.target.elts[1].id

        def kd(td, tyd):
            if tyd != 'dict':
                die(e, 'comprehension over a non-dict')
            kv = ctx.fresh('kv')
            c2 = ctx.copy()
            c2.env[kn] = (f'(fst {kv})', 'N')
            c2.env[vn] = (f'(snd {kv})', 'pat')
            if g.ifs:
                if not (isinstance(e.value, ast.Name) and e.value.id == vn and len(g.ifs) == 1) or is_effect(ctx, g.ifs[0]):
                    die(e, 'filtering comprehension must keep the value')
                cond = tr_pure(c2, g.ifs[0], 'bool')
                ctx.n = c2.n
                return k(f'(filter (fun {kv} => {cond}) {td})', 'dict')
            body = tr(c2, e.value, lambda t, ty: f'Some (fst {kv}, {t})' if ty == 'pat' else die(e, 'comprehension value'))
            ctx.n = c2.n
            c = ctx.fresh()
            return f'bind (map_opt (fun {kv} => {body}) {td}) (fun {c} => {k(c, "dict")})'
        return tr(ctx, g.iter.func.value, kd)
    if isinstance(e, ast.Call):
        f = e.func
        if isinstance(f, ast.Name):
            if f.id == 'set' and not e.args:
                return k('[]', 'set')
            if f.id == 'zip' and len(e.args) == 2 and all(kw.arg == 'strict' for kw in e.keywords):
                # the two components of two pairs, side by side
                return tr(ctx, e.args[0], lambda ta, tya: tr(ctx, e.args[1], lambda tb, tyb:
                          k(f'[(fst {ta}, fst {tb}); (snd {ta}, snd {tb})]', 'eqs') if tya == tyb == 'pair' else die(e, f'zip of {tya} and {tyb}')))
            if f.id == 'frozendict' and len(e.args) == 1:
                return tr(ctx, e.args[0], lambda t, ty: k(t, 'dict') if ty == 'dict' else die(e, 'frozendict of non-dict'))
            if f.id == 'Proved' and len(e.args) == 1:
                return tr(ctx, e.args[0], lambda t, ty: k(t, 'proved') if ty == 'pat' else die(e, 'Proved of non-pattern'))
            if f.id in ('EVar', 'SVar') and len(e.args) == 1 and not e.keywords:
                # the variable object is represented by its id
                return tr(ctx, e.args[0], lambda t, ty: k(t, 'evarobj' if f.id == 'EVar' else 'svarobj') if ty == 'N' else die(e, 'variable id'))
            if f.id == 'match_single' and len(e.args) == 3 and not e.keywords:
                def a3(i, acc):
                    if i == 3:
                        call = 'src_match_single n ' + ' '.join(acc)
                        if getattr(k, 'tail', False):
                            return call
                        c = ctx.fresh('c', 'optdict')
                        return f'bind ({call}) (fun {c} => {k(c, "optdict")})'
                    want = ['pat', 'pat', 'dict'][i]
                    return tr(ctx, e.args[i], lambda t, ty: a3(i + 1, acc + [t]) if ty == want else die(e.args[i], f'{ty} for {want}'))
                return a3(0, [])
            if f.id in CTORS:
                ctor, fields = CTORS[f.id]
                args = {}
                for i, a in enumerate(e.args):
                    args[fields[i]] = a
                for kw in e.keywords:
                    args[kw.arg] = kw.value
                if f.id == 'MetaVar' or set(args) != set(fields):
                    die(e, 'constructor arguments')

                def build(i, acc):
                    if i == len(fields):
                        return k('(' + ' '.join([ctor] + acc) + ')', 'pat')
                    fld, a = fields[i], args[fields[i]]
                    want = FIELD_T[fld]
                    # ESubst(..., var=EVar(x), ...): the variable object is stored as its id
                    if f.id in ('ESubst', 'SSubst') and fld == 'var':
                        want = 'evarobj' if f.id == 'ESubst' else 'svarobj'      # stored as the variable id
                    elif f.id in ('Exists', 'Mu') and fld == 'var' and isinstance(a, ast.Attribute) and a.attr == 'name':
                        pass
                    return tr(ctx, a, lambda t, ty: build(i + 1, acc + [t]) if ty == want else die(a, f'field {fld}: {ty} for {want}'))
                # Python evaluates constructor arguments in source order (positional then keywords)
                order = [fields[i] for i in range(len(e.args))] + [kw.arg for kw in e.keywords]
                if order != fields:
                    die(e, 'constructor arguments out of field order')
                return build(0, [])
            die(e, 'function call')
        if isinstance(f, ast.Attribute):
            m = f.attr
            if isinstance(f.value, ast.Name) and (f.value.id, m) in PRIMS and len(e.args) == 1 and not e.keywords:
                prim, pty = PRIMS[(f.value.id, m)]

                def kprim(t, ty):
                    if ty != 'pat':
                        die(e, 'primitive on a non-pattern')
                    c = ctx.fresh('c', pty)
                    return f'bind ({prim} flags_current n {t}) (fun {c} => {k(c, pty)})'
                return tr(ctx, e.args[0], kprim)
            if isinstance(f.value, ast.Name) and f.value.id in ctx.refined and m not in METHODS:
                cls = ctx.refined[f.value.id]
                dc, fn = resolve(ctx.classes, cls, m)
                if fn is None:
                    die(e, f'{cls}.{m} not found')
                return inline_expr(ctx, cls, dc, fn, ctx.env[f.value.id][0], e.args, k, f'{cls}.{m}')
            if m == 'keys' and not e.args and not e.keywords:
                return tr(ctx, f.value, lambda t, ty: k(f'(keys {t})', 'set') if ty == 'dict' else die(e, f'keys of {ty}'))
            if m == 'isdisjoint' and len(e.args) == 1 and not e.keywords:      # sets and key views both have it
                return tr(ctx, f.value, lambda ta, tya: tr(ctx, e.args[0], lambda tb, tyb:
                          k(f'(disjointb {ta} {tb})', 'bool') if tya == tyb == 'set' else die(e, f'{m} of {tya} and {tyb}')))
            if m == 'union' and len(e.args) == 1:
                return tr(ctx, f.value, lambda ta, tya: tr(ctx, e.args[0], lambda tb, tyb:
                          k(f'({ta} ++ {tb})', 'set') if tya == tyb == 'set' else die(e, 'union')))
            # super().m(args): the body the base class gives to m, for the same object
            if (isinstance(f.value, ast.Call) and isinstance(f.value.func, ast.Name) and f.value.func.id == 'super' and not f.value.args
                    and ctx.cls in CTORS):
                dc, fn = resolve(ctx.classes, ctx.cls, m, after=ctx.defcls)
                if fn is None:
                    die(e, f'super().{m} not found')
                return inline_expr(ctx, ctx.cls, dc, fn, ctx.self_term, e.args, k, f'super().{m}')
            # self.helper(args): a method that is not one of the translated entry points is inlined
            if isinstance(f.value, ast.Name) and f.value.id == 'self' and m not in METHODS and ctx.cls in CTORS:
                dc, fn = resolve(ctx.classes, ctx.cls, m)
                if fn is None:
                    die(e, f'{ctx.cls}.{m} not found')
                return inline_expr(ctx, ctx.cls, dc, fn, ctx.self_term, e.args, k, f'{ctx.cls}.{m}')
            if m in METHODS:
                gname, params, rty, fuel = METHODS[m]
                if len(e.args) != len(params) or e.keywords:
                    die(e, 'arity')

                def krecv(tr_, tyr):
                    if tyr != 'pat':
                        die(e, f'method {m} on {tyr}')

                    def args(i, acc):
                        if i == len(params):
                            call = ' '.join([gname] + (['n'] if fuel else []) + [tr_] + acc)
                            if not fuel:
                                return k(f'({call})', rty)
                            if getattr(k, 'tail', False):
                                return call
                            c = ctx.fresh('c', rty)
                            return f'bind ({call}) (fun {c} => {k(c, rty)})'
                        return tr(ctx, e.args[i], lambda t, ty: args(i + 1, acc + [t]) if ty == params[i][1]
                                  else die(e.args[i], f'argument {params[i][0]}: {ty} for {params[i][1]}'))
                    return args(0, [])
                return tr(ctx, f.value, krecv)
            die(e, 'method call')
    die(e, 'expression')


def inline_expr(ctx, cls, defcls, fn, self_term, arg_nodes, k, what):
    """a call of a helper whose body is `x1 = E1; ...; return E`: the body with the parameters bound to the (evaluated)
    arguments, the locals to their definitions"""
    params = [a.arg for a in fn.args.args]
    if params and params[0] in ('self', 'cls'):
        params = params[1:]
    stmts = body_of(fn)
    if len(params) != len(arg_nodes) or fn.args.defaults or not stmts or not isinstance(stmts[-1], ast.Return) \
            or not all(isinstance(x, (ast.Assign, ast.AnnAssign)) and isinstance(x.targets[0] if isinstance(x, ast.Assign) else x.target, ast.Name)
                       for x in stmts[:-1]):
        die(fn, f'helper {what} must be simple assignments followed by one return')
    c2 = ctx.copy()
    c2.env = {}
    if cls is not None:
        c2.cls, c2.defcls, c2.self_term = cls, defcls, self_term

    def args(i):
        if i == len(params):
            return locals_(0)

        def ka(t, ty):
            c2.env[params[i]] = (t, ty)
            return args(i + 1)
        return tr(ctx, arg_nodes[i], ka)

    def locals_(j):
        c2.n = max(c2.n, ctx.n)
        if j == len(stmts) - 1:
            r = tr(c2, stmts[-1].value, k)
            ctx.n = max(ctx.n, c2.n)
            return r
        st = stmts[j]
        tgt = st.targets[0] if isinstance(st, ast.Assign) else st.target

        def kl(t, ty):
            c2.env[tgt.id] = (t, ty)
            ctx.n = max(ctx.n, c2.n)
            return locals_(j + 1)
        return tr(c2, st.value, kl)
    return args(0)


def tr_cond(ctx, e):
    """a pure test; a dict in boolean position means "non-empty" """
    if is_effect(ctx, e):
        die(e, 'effectful condition')
    out = []

    def k(t, ty):
        if ty == 'dict':
            t = f'(negb (isnil {t}))'
        elif ty != 'bool':
            die(e, f'condition of type {ty}')
        out.append(t)
        return t
    tr(ctx, e, k)
    return out[0]


def tr_pure(ctx, e, want):
    if is_effect(ctx, e):
        die(e, 'effectful expression where a pure one is required')
    out = []

    def k(t, ty):
        if ty != want:
            die(e, f'{ty} where {want} expected')
        out.append(t)
        return t
    tr(ctx, e, k)
    return out[0]


def tr_pure_any(ctx, e):
    if is_effect(ctx, e):
        die(e, 'effectful argument of an inlined helper')
    out = []

    def k(t, ty):
        out.append((t, ty))
        return t
    tr(ctx, e, k)
    return out[0]


def strip_doc(stmts):
    if stmts and isinstance(stmts[0], ast.Expr) and isinstance(stmts[0].value, ast.Constant) and isinstance(stmts[0].value.value, str):
        return stmts[1:]
    return stmts



# ---- canonicalisation of equivalent idioms (before translation) -------------------------------------------------------

def terminates(stmts):
    if not stmts:
        return False
    last = stmts[-1]
    if isinstance(last, (ast.Return, ast.Raise)):
        return True
    if isinstance(last, ast.If):
        return terminates(last.body) and terminates(last.orelse)
    return False


class _Subst(ast.NodeTransformer):
    def __init__(self, name, repl):
        self.name, self.repl = name, repl

    def visit_Name(self, node):
        if node.id == self.name and isinstance(node.ctx, ast.Load):
            import copy
            return ast.copy_location(copy.deepcopy(self.repl), node)
        return node


class _Rename(ast.NodeTransformer):
    def __init__(self, names, pre):
        self.names, self.pre = names, pre

    def visit_Name(self, node):
        if node.id in self.names:
            return ast.copy_location(ast.Name(id=self.pre + node.id, ctx=node.ctx), node)
        return node


def rename_locals(stmt, names, pre):
    import copy
    return _Rename(names, pre).visit(copy.deepcopy(stmt))


def subst_name(stmt, name, repl):
    import copy
    return ast.fix_missing_locations(_Subst(name, repl).visit(copy.deepcopy(stmt)))


def normalise(stmts):
    """`return A if c else B` = `if c: return A` / `return B`;  `if c: <returns> else: REST` = `if c: <returns>` followed by REST
    (an else branch after a returning branch is an early return); applied recursively"""
    out = []
    for s in stmts:
        if isinstance(s, ast.Return) and isinstance(s.value, ast.IfExp):
            e = s.value
            s = ast.If(test=e.test, body=[ast.Return(value=e.body)], orelse=[ast.Return(value=e.orelse)])
            ast.copy_location(s, e)
            for r in (s.body[0], s.orelse[0]):
                ast.copy_location(r, e)
        if isinstance(s, ast.If):
            body = normalise(s.body)
            orelse = normalise(s.orelse)
            if orelse and terminates(body):
                n = ast.If(test=s.test, body=body, orelse=[])
                ast.copy_location(n, s)
                out.append(n)
                out.extend(orelse)
                continue
            n = ast.If(test=s.test, body=body, orelse=orelse)
            ast.copy_location(n, s)
            out.append(n)
            continue
        if (isinstance(s, ast.For) and isinstance(s.iter, (ast.Tuple, ast.List)) and isinstance(s.target, ast.Name) and not s.orelse
                and all(isinstance(x, (ast.Name, ast.Attribute)) for x in s.iter.elts)
                and not any(isinstance(x, (ast.Break, ast.Continue)) for b in s.body for x in ast.walk(b))
                and not any(isinstance(x, ast.Name) and x.id == s.target.id and isinstance(x.ctx, ast.Store) for b in s.body for x in ast.walk(b))):
            # `for f in (A, B, C): BODY` = BODY[f:=A]; BODY[f:=B]; BODY[f:=C]
            for elt in s.iter.elts:
                out.extend(normalise([subst_name(b, s.target.id, elt) for b in s.body]))
            continue
        if isinstance(s, ast.For):
            n = ast.For(target=s.target, iter=s.iter, body=normalise(s.body), orelse=s.orelse)
            ast.copy_location(n, s)
            out.append(n)
            continue
        out.append(s)
    return out


def body_of(fn):
    return normalise(strip_doc(fn.body))

# ---- statements --------------------------------------------------------------------------------------------------

def ret_k(rty):
    def k(t, ty):
        if ty != rty:
            raise SystemExit(f'pypattern translator: return of {ty} where {rty} expected: {t}')
        return f'Some {t}'
    k.tail = True
    return k


def block(ctx, stmts, rty):
    if not stmts:
        raise SystemExit(f'pypattern translator: {ctx.cls}: control reaches the end of a method without return')
    s, rest = stmts[0], stmts[1:]
    if isinstance(s, ast.Return):
        if s.value is None:
            die(s, 'bare return')
        return tr(ctx, s.value, ret_k(rty))
    if isinstance(s, ast.If):
        if s.orelse:
            die(s, 'if with else')
        c = tr_cond(ctx, s.test)
        a = block(ctx.copy(), s.body, rty)
        b = block(ctx, rest, rty)
        return mk_if(c, a, b)
    if isinstance(s, ast.Assert):
        return tr(ctx, s.test, lambda t, ty: mk_if(t, block(ctx, rest, rty), 'None') if ty == 'bool' else die(s, 'assert'))
    if isinstance(s, (ast.Assign, ast.AnnAssign)):
        tgt = s.targets[0] if isinstance(s, ast.Assign) else s.target
        if isinstance(s, ast.Assign) and len(s.targets) != 1:
            die(s, 'multiple targets')
        # a, b = Implies.extract(E)
        if (isinstance(tgt, ast.Tuple) and len(tgt.elts) == 2 and isinstance(s.value, ast.Call) and isinstance(s.value.func, ast.Attribute)
                and isinstance(s.value.func.value, ast.Name) and s.value.func.value.id == 'Implies' and s.value.func.attr == 'extract'):
            def kx(t, ty):
                if ty != 'pat':
                    die(s, 'extract of non-pattern')
                a, b = ctx.fresh('l'), ctx.fresh('r')
                ctx.env[tgt.elts[0].id] = (a, 'pat')
                ctx.env[tgt.elts[1].id] = (b, 'pat')
                return f'bind (extract_imp n {t}) (fun lr => let {a} := fst lr in let {b} := snd lr in {block(ctx, rest, rty)})'
            return tr(ctx, s.value.args[0], kx)
        # a, b = x, y  (the right-hand sides do not mention the targets): two assignments
        if (isinstance(tgt, ast.Tuple) and isinstance(s.value, ast.Tuple) and len(tgt.elts) == len(s.value.elts)
                and all(isinstance(x, ast.Name) for x in tgt.elts)
                and not ({x.id for x in tgt.elts} & {n.id for v in s.value.elts for n in ast.walk(v) if isinstance(n, ast.Name)})):
            seq = [ast.copy_location(ast.Assign(targets=[t_], value=v_), s) for t_, v_ in zip(tgt.elts, s.value.elts)]
            return block(ctx, seq + rest, rty)
        # a, b = self.helper(args) / Class.helper(args): the helper's statements, its parameters and locals renamed apart,
        # with `return x, y` turned into the assignment of the targets
        if isinstance(tgt, ast.Tuple) and isinstance(s.value, ast.Call) and isinstance(s.value.func, ast.Attribute) \
                and isinstance(s.value.func.value, ast.Name) and not s.value.keywords:
            recv, m = s.value.func.value.id, s.value.func.attr
            hcls = ctx.cls if recv in ('self', ctx.cls) else None
            dc, fn = resolve(ctx.classes, hcls, m) if hcls and m not in METHODS else (None, None)
            if fn is None:
                die(s, 'unpacking the result of an unknown helper')
            params = [a.arg for a in fn.args.args]
            deco = [d.id for d in fn.decorator_list if isinstance(d, ast.Name)]
            if len(deco) != len(fn.decorator_list) or any(d != 'staticmethod' for d in deco) or fn.args.defaults \
                    or fn.args.kwonlyargs or fn.args.vararg or fn.args.kwarg:
                die(fn, 'helper signature')
            if 'staticmethod' not in deco:
                if recv != 'self' or not params or params[0] != 'self':
                    die(s, 'instance helper called without self')
                params = params[1:]
            hb = body_of(fn)
            if len(params) != len(s.value.args) or not hb or not isinstance(hb[-1], ast.Return) or hb[-1].value is None \
                    or any(isinstance(x, (ast.Return, ast.If, ast.For, ast.While)) for st in hb[:-1] for x in ast.walk(st)):
                die(fn, 'helper must be straight-line code ending in one return')
            HELPER_N[0] += 1
            pre = f'_h{HELPER_N[0]}_'
            local = set(params) | {x.id for st in hb for x in ast.walk(st) if isinstance(x, ast.Name) and isinstance(x.ctx, ast.Store)}
            if 'staticmethod' in deco and any(isinstance(x, ast.Name) and x.id == 'self' for st in hb for x in ast.walk(st)):
                die(fn, 'self in a static method')
            hb = [rename_locals(st, local, pre) for st in hb]
            seq = [ast.copy_location(ast.Assign(targets=[ast.Name(id=pre + p, ctx=ast.Store())], value=a), s)
                   for p, a in zip(params, s.value.args)]
            seq += hb[:-1]
            seq.append(ast.copy_location(ast.Assign(targets=[tgt], value=hb[-1].value), s))
            return block(ctx, [ast.fix_missing_locations(x) for x in seq] + rest, rty)
        if not isinstance(tgt, ast.Name):
            die(s, 'assignment target')
        # the accumulation loop:  x = set(); for v in E: if T: x = x.union(A) else: x.add(B)
        if (rest and isinstance(rest[0], ast.For) and isinstance(s.value, ast.Call) and isinstance(s.value.func, ast.Name)
                and s.value.func.id == 'set' and not s.value.args):
            return loop(ctx, tgt.id, rest[0], rest[1:], rty)

        def ka(t, ty):
            # a local is its (already evaluated, effect-free) value: no `let`, so naming or not naming an intermediate
            # result gives the same term
            ctx.env[tgt.id] = (t, ty)
            return block(ctx, rest, rty)
        return tr(ctx, s.value, ka)
    if isinstance(s, ast.Expr) and isinstance(s.value, ast.Constant):
        return block(ctx, rest, rty)
    die(s, 'statement')


def loop(ctx, acc, f, rest, rty):
    if not (isinstance(f.target, ast.Name) and not f.orelse and len(f.body) == 1 and isinstance(f.body[0], ast.If)
            and len(f.body[0].body) == 1 and len(f.body[0].orelse) == 1):
        die(f, 'loop shape')
    v = f.target.id
    iff = f.body[0]
    a, b = iff.body[0], iff.orelse[0]
    # acc = acc.union(D[v].m())      -> acc ++ (the method mapped over the dict's values, looked up at v)
    u = None
    if isinstance(a, ast.Assign) and isinstance(a.targets[0], ast.Name) and a.targets[0].id == acc:
        v_ = a.value
        if (isinstance(v_, ast.Call) and isinstance(v_.func, ast.Attribute) and v_.func.attr == 'union'
                and isinstance(v_.func.value, ast.Name) and v_.func.value.id == acc and len(v_.args) == 1):
            u = v_.args[0]
        elif isinstance(v_, ast.BinOp) and isinstance(v_.op, ast.BitOr) and isinstance(v_.left, ast.Name) and v_.left.id == acc:
            u = v_.right
    if u is None:
        die(a, 'loop body: acc = acc.union(...) / acc = acc | ...')
    if not (isinstance(u, ast.Call) and isinstance(u.func, ast.Attribute) and u.func.attr in METHODS and not METHODS[u.func.attr][3]
            and not u.args and isinstance(u.func.value, ast.Subscript) and isinstance(u.func.value.slice, ast.Name)
            and u.func.value.slice.id == v):
        die(u, 'loop body: union of D[v].<pure method>()')
    # acc.add(v)
    if not (isinstance(b, ast.Expr) and isinstance(b.value, ast.Call) and isinstance(b.value.func, ast.Attribute)
            and b.value.func.attr == 'add' and isinstance(b.value.func.value, ast.Name) and b.value.func.value.id == acc
            and len(b.value.args) == 1 and isinstance(b.value.args[0], ast.Name) and b.value.args[0].id == v):
        die(b, 'loop body: acc.add(v)')
    lv = ctx.fresh('v')
    c2 = ctx.copy()
    c2.env[v] = (lv, 'N')
    d = tr_pure(c2, u.func.value.value, 'dict')
    cond = tr_pure(c2, iff.test, 'bool')
    it = tr_pure(ctx, f.iter, 'set')
    g = METHODS[u.func.attr][0]
    kv = ctx.fresh('kv')
    step = (f'(fun acc {lv} => if {cond} then acc ++ dflt_nil (alookup {lv} (map (fun {kv} => (fst {kv}, {g} (snd {kv}))) {d})) '
            f'else acc ++ [{lv}])')
    w = ctx.fresh('v')
    ctx.n = max(ctx.n, c2.n)
    ctx.env[acc] = (w, 'set')
    return f'(let {w} := fold_left {step} {it} [] in {block(ctx, rest, rty)})'


# ---- module-level functions match_single / match (result: option (option delta)) ------------------------------------

def fret(ctx, e):
    if isinstance(e, ast.Constant) and e.value is None:
        return 'Some None'

    def k(t, ty):
        if ty == 'dict':
            return f'Some (Some {t})'
        if ty == 'optdict':
            return f'Some {t}'
        raise SystemExit(f'pypattern translator: return of {ty} from a matching function')
    k.tail = True
    return tr(ctx, e, k)


def none_tests(test):
    """names of `(X is not None) and (Y is not None) ...`, or None"""
    parts = test.values if isinstance(test, ast.BoolOp) and isinstance(test.op, ast.And) else [test]
    out = []
    for p in parts:
        if (isinstance(p, ast.Compare) and len(p.ops) == 1 and isinstance(p.ops[0], ast.IsNot) and isinstance(p.left, ast.Name)
                and isinstance(p.comparators[0], ast.Constant) and p.comparators[0].value is None):
            out.append(p.left.id)
        else:
            return None
    return out


def walrus_tests(test):
    parts = test.values if isinstance(test, ast.BoolOp) and isinstance(test.op, ast.And) else [test]
    if all(isinstance(p, ast.NamedExpr) and isinstance(p.target, ast.Name) for p in parts):
        return [(p.target.id, p.value) for p in parts]
    return None



def aux_cont(ctx, text):
    """the code after a two-way test is shared by both outcomes: emit it once as an auxiliary top-level definition
    (parameters: the recursive function, the fuel, the variables in scope it mentions) and return the call"""
    at = ctx.n
    free = []
    for m in re.finditer(r'\b(a_[a-z]+|(?:c|v|w|kv|st|e)\d+)\b', text):
        name = m.group(1)
        if name in free:
            continue
        if name.startswith('a_'):
            free.append(name)
        else:
            num = int(re.search(r'\d+$', name).group(0))
            if num <= at and name in BINDER_T:
                free.append(name)
    PARAM_T = {'a_pattern': 'pat', 'a_instance': 'pat', 'a_extend': 'dict'}
    params = ' '.join(f'({x}:{COQ_TAG[PARAM_T.get(x) or BINDER_T[x]]})' for x in free)
    name = f'src_match_single_k{len(AUX) + 1}'
    body = text.replace('src_match_single n', 'rec')
    AUX.append((name, f'Definition {name} (rec:ppat -> ppat -> delta -> option (option delta)) (n:nat) {params} '
                      f': option (option delta) :=\n  {body}.'))
    return '(' + ' '.join([name, '(src_match_single n)', 'n'] + free) + ')'


def fblock(ctx, stmts, cont):
    if not stmts:
        if cont is None:
            raise SystemExit('pypattern translator: control reaches the end of a matching function without return')
        return cont(ctx)
    s, rest = stmts[0], stmts[1:]

    def after(c):
        return fblock(c, rest, cont)
    if isinstance(s, ast.Expr) and isinstance(s.value, ast.Constant):
        return after(ctx)
    if isinstance(s, ast.AnnAssign) and s.value is None:
        return after(ctx)
    if isinstance(s, ast.Assert):
        t_ = s.test
        # `assert X is not None`: the translation is typed; a name whose type is not an option type cannot be None, the
        # assertion holds by construction and says nothing.  On an option type it is the guard (AssertionError = None).
        if (isinstance(t_, ast.Compare) and len(t_.ops) == 1 and isinstance(t_.ops[0], ast.IsNot) and isinstance(t_.left, ast.Name)
                and isinstance(t_.comparators[0], ast.Constant) and t_.comparators[0].value is None and t_.left.id in ctx.env):
            t, ty = ctx.env[t_.left.id]
            if t == 'a_extend':
                die(s, 'a parameter that defaults to None may be None')
            if ty not in UNOPT:
                return after(ctx)
            w = ctx.fresh('w', UNOPT[ty])
            ctx.env[t_.left.id] = (w, UNOPT[ty])
            return f'(match {t} with | Some {w} => {after(ctx)} | None => None end)'
        if is_effect(ctx, t_) or any(isinstance(n, ast.NamedExpr) for n in ast.walk(t_)):
            die(s, 'assert with effects')
        return mk_if(tr_pure(ctx, t_, 'bool'), after(ctx), 'None')
    if isinstance(s, ast.Return):
        if s.value is None:
            die(s, 'bare return')
        v = s.value
        if (isinstance(v, ast.Call) and isinstance(v.func, ast.Name) and v.func.id in FUNCS and v.func.id not in ('match_single', 'match')
                and not v.keywords):
            # return helper(args): the helper's statements take the place of the return
            fn = FUNCS[v.func.id]
            params = [a.arg for a in fn.args.args]
            if len(params) != len(v.args) or fn.args.defaults or fn.decorator_list:
                die(v, 'helper call')
            c2 = ctx.copy()
            c2.env = {}
            c2.refined = {}

            def hargs(i):
                if i == len(params):
                    c2.n = max(c2.n, ctx.n)
                    r = fblock(c2, body_of(fn), None)
                    ctx.n = max(ctx.n, c2.n)
                    return r

                def ka(t, ty):
                    c2.env[params[i]] = (t, ty)
                    if isinstance(v.args[i], ast.Name) and v.args[i].id in ctx.refined:
                        c2.refined[params[i]] = ctx.refined[v.args[i].id]      # same object, same class
                    return hargs(i + 1)
                return tr(ctx, v.args[i], ka)
            return hargs(0)
        return fret(ctx, s.value)
    if isinstance(s, (ast.Assign, ast.AnnAssign)):
        tgt = s.targets[0] if isinstance(s, ast.Assign) else s.target
        if isinstance(s, ast.Assign) and len(s.targets) != 1:
            die(s, 'multiple targets')
        if isinstance(tgt, ast.Subscript) and isinstance(tgt.value, ast.Name):     # D[k] = v
            d = tgt.value.id

            def kd(td, tyd):
                return tr(ctx, tgt.slice, lambda tk, tyk: tr(ctx, s.value, lambda tv, tyv:
                          upd(td, tyd, tk, tyk, tv, tyv)))

            def upd(td, tyd, tk, tyk, tv, tyv):
                if (tyd, tyk, tyv) != ('dict', 'N', 'pat'):
                    die(s, 'dict update')
                v = ctx.fresh('v', 'dict')
                ctx.env[d] = (v, 'dict')
                return f'(let {v} := aset {tk} {tv} {td} in {after(ctx)})'
            return tr(ctx, tgt.value, kd)
        if isinstance(tgt, ast.Tuple) and len(tgt.elts) == 2 and all(isinstance(x, ast.Name) for x in tgt.elts):
            # a, b = <pair>: the two components
            def kp(t, ty):
                if ty not in ('pair', 'Npat'):
                    die(s, f'unpacking of {ty}')
                ctx.env[tgt.elts[0].id] = (f'(fst {t})', 'pat' if ty == 'pair' else 'N')
                ctx.env[tgt.elts[1].id] = (f'(snd {t})', 'pat')
                for x in tgt.elts:
                    ctx.refined.pop(x.id, None)
                return after(ctx)
            return tr(ctx, s.value, kp)
        if not isinstance(tgt, ast.Name):
            die(s, 'assignment target')

        def ka(t, ty):
            if re.fullmatch(r"[A-Za-z_][A-Za-z0-9_']*", t):
                # another name for a value that already has one
                ctx.env[tgt.id] = (t, ty)
                if isinstance(s.value, ast.Name) and s.value.id in ctx.refined:
                    ctx.refined[tgt.id] = ctx.refined[s.value.id]
                else:
                    ctx.refined.pop(tgt.id, None)
                return after(ctx)
            v = ctx.fresh('v', ty)
            ctx.env[tgt.id] = (v, ty)
            ctx.refined.pop(tgt.id, None)
            return f'(let {v} := {t} in {after(ctx)})'
        return tr(ctx, s.value, ka)
    if isinstance(s, ast.If):
        test = s.test
        # isinstance(x, C): case analysis on the constructor, fields bound
        if (isinstance(test, ast.Call) and isinstance(test.func, ast.Name) and test.func.id == 'isinstance' and len(test.args) == 2
                and isinstance(test.args[0], ast.Name) and isinstance(test.args[1], ast.Name) and test.args[1].id in CTORS):
            x, cls = test.args[0].id, test.args[1].id
            if x not in ctx.env or ctx.env[x][1] != 'pat' or s.orelse:
                die(s, 'isinstance test')
            c1 = ctx.copy()
            c1.refined[x] = cls
            pat = ' '.join([CTORS[cls][0]] + ['s_' + f for f in CTORS[cls][1]])
            a = fblock(c1, s.body, after)
            b = after(ctx)
            return f'(match {ctx.env[x][0]} with | {pat} => {a} | _ => {b} end)'
        w = walrus_tests(test)
        if w is not None:
            if s.orelse:
                die(s, 'else after a walrus test')
            c0 = ctx.copy()
            els = after(c0)
            c1 = ctx.copy()
            c1.n = max(c1.n, c0.n)
            rk = aux_cont(ctx, els)

            def chain(i):
                if i == len(w):
                    return fblock(c1, s.body, after)
                name, val = w[i]

                def kw(t, ty):
                    if ty not in UNOPT:
                        die(val, f'truth value of {ty}')
                    v = c1.fresh('w', UNOPT[ty])
                    c1.env[name] = (v, UNOPT[ty])
                    return f'(match {t} with | Some {v} => {chain(i + 1)} | None => {rk} end)'
                return tr(c1, val, kw)
            body = chain(0)
            ctx.n = max(ctx.n, c1.n)
            return body
        nt = none_tests(test)
        if nt is not None:
            if s.orelse:
                die(s, 'else after an `is not None` test')
            c0 = ctx.copy()
            els = after(c0)
            c1 = ctx.copy()
            c1.n = max(c1.n, c0.n)
            rk = aux_cont(ctx, els)
            inner = None
            binds = []
            for name in nt:
                if name not in c1.env or c1.env[name][1] not in UNOPT:
                    die(test, f'`is not None` on {name}')
                t, ty = c1.env[name]
                v = c1.fresh('w', UNOPT[ty])
                binds.append((t, v))
                c1.env[name] = (v, UNOPT[ty])
            inner = fblock(c1, s.body, after)
            for t, v in reversed(binds):
                inner = f'(match {t} with | Some {v} => {inner} | None => {rk} end)'
            ctx.n = max(ctx.n, c1.n)
            return inner
        # X is None
        if (isinstance(test, ast.Compare) and len(test.ops) == 1 and isinstance(test.ops[0], ast.Is) and isinstance(test.left, ast.Name)
                and isinstance(test.comparators[0], ast.Constant) and test.comparators[0].value is None):
            name = test.left.id
            if name not in ctx.env or ctx.env[name][1] not in UNOPT or s.orelse:
                die(s, '`is None` test')
            t, ty = ctx.env[name]
            a = fblock(ctx.copy(), s.body, after)
            c2 = ctx.copy()
            v = c2.fresh('w', UNOPT[ty])
            c2.env[name] = (v, UNOPT[ty])
            b = after(c2)
            ctx.n = max(ctx.n, c2.n)
            return f'(match {t} with | None => {a} | Some {v} => {b} end)'

        def kt(t, ty):
            if ty != 'bool':
                die(test, f'condition of type {ty}')
            a = fblock(ctx.copy(), s.body, after)
            b = fblock(ctx.copy(), s.orelse, after) if s.orelse else after(ctx.copy())
            return mk_if(t, a, b)
        return tr(ctx, test, kt)
    if isinstance(s, ast.For):
        # for a, b in <list parameter>: body   -- a local structural loop; the loop state = the dict variables assigned in the body
        if not (isinstance(s.target, ast.Tuple) and len(s.target.elts) == 2 and all(isinstance(x, ast.Name) for x in s.target.elts)
                and not s.orelse):
            die(s, 'loop shape')
        it_t, it_ty = tr_pure_any(ctx, s.iter)
        if it_ty != 'eqs':
            die(s, f'loop over {it_ty}')
        assigned = sorted({t.id for n in ast.walk(s) if isinstance(n, ast.Assign) for t in n.targets if isinstance(t, ast.Name)
                           and t.id in ctx.env and ctx.env[t.id][1] == 'dict'})
        if len(assigned) != 1:
            die(s, 'loop state must be one dict variable')
        st = assigned[0]
        c1 = ctx.copy()
        e, sv = c1.fresh('e'), c1.fresh('st')
        c1.env[s.target.elts[0].id] = (f'(fst {e})', 'pat')
        c1.env[s.target.elts[1].id] = (f'(snd {e})', 'pat')
        c1.env[st] = (sv, 'dict')
        body = fblock(c1, s.body, lambda c: f'loop t {c.env[st][0]}')
        c3 = ctx.copy()
        c3.n = c1.n
        c3.env[st] = (sv, 'dict')
        done = after(c3)
        ctx.n = c3.n
        return (f'((fix loop (l:list (ppat*ppat)) ({sv}:delta) {{struct l}} : option (option delta) := '
                f'match l with | [] => {done} | {e} :: t => {body} end) {it_t} {ctx.env[st][0]})')
    die(s, 'statement')


HELPER_N = [0]  # renaming apart of inlined helpers' locals
def loop_to_tailcall(fn, env):
    """`PRE; while isinstance(x, C): x = E; REST` with x a parameter, PRE pure assignments `v = e(p)` each reading one other
    parameter p that nothing else reads: the loop is the tail call `if isinstance(x, C): return fn(E, ..., v for p, ...)`,
    PROVIDED re-running PRE on the passed values gives the same values, e(v) = v.  That proviso is not decided here: it is
    emitted as a lemma of the generated file (the build fails if it does not hold).
    Returns (statements, [(lemma variable type, e(e(x)), e(x))])"""
    stmts = body_of(fn)
    params = [a.arg for a in fn.args.args]
    for j, s in enumerate(stmts):
        if not isinstance(s, ast.While):
            continue
        t = s.test
        if not (not s.orelse and isinstance(t, ast.Call) and isinstance(t.func, ast.Name) and t.func.id == 'isinstance' and len(t.args) == 2
                and isinstance(t.args[0], ast.Name) and t.args[0].id in params and isinstance(t.args[1], ast.Name)
                and len(s.body) == 1 and isinstance(s.body[0], ast.Assign) and len(s.body[0].targets) == 1
                and isinstance(s.body[0].targets[0], ast.Name) and s.body[0].targets[0].id == t.args[0].id):
            die(s, 'while loop (only `while isinstance(param, C): param = E`)')
        x = t.args[0].id
        pre = {}
        for p_ in stmts[:j]:
            if isinstance(p_, ast.AnnAssign) and p_.value is None:
                continue
            tgt = p_.targets[0] if isinstance(p_, ast.Assign) and len(p_.targets) == 1 else getattr(p_, 'target', None)
            if not (isinstance(p_, (ast.Assign, ast.AnnAssign)) and isinstance(tgt, ast.Name) and tgt.id not in params and tgt.id not in pre
                    and not any(isinstance(n, (ast.Call, ast.Subscript, ast.NamedExpr, ast.Attribute)) for n in ast.walk(p_.value))):
                die(p_, 'statement before a while loop must be a pure assignment to a fresh local')
            names = {n.id for n in ast.walk(p_.value) if isinstance(n, ast.Name)}
            if len(names) != 1 or not names <= set(params) - {x}:
                die(p_, 'assignment before a while loop must read exactly one parameter other than the loop variable')
            pre[tgt.id] = (names.pop(), p_.value)
        by_param = {}
        for v, (p, e) in pre.items():
            if p in by_param:
                die(s, f'parameter {p} read twice before the loop')
            by_param[p] = (v, e)
        later = {n.id for st in stmts[j:] for n in ast.walk(st) if isinstance(n, ast.Name)}
        if later & set(by_param):
            die(s, 'a parameter consumed before the loop is used again')
        args, side = [], []
        for p in params:
            if p == x:
                args.append(s.body[0].value)
            elif p in by_param:
                v, e = by_param[p]
                args.append(ast.Name(id=v, ctx=ast.Load()))
                ty = env[p][1]
                c1 = Ctx(None, {}, True)
                c1.env = {p: ('x', ty)}
                t1 = tr_pure(c1, e, ty)
                c1.env = {p: (t1, ty)}
                t2 = tr_pure(c1, e, ty)
                side.append((COQ_TAG[ty], t2, t1))
            else:
                args.append(ast.Name(id=p, ctx=ast.Load()))
        call = ast.Call(func=ast.Name(id=fn.name, ctx=ast.Load()), args=args, keywords=[])
        new = ast.If(test=t, body=[ast.Return(value=call)], orelse=[])
        out = stmts[:j] + [ast.fix_missing_locations(ast.copy_location(new, s))] + stmts[j + 1:]
        if any(isinstance(n, ast.While) for st in out for n in ast.walk(st)):
            die(s, 'more than one while loop')
        return out, side
    return stmts, []


FUNCS = {}     # module-level functions of pattern.py


def gen_matching(tree, classes):
    fns = {f.name: f for f in tree.body if isinstance(f, ast.FunctionDef)}
    FUNCS.clear()
    FUNCS.update(fns)
    out = []
    f = fns.get('match_single')
    if f is None or [a.arg for a in f.args.args] != ['pattern', 'instance', 'extend'] or len(f.args.defaults) != 1 \
            or not (isinstance(f.args.defaults[0], ast.Constant) and f.args.defaults[0].value is None) or f.decorator_list:
        raise SystemExit('pypattern translator: match_single: unexpected signature / decorators')
    ctx = Ctx(None, classes, True)
    ctx.env = {'pattern': ('a_pattern', 'pat'), 'instance': ('a_instance', 'pat'), 'extend': ('a_extend', 'dict')}
    del AUX[:]
    BINDER_T.clear()
    stmts, side = loop_to_tailcall(f, ctx.env)
    body = fblock(ctx, stmts, None)
    for i, (ty, t2, t1) in enumerate(side):
        out.append('(* a head loop of match_single was read as a tail call; this is the condition under which that is the same:\n'
                   '   the assignments before the loop, run again on their own results, change nothing *)\n'
                   f'Lemma src_match_single_loop_pre{i + 1} : forall x:{ty}, {t2} = {t1}.\n'
                   'Proof. intro x; destruct x; reflexivity. Qed.\n')
    out.append('(* continuations of match_single shared by both outcomes of a test (one definition each, innermost first) *)')
    for _name, text in AUX:
        out.append(text)
    out.append('#[global] Hint Unfold ' + ' '.join(n for n, _ in AUX) + ' : pysrc.\n')
    out.append('(* match_single(pattern, instance, extend): extend=None and extend={} are both the empty seed; Python None = inner None *)\n'
               'Fixpoint src_match_single (n:nat) (a_pattern a_instance:ppat) (a_extend:delta) {struct n} : option (option delta) :=\n'
               f'  match n with O => None | S n =>\n  {body}\n  end.\n')
    f = fns.get('match')
    if f is None or [a.arg for a in f.args.args] != ['equations'] or f.args.defaults or f.decorator_list:
        raise SystemExit('pypattern translator: match: unexpected signature / decorators')
    ctx = Ctx(None, classes, True)
    ctx.env = {'equations': ('a_equations', 'eqs')}
    body = fblock(ctx, body_of(f), None)
    out.append('(* match(equations) *)\nDefinition src_match (n:nat) (a_equations:list (ppat*ppat)) : option (option delta) :=\n'
               f'  {body}.\n')
    return out


# ---- driver ---------------------------------------------------------------------------------------------------------

BASES = {}     # class -> list of base class names (source order)


def methods_of(tree):
    classes = {}
    for node in tree.body:
        if isinstance(node, ast.ClassDef):
            classes[node.name] = {f.name: f for f in node.body if isinstance(f, ast.FunctionDef)}
            BASES[node.name] = [b.id for b in node.bases if isinstance(b, ast.Name)]
    return classes


def mro(cls):
    out = [cls]
    for b in BASES.get(cls, []):
        for c in mro(b):
            if c not in out:
                out.append(c)
    return out


def resolve(classes, cls, m, after=None):
    """the method m of class cls as Python finds it (through the base classes); `after` = start behind that class
    (super()).  Returns (defining class, FunctionDef) or (None, None)"""
    chain = mro(cls)
    if after is not None:
        chain = chain[chain.index(after) + 1:] if after in chain else []
    for c in chain:
        fn = classes.get(c, {}).get(m)
        if fn is not None:
            return c, fn
    return None, None


def arm(cls, classes, m):
    gname, params, rty, fuel = METHODS[m]
    defcls, fn = resolve(classes, cls, m)
    if fn is None:
        raise SystemExit(f'pypattern translator: {cls}.{m} not found')
    got = [a.arg for a in fn.args.args]
    if got != ['self'] + [p for p, _ in params] or fn.args.defaults or fn.args.kwonlyargs or fn.args.vararg:
        raise SystemExit(f'pypattern translator: {cls}.{m}: parameters {got} (expected self, {[p for p, _ in params]})')
    ctx = Ctx(cls, classes, fuel)
    ctx.defcls = defcls
    for p, t in params:
        ctx.env[p] = ('a_' + p, t)
    body = block(ctx, body_of(fn), rty)
    if not fuel:
        # pure methods: the body is `Some t` built from pure parts; strip the option
        body = unsome(body)
    pat = ' '.join([CTORS[cls][0]] + ['s_' + f for f in CTORS[cls][1]])
    return f'  | {pat} =>\n      (* {cls}.{m} *)\n      {body}'


def unsome(t):
    """pure bodies: push the `Some` out (if/let only)"""
    t = t.strip()
    if t.startswith('Some '):
        return t[5:]
    if t.startswith('(if ') or t.startswith('(let '):
        # replace the innermost `Some x` occurrences textually: pure bodies contain no bind
        if 'bind' in t or 'None' in t:
            raise SystemExit('pypattern translator: pure method with effects')
        return t.replace('Some ', '')
    raise SystemExit(f'pypattern translator: cannot purify {t[:80]}')


def generate(repo):
    src = os.path.join(repo, 'generation', 'src', 'proof_generation')
    tree = ast.parse(open(os.path.join(src, 'pattern.py')).read())
    classes = methods_of(tree)
    for c in CTORS:
        if c not in classes:
            raise SystemExit(f'pypattern translator: class {c} not found in pattern.py')
    order = list(CTORS)
    out = ['(** GENERATED by translators/pypattern.py from generation/src/proof_generation/pattern.py and',
           '    basic_interpreter.py (current tree). Do not edit.  One match arm per class method. *)',
           'From Coq Require Import NArith List Bool.',
           'From Pi2 Require Import ML.Syntax Py.Pattern Py.Bridge Py.GenSupport.',
           'Import ListNotations.', 'Open Scope N_scope.', '']
    # metavars: structural
    out.append('Fixpoint src_metavars (self:ppat) : list N :=\n  match self with')
    out += [arm(c, classes, 'metavars') for c in order]
    out.append('  end.\n')
    # instantiate / apply_esubst / apply_ssubst: mutual, on fuel
    sigs = {'instantiate': '(a_delta:delta)', 'apply_esubst': '(a_evar_id:N) (a_plug:ppat)', 'apply_ssubst': '(a_svar_id:N) (a_plug:ppat)'}
    first = True
    for m in ('instantiate', 'apply_esubst', 'apply_ssubst'):
        kw = 'Fixpoint' if first else 'with'
        first = False
        out.append(f'{kw} {METHODS[m][0]} (n:nat) (self:ppat) {sigs[m]} {{struct n}} : option ppat :=\n'
                   '  match n with O => None | S n =>\n  match self with')
        out += [arm(c, classes, m) for c in order]
        out.append('  end end')
    out[-1] += '.\n'
    out.append('Fixpoint src_evar_is_free (n:nat) (self:ppat) (a_name:N) {struct n} : option bool :=\n'
               '  match n with O => None | S n =>\n  match self with')
    out += [arm(c, classes, 'evar_is_free') for c in order]
    out.append('  end end.\n')
    out += gen_matching(tree, classes)
    # the three rules of BasicInterpreter
    btree = ast.parse(open(os.path.join(src, 'basic_interpreter.py')).read())
    bcls = methods_of(btree).get('BasicInterpreter')
    if bcls is None:
        raise SystemExit('pypattern translator: BasicInterpreter not found')
    rules = {'modus_ponens': ([('left', 'proved'), ('right', 'proved')], 'src_modus_ponens', '(a_left a_right:ppat)'),
             'exists_generalization': ([('proved', 'proved'), ('var', 'evarobj')], 'src_exists_generalization', '(a_proved:ppat) (a_var:N)'),
             'instantiate': ([('proved', 'proved'), ('delta', 'dict')], 'src_instantiate_rule', '(a_proved:ppat) (a_delta:delta)')}
    for m, (params, gname, sig) in rules.items():
        fn = bcls.get(m)
        if fn is None or [a.arg for a in fn.args.args] != ['self'] + [p for p, _ in params]:
            raise SystemExit(f'pypattern translator: BasicInterpreter.{m}: unexpected signature')
        ctx = Ctx('BasicInterpreter', {'BasicInterpreter': bcls}, True)
        for p, t in params:
            ctx.env[p] = ('a_' + p, t)
        body = block_rule(ctx, body_of(fn))
        out.append(f'(* BasicInterpreter.{m}: a Proved is represented by its conclusion; None = AssertionError or out of fuel *)\n'
                   f'Definition {gname} (n:nat) {sig} : option ppat :=\n  {body}.\n')
    return '\n'.join(out)


def block_rule(ctx, stmts):
    """rules return Proved(...) (or the premise itself): result type 'proved'"""
    return block(ctx, stmts, 'proved')

"""Fail-closed STATEMENT-LEVEL translator: `instantiate_internal` / `instantiate_in_place` of rust/src/lib.rs -> coq/Gen/InstFn.v.

Every arm of `match p.as_ref()` is translated statement by statement (recursive calls, `is_none()` tests, the re-assignments
`x = Some(Rc::clone(y))`, `unwrap()`, `?`, the constraint scans `LIST.into_iter().find(|&v| !plugs[pos].JUDGE(*v))`, the bounds check, `return`),
Rust `Option<Rc<Pattern>>` locals become `option pat`, a panic anywhere (index out of range, unwrap of None, panic!/assert) becomes `IPanic`.
So WHICH constraint list is checked with WHICH judgement, which sub-results are combined how and which substitution function is re-applied
come from the source text; renaming locals or reflowing changes nothing. `ML/GenAgree.v` proves the result equal to the model's `inst`.
Result type of the generated function: IPanic | IUnchanged (Rust `None`) | IChanged q (Rust `Some(q)`).
"""
import os
import re
import sys

sys.path.insert(0, os.path.dirname(os.path.abspath(__file__)))
from rust_exec import norm, find_fn, split_stmts, split_arms, split_top, match_close  # noqa: E402


def fail(msg):
    raise SystemExit('rust_inst translator: ' + msg)


def v(n):
    return 'v_' + n


JUDGE = {'e_fresh': 'gen_e_fresh', 's_fresh': 'gen_s_fresh', 'positive': 'gen_positive', 'negative': 'gen_negative'}
CONS = {'implies': ('Imp', 2), 'app': ('App', 2), 'exists': ('Ex', 2), 'mu': ('Mu', 2), 'evar': ('EVar', 1), 'svar': ('SVar', 1), 'symbol': ('Sym', 1),
        'esubst': ('ESub', 3), 'ssubst': ('SSub', 3)}
FIELDS = {'Implies': ('Imp', ['left', 'right']), 'App': ('App', ['left', 'right']), 'Exists': ('Ex', ['var', 'subpattern']),
          'Mu': ('Mu', ['var', 'subpattern']), 'MetaVar': ('MVar', ['id', 'e_fresh', 's_fresh', 'positive', 'negative', 'app_ctx_holes']),
          'ESubst': ('ESub', ['pattern', 'evar_id', 'plug']), 'SSubst': ('SSub', ['pattern', 'svar_id', 'plug'])}
TUPLE = {'EVar': 'EVar', 'SVar': 'SVar', 'Symbol': 'Sym'}


class Tr:
    src = ''        # lib.rs text (for private helper functions, which are expanded at their call sites)

    def __init__(self):
        self.n = 0
        self.opts = set()      # locals of Rust type Option<Rc<Pattern>>

    def tmp(self):
        self.n += 1
        return f't{self.n}'

    # ---- pattern-valued expressions; pre = list of (kind, binder, arg) evaluated left to right ---------------------------------------------
    def expr(self, e, pre):
        e = e.strip()
        m = re.fullmatch(r'Rc::clone\(&?plugs\[(\w+)\]\)', e)
        if m:
            t = self.tmp()
            pre.append(('index', t, v(m.group(1))))
            return t
        m = re.fullmatch(r'Rc::clone\(&?(\w+)\)', e) or re.fullmatch(r'&(\w+)', e) or re.fullmatch(r'\*(\w+)', e)
        if m:
            return v(m.group(1))
        m = re.fullmatch(r'&?(\w+)\.unwrap_or(?:_else)?\((?:\|\| )?Rc::clone\(&?(\w+)\)\)', e)
        if m and m.group(1) in self.opts:
            return f'(opt_or {v(m.group(1))} {v(m.group(2))})'
        m = re.fullmatch(r'&?(\w+)\.unwrap\(\)', e)
        if m:
            if m.group(1) not in self.opts:
                fail('unwrap of a non-option local: ' + e)
            t = self.tmp()
            pre.append(('unwrap', t, v(m.group(1))))
            return t
        m = re.fullmatch(r'(\w+)\?', e)
        if m:
            if m.group(1) not in self.opts:
                fail('? on a non-option local: ' + e)
            t = self.tmp()
            pre.append(('try', t, v(m.group(1))))
            return t
        if re.fullmatch(r'[a-z_]\w*', e):
            if e in self.opts:
                fail('option local used as a pattern: ' + e)
            return v(e)
        m = re.fullmatch(r'(\w+)\((.*)\)', e)
        if m and match_close(e, len(m.group(1))) == len(e) - 1:
            f, args = m.group(1), split_top(m.group(2))
            if f in CONS:
                c, ar = CONS[f]
                if len(args) != ar:
                    fail(f'{f} applied to {len(args)} arguments')
                return '(' + c + ' ' + ' '.join(self.expr(a, pre) for a in args) + ')'
            if f in ('apply_esubst', 'apply_ssubst') and len(args) == 3:
                a = [self.expr(x, pre) for x in args]
                t = self.tmp()
                pre.append(('partial', t, f'gen_{f} {a[0]} {a[1]} {a[2]}'))
                return t
            fail('unknown function in expression: ' + e[:80])
        fail('unrecognised expression: ' + e[:100])

    def wrap(self, pre, body):
        for kind, t, arg in reversed(pre):
            if kind == 'index':
                body = f'match nth_error plugs {arg} with Some {t} => {body} | None => IPanic end'
            elif kind == 'unwrap':
                body = f'match {arg} with Some {t} => {body} | None => IPanic end'
            elif kind == 'try':
                body = f'match {arg} with Some {t} => {body} | None => IUnchanged end'
            elif kind == 'partial':
                body = f'match {arg} with Some {t} => {body} | None => IPanic end'
        return body

    def result(self, e):
        """value of the function: `None` | `Some(EXPR)` | `OPT.map(|x| EXPR)` | `match (A, B) { .. }`"""
        e = e.strip()
        if e == 'None':
            return 'IUnchanged'
        m = re.fullmatch(r'(\w+)\(&?(\w+), &?(\w+), vars, plugs\)\.map\(\|\((\w+), (\w+)\)\| (.*)\)', e)
        if m and m.group(1) != 'instantiate_internal':
            h, a1, a2, x, y, body = m.groups()
            hm = re.search(r'\nfn ' + h + r'\(', self.src)
            if not hm:
                fail('unknown helper ' + h)
            ht = norm(find_fn(self.src, h))
            sig = re.fullmatch(r'fn ' + h + r'\((\w+): &Rc<Pattern>, (\w+): &Rc<Pattern>, vars: &\[Id\], plugs: &\[Rc<Pattern>\]\) '
                               r'-> Option<\(Rc<Pattern>, Rc<Pattern>\)> \{ (.*) \}', ht)
            if not sig:
                fail(f'helper {h} has an unexpected signature: ' + ht[:160])
            p1, p2, hb = sig.groups()
            for old, new in ((p1, a1), (p2, a2)):
                hb = re.sub(r'\b' + old + r'\b', new, hb)
            hs = split_stmts(hb)
            last = hs[-1].strip().rstrip(';').strip()
            if last.startswith('return '):
                last = last[len('return '):]
            tm = re.fullmatch(r'Some\(\((.*)\)\)', last)
            if not tm or len(split_top(tm.group(1))) != 2:
                fail(f'helper {h} does not end with Some((a, b)): ' + last[:100])
            e1, e2 = split_top(tm.group(1))
            hs = hs[:-1] + [f'let {x} = {e1}', f'let {y} = {e2}', f'Some({body})']
            return self.block(hs, None)
        m = re.fullmatch(r'instantiate_internal\(&?(\w+), vars, plugs\)\.map\(\|(\w+)\| (.*)\)', e)
        if m:
            y, x, body = m.groups()
            pre = []
            b = self.expr(body, pre)
            return (f'match gen_inst_internal {v(y)} vars plugs with IPanic => IPanic | IUnchanged => IUnchanged '
                    f'| IChanged {v(x)} => {self.wrap(pre, "IChanged " + b)} end')
        m = re.fullmatch(r'(\w+)\.map\(\|(\w+)\| (.*)\)', e)
        if m and m.group(1) in self.opts:
            o, x, body = m.groups()
            pre = []
            b = self.expr(body, pre)
            return f'match {v(o)} with Some {v(x)} => {self.wrap(pre, "IChanged " + b)} | None => IUnchanged end'
        m = re.fullmatch(r'match \((\w+), (\w+)\) \{ (.*) \}', e)
        if m and m.group(1) in self.opts and m.group(2) in self.opts:
            a, b2 = m.group(1), m.group(2)
            code = None
            chain = []
            for pat, text, is_block in split_arms(m.group(3)):
                pm = re.fullmatch(r'\((.*), (.*)\)', pat)
                if not pm:
                    fail('tuple match arm: ' + pat)
                conds, binds = [], []
                saved = set(self.opts)
                for scrut, comp in ((a, pm.group(1).strip()), (b2, pm.group(2).strip())):
                    if comp == 'None':
                        conds.append(f'(is_none {v(scrut)})')
                    elif comp == '_':
                        pass
                    elif re.fullmatch(r'Some\((\w+)\)', comp):
                        x = comp[5:-1]
                        conds.append(f'(negb (is_none {v(scrut)}))')
                        binds.append((x, f'(opt_or {v(scrut)} {v(scrut.replace("inst_", ""))})', False))
                        fail('Some(x) components in a tuple match are not supported')
                    elif re.fullmatch(r'\w+', comp):
                        binds.append((comp, v(scrut), True))
                        self.opts.add(comp)
                    else:
                        fail('tuple match component: ' + comp)
                body = self.block(split_stmts(text) if is_block else [text], None)
                for x, val, _ in reversed(binds):
                    if v(x) != val:
                        body = f'let {v(x)} := {val} in {body}'
                self.opts = saved | {x for x, _, isopt in binds if isopt}
                chain.append((' && '.join(conds) if conds else None, body))
                if not conds:
                    break
            if not chain or chain[-1][0] is not None:
                fail('tuple match without a catch-all arm')
            code = chain[-1][1]
            for c, body in reversed(chain[:-1]):
                code = f'if ({c}) then {body} else {code}'
            return code
        m = re.fullmatch(r'Some\((.*)\)', e)
        if m and match_close(e, 4) == len(e) - 1:
            pre = []
            x = self.expr(m.group(1), pre)
            return self.wrap(pre, f'IChanged {x}')
        fail('unrecognised result expression: ' + e[:100])

    def cond(self, c):
        c = c.strip()
        parts = split_top(c.replace('&&', '\x00'), '\x00')
        if len(parts) > 1:
            return '(' + ' && '.join(self.cond(p) for p in parts) + ')'
        parts = split_top(c.replace('||', '\x00'), '\x00')
        if len(parts) > 1:
            return '(' + ' || '.join(self.cond(p) for p in parts) + ')'
        m = re.fullmatch(r'(\w+)\.is_none\(\)', c)
        if m and m.group(1) in self.opts:
            return f'(is_none {v(m.group(1))})'
        m = re.fullmatch(r'(\w+)\.is_some\(\)', c)
        if m and m.group(1) in self.opts:
            return f'(negb (is_none {v(m.group(1))}))'
        m = re.fullmatch(r'(\w+) >= plugs\.len\(\)', c)
        if m:
            return f'(Nat.leb (length plugs) {v(m.group(1))})'
        if c.startswith('!'):
            return f'(negb {self.cond(c[1:])})'
        fail('unrecognised condition: ' + c[:100])

    def is_panic(self, s):
        return re.fullmatch(r'(panic|unimplemented|unreachable)!\(.*\);?', s.strip()) is not None

    def block(self, stmts, rest):
        """stmts: statements of a block whose LAST one may be the tail expression; rest(): what follows the block when it falls through
        (None = the block is the function body's tail: its last statement is the value)"""
        if not stmts:
            if rest is None:
                fail('block without a value')
            return rest()
        s, more = stmts[0].strip().rstrip(';').strip(), stmts[1:]

        def after():
            return self.block(more, rest)
        # return
        m = re.fullmatch(r'return (.*)', s)
        if m:
            return self.result(m.group(1))
        if self.is_panic(s):
            return 'IPanic'
        # recursive call bound to an option local
        m = re.fullmatch(r'let (?:mut )?(\w+) = instantiate_internal\(&?(\w+), vars, plugs\)', s)
        if m:
            x, y = m.groups()
            self.opts.add(x)
            return f'match gen_inst_internal {v(y)} vars plugs with IPanic => IPanic | r_{x} => let {v(x)} := ires_opt r_{x} in {after()} end'
        m = re.fullmatch(r'let (\w+) = instantiate_internal\(&?(\w+), vars, plugs\)\?', s)
        if m:
            x, y = m.groups()
            return f'match gen_inst_internal {v(y)} vars plugs with IPanic => IPanic | IUnchanged => IUnchanged | IChanged {v(x)} => {after()} end'
        m = re.fullmatch(r'let (\w+) = instantiate_internal\(&?(\w+), vars, plugs\)\.unwrap_or(?:_else)?\((?:\|\| )?Rc::clone\(&?(\w+)\)\)', s)
        if m:
            x, y, z = m.groups()
            return f'match gen_inst_internal {v(y)} vars plugs with IPanic => IPanic | r_{x} => let {v(x)} := ires_val r_{x} {v(z)} in {after()} end'
        # constraint scan
        m = re.fullmatch(r'if let Some\((\w+)\) = (\w+)\.into_iter\(\)\.find\(\|&(\w+)\| !plugs\[(\w+)\]\.(\w+)\(\*(\w+)\)\) \{ (.*) \}', s)
        if m:
            v1, lst, v2, pos, meth, v3, body = m.groups()
            if not (v1 == v2 == v3) or meth not in JUDGE or not self.is_panic(body):
                fail('odd constraint scan: ' + s[:120])
            return f'match check_all {JUDGE[meth]} plugs {v(pos)} {v(lst)} with Some true => {after()} | _ => IPanic end'
        m = re.fullmatch(r'let (\w+) = vars\.iter\(\)\.position\(\|&(\w+)\| (\w+) == \*(\w+)\)\?', s)
        if m:
            pos, x1, x2, idv = m.groups()
            if x1 != x2:
                fail('odd position closure: ' + s[:120])
            return f'match position {v(idv)} vars with Some {v(pos)} => {after()} | None => IUnchanged end'
        # constraint scan written as a loop
        m = re.fullmatch(r'for (\w+) in (\w+)(?:\.iter\(\))? \{ if !plugs\[(\w+)\]\.(\w+)\(\*(\w+)\) \{ (.*) \} \}', s)
        if m:
            v1, lst, pos, meth, v2, body = m.groups()
            if v1 != v2 or meth not in JUDGE or not self.is_panic(body):
                fail('odd constraint loop: ' + s[:120])
            return f'match check_all {JUDGE[meth]} plugs {v(pos)} {v(lst)} with Some true => {after()} | _ => IPanic end'
        # position lookup
        m = re.fullmatch(r'if let Some\((\w+)\) = vars\.iter\(\)\.position\(\|&(\w+)\| (\w+) == \*(\w+)\) \{ (.*) \}', s)
        if m and match_close(s, s.index('{')) == len(s) - 1:
            pos, x1, x2, idv, body = m.groups()
            if x1 != x2:
                fail('odd position closure: ' + s[:120])
            inner = self.block(split_stmts(body), after if (more or rest) else None)
            return f'match position {v(idv)} vars with Some {v(pos)} => {inner} | None => {after()} end'
        # if / else
        m = re.fullmatch(r'if (.*?) \{ (.*) \}', s)
        if m:
            i = s.index('{')
            j = match_close(s, i)
            c = s[3:i].strip()
            then = s[i + 1:j].strip()
            tail = s[j + 1:].strip()
            if tail.startswith('else'):
                k = tail.index('{')
                if match_close(tail, k) != len(tail) - 1:
                    fail('else block: ' + tail[:80])
                els = tail[k + 1:-1].strip()
                last = not more
                t1 = self.block(split_stmts(then), (after if not last else rest))
                t2 = self.block(split_stmts(els), (after if not last else rest))
                return f'if {self.cond(c)} then {t1} else {t2}'
            if tail:
                fail('text after if block: ' + tail[:80])
            # no else: an early return, a guard (panic) or re-assignments of option locals
            ts = split_stmts(then)
            mret = re.fullmatch(r'return (.*?);?', ts[0].strip()) if len(ts) == 1 else None
            if mret:
                return f'if {self.cond(c)} then {self.result(mret.group(1))} else {after()}'
            if len(ts) == 1 and self.is_panic(ts[0]):
                return f'if {self.cond(c)} then IPanic else {after()}'
            assigns = []
            for a in ts:
                mm = re.fullmatch(r'(\w+) = Some\((.*)\);?', a.strip())
                if not mm or mm.group(1) not in self.opts:
                    fail('statement in an else-less if is not `opt = Some(..)`: ' + a[:100])
                pre = []
                e = self.expr(mm.group(2), pre)
                if pre:
                    fail('partial expression in a re-assignment: ' + a[:100])
                assigns.append((mm.group(1), e))
            cc = self.cond(c)
            out = after()
            for x, e in reversed(assigns):
                out = f'let {v(x)} := if {cc} then Some {e} else {v(x)} in {out}'
            return out
        # plain let of a pattern
        m = re.fullmatch(r'let (\w+) = (.*)', s)
        if m:
            pre = []
            e = self.expr(m.group(2), pre)
            return self.wrap(pre, f'let {v(m.group(1))} := {e} in {after()}')
        # tail expression
        if not more and rest is None:
            return self.result(s)
        fail('unrecognised statement: ' + s[:140])


def coq_pattern(pat):
    m = re.fullmatch(r'Pattern::(\w+)\((\w+)\)', pat)
    if m and m.group(1) in TUPLE:
        return m.group(1), f'{TUPLE[m.group(1)]} {"_" if m.group(2) == "_" else v(m.group(2))}'
    m = re.fullmatch(r'Pattern::(\w+) \{ ?(.*?) ?\}', pat)
    if m and m.group(1) in FIELDS:
        c, names = FIELDS[m.group(1)]
        given = [x.strip() for x in m.group(2).split(',')]
        rest = '..' in given
        given = [g for g in given if g != '..']
        bind = {}
        for g in given:
            if ':' in g:
                k, val = [x.strip() for x in g.split(':', 1)]
            else:
                k = val = g
            if k not in names or not re.fullmatch(r'\w+', val):
                fail(f'field {g} in pattern {pat}')
            bind[k] = val
        if not rest and sorted(bind) != sorted(names):
            fail(f'pattern {pat} does not name every field')
        return m.group(1), c + ' ' + ' '.join(v(bind[k]) if k in bind else '_' for k in names)
    fail('unrecognised match pattern: ' + pat)


def generate(repo):
    src = open(os.path.join(repo, 'rust/src/lib.rs')).read()
    src = src.split('\n#[cfg(test)]\nmod tests')[0]
    fn = norm(find_fn(src, 'instantiate_internal'))
    m = re.fullmatch(r'fn instantiate_internal\(p: &Rc<Pattern>, vars: &\[Id\], plugs: &\[Rc<Pattern>\]\) -> Option<Rc<Pattern>> \{ match p\.as_ref\(\) \{ (.*) \} \}', fn)
    if not m:
        fail('unexpected signature / body shape of instantiate_internal: ' + fn[:200])
    Tr.src = src
    inplace = norm(find_fn(src, 'instantiate_in_place'))
    mi = re.fullmatch(r'fn instantiate_in_place\(p: &mut Rc<Pattern>, vars: &\[Id\], plugs: &\[Rc<Pattern>\]\) \{ if let Some\((\w+)\) = instantiate_internal\(p, vars, plugs\) '
                      r'\{ \*p = (\w+);? \} \}', inplace)
    if not mi or mi.group(1) != mi.group(2):
        fail('instantiate_in_place is not the expected wrapper: ' + inplace[:160])
    out, seen = [], []
    for pat, text, is_block in split_arms(m.group(1)):
        if ' if ' in pat:
            fail('guarded arm in instantiate_internal: ' + pat)
        name, cp = coq_pattern(pat)
        if name in seen:
            fail('duplicate arm ' + name)
        seen.append(name)
        t = Tr()
        code = t.block(split_stmts(text) if is_block else [text], None)
        out.append(f'  | {cp} => {code}')
    need = ['EVar', 'SVar', 'Symbol', 'MetaVar', 'Implies', 'App', 'Exists', 'Mu', 'ESubst', 'SSubst']
    if sorted(seen) != sorted(need):
        fail('arms found: ' + ','.join(seen))
    lines = ['(** GENERATED by translators/rust_inst.py from rust/src/lib.rs (instantiate_internal, instantiate_in_place; statement level) — do not edit *)',
             'From Coq Require Import NArith List Bool.', 'From Pi2 Require Import ML.Syntax ML.Subst Gen.Judge Gen.SubstFns.', 'Import ListNotations.', 'Open Scope N_scope.', '',
             'Inductive ires := IPanic | IUnchanged | IChanged (q:pat).',
             'Definition ires_val (r:ires) (orig:pat) : pat := match r with IChanged q => q | _ => orig end.',
             '(** a non-panicking result as the Rust [Option] *)',
             'Definition ires_opt (r:ires) : option pat := match r with IChanged q => Some q | _ => None end.',
             'Definition is_none (o:option pat) : bool := match o with None => true | Some _ => false end.',
             'Definition opt_or (o:option pat) (d:pat) : pat := match o with Some q => q | None => d end.',
             '(** [vars.iter().position(|&x| x == id)] *)',
             'Fixpoint position (id:N) (vars:list N) : option nat :=',
             '  match vars with [] => None | v::vs => if N.eqb v id then Some O else option_map S (position id vs) end.',
             '(** [l.into_iter().find(|&v| !plugs[pos].judge(v))] is None: [None] = the index panics (only evaluated for a non-empty list) *)',
             'Definition check_all (judge:pat -> N -> bool) (plugs:list pat) (pos:nat) (l:list N) : option bool :=',
             '  match l with [] => Some true | _ :: _ => match nth_error plugs pos with Some plug => Some (forallb (judge plug) l) | None => None end end.', '',
             'Fixpoint gen_inst_internal (p:pat) (vars:list N) (plugs:list pat) {struct p} : ires :=', '  match p with']
    lines += out
    lines += ['  end.', '',
              '(** instantiate_in_place: [None] = panic *)',
              'Definition gen_instantiate_in_place (p:pat) (vars:list N) (plugs:list pat) : option pat :=',
              '  match gen_inst_internal p vars plugs with IPanic => None | IUnchanged => Some p | IChanged q => Some q end.', '']
    return '\n'.join(lines)


if __name__ == '__main__':
    sys.stdout.write(generate(sys.argv[1] if len(sys.argv) > 1 else '/repo'))

"""Fail-closed translator: `instantiate_internal` / `instantiate_in_place` of rust/src/lib.rs -> coq/Gen/InstFn.v.

The function is written in a handful of fixed idioms; every match arm must be one of the templates below (after whitespace
normalisation). From the MetaVar arm the translator extracts WHICH constraint lists are checked with WHICH judgement; from the other
arms which constructor is rebuilt and which substitution function is applied. Anything else aborts (SystemExit), so a rewritten arm
breaks the proof stage and sends the check to its search stage.
Result type of the generated function: IPanic | IUnchanged (Rust `None`) | IChanged q (Rust `Some(q)`).
"""
import os
import re
import sys


def fail(msg):
    raise SystemExit('rust_inst translator: ' + msg)


def norm(s):
    s = re.sub(r'//[^\n]*', '', s)
    return ' '.join(s.split())


def find_fn(src, name):
    m = re.search(r'\nfn ' + name + r'\(', src)
    if not m:
        fail(f'fn {name} not found')
    start = m.start() + 1
    i = src.index('{', start)
    depth, j = 0, i
    while True:
        if src[j] == '{':
            depth += 1
        elif src[j] == '}':
            depth -= 1
            if depth == 0:
                break
        j += 1
    return src[start:j + 1]


def split_arms(body):
    """body = text between the braces of `match p.as_ref() { ... }`; returns list of arm texts"""
    arms, depth, cur = [], 0, ''
    i = 0
    while i < len(body):
        ch = body[i]
        cur += ch
        if ch in '{(':
            depth += 1
        elif ch in '})':
            depth -= 1
            if depth == 0 and ch == '}' and '=>' in cur:
                # arm with a block body ends at its closing brace (optionally followed by a comma)
                j = i + 1
                while j < len(body) and body[j] == ' ':
                    j += 1
                if j < len(body) and body[j] == ',':
                    i = j
                arms.append(cur.strip())
                cur = ''
        elif ch == ',' and depth == 0 and '=>' in cur:
            arms.append(cur.strip().rstrip(','))
            cur = ''
        i += 1
    if cur.strip():
        arms.append(cur.strip())
    return arms


ATOM = re.compile(r'^Pattern::(EVar|SVar|Symbol)\(_\) => None$')
BIN = re.compile(r'^Pattern::(Implies|App) \{ left, right \} => \{ let mut inst_left = instantiate_internal\(&left, vars, plugs\); '
                 r'let mut inst_right = instantiate_internal\(&right, vars, plugs\); if inst_left\.is_none\(\) && inst_right\.is_none\(\) \{ None \} '
                 r'else \{ if inst_left\.is_none\(\) \{ inst_left = Some\(Rc::clone\(left\)\); \} if inst_right\.is_none\(\) \{ inst_right = Some\(Rc::clone\(right\)\); \} '
                 r'Some\((implies|app)\(inst_left\.unwrap\(\), inst_right\.unwrap\(\)\)\) \} \}$')
BINDER = re.compile(r'^Pattern::(Exists|Mu) \{ var, subpattern \} => \{ let new_sub = instantiate_internal\(&subpattern, vars, plugs\); '
                    r'Some\((exists|mu)\(\*var, new_sub\?\)\) \}$')
SUBST = re.compile(r'^Pattern::(ESubst|SSubst) \{ pattern, (evar_id|svar_id), plug, \} => \{ let mut inst_pattern = instantiate_internal\(pattern, vars, plugs\); '
                   r'let mut inst_plug = instantiate_internal\(plug, vars, plugs\); if inst_pattern\.is_none\(\) && inst_plug\.is_none\(\) \{ None \} '
                   r'else \{ if inst_pattern\.is_none\(\) \{ inst_pattern = Some\(Rc::clone\(pattern\)\); \} if inst_plug\.is_none\(\) \{ inst_plug = Some\(Rc::clone\(plug\)\); \} '
                   r'Some\((apply_esubst|apply_ssubst)\( &inst_pattern\.unwrap\(\), \*(evar_id|svar_id), &inst_plug\.unwrap\(\), \)\) \} \}$')
MV_HEAD = re.compile(r'^Pattern::MetaVar \{ id, e_fresh, s_fresh, positive, negative, \.\. \} => \{ if let Some\(pos\) = vars\.iter\(\)\.position\(\|&x\| x == \*id\) \{ (.*) '
                     r'if pos >= plugs\.len\(\) \{ panic!\("[^"]*"\) \} return Some\(Rc::clone\(&plugs\[pos\]\)\); \} None \}$')
MV_CHECK = re.compile(r'if let Some\((\w+)\) = (\w+) ?\.into_iter\(\) ?\.find\(\|&(\w+)\| !plugs\[pos\]\.(\w+)\(\*(\w+)\)\) \{ panic!\( ?"[^"]*"(?:, \w+)*,? ?\); \}')

JUDGE = {'e_fresh': 'e_fresh', 's_fresh': 's_fresh', 'positive': 'pat_positive', 'negative': 'pat_negative'}
LISTV = {'e_fresh': 'ef', 's_fresh': 'sf', 'positive': 'ps', 'negative': 'ng'}
CT = {'Implies': ('Imp', 'implies'), 'App': ('App', 'app'), 'Exists': ('Ex', 'exists'), 'Mu': ('Mu', 'mu')}


def generate(repo):
    src = open(os.path.join(repo, 'rust/src/lib.rs')).read()
    fn = norm(find_fn(src, 'instantiate_internal'))
    m = re.match(r'^fn instantiate_internal\( p: &Rc<Pattern>, vars: &\[Id\], plugs: &\[Rc<Pattern>\], \) -> Option<Rc<Pattern>> \{ match p\.as_ref\(\) \{ (.*) \} \}$', fn)
    if not m:
        fail('unexpected signature / body shape of instantiate_internal')
    arms = split_arms(m.group(1))
    inplace = norm(find_fn(src, 'instantiate_in_place'))
    if inplace != 'fn instantiate_in_place(p: &mut Rc<Pattern>, vars: &[Id], plugs: &[Rc<Pattern>]) { if let Some(ret) = instantiate_internal(p, vars, plugs) { *p = ret } }':
        fail('instantiate_in_place is not the expected wrapper: ' + inplace[:120])
    out = {}
    for arm in arms:
        a = arm.rstrip(',').strip()
        mm = ATOM.match(a)
        if mm:
            out[mm.group(1)] = '  | %s _ => IUnchanged' % {'EVar': 'EVar', 'SVar': 'SVar', 'Symbol': 'Sym'}[mm.group(1)]
            continue
        mm = BIN.match(a)
        if mm:
            c, b = CT[mm.group(1)]
            if mm.group(2) != b:
                fail(f'{mm.group(1)} arm rebuilds with {mm.group(2)}')
            out[mm.group(1)] = (f'  | {c} l r => match gen_inst_internal l vars plugs, gen_inst_internal r vars plugs with\n'
                                f'      | IPanic, _ | _, IPanic => IPanic\n      | IUnchanged, IUnchanged => IUnchanged\n'
                                f'      | a, b => IChanged ({c} (ires_val a l) (ires_val b r)) end')
            continue
        mm = BINDER.match(a)
        if mm:
            c, b = CT[mm.group(1)]
            if mm.group(2) != b:
                fail(f'{mm.group(1)} arm rebuilds with {mm.group(2)}')
            out[mm.group(1)] = (f'  | {c} x q => match gen_inst_internal q vars plugs with\n'
                                f'      | IPanic => IPanic | IUnchanged => IUnchanged | IChanged q\' => IChanged ({c} x q\') end')
            continue
        mm = SUBST.match(a)
        if mm:
            kind, v1, fnname, v2 = mm.groups()
            want = ('evar_id', 'apply_esubst') if kind == 'ESubst' else ('svar_id', 'apply_ssubst')
            if (v1, fnname) != want or v2 != v1:
                fail(f'{kind} arm uses {fnname} / {v1} / {v2}')
            c = 'ESub' if kind == 'ESubst' else 'SSub'
            out[kind] = (f'  | {c} q x plug => match gen_inst_internal q vars plugs, gen_inst_internal plug vars plugs with\n'
                         f'      | IPanic, _ | _, IPanic => IPanic\n      | IUnchanged, IUnchanged => IUnchanged\n'
                         f'      | a, b => match {fnname} guards_sound (ires_val a q) x (ires_val b plug) with Some c => IChanged c | None => IPanic end end')
            continue
        mm = MV_HEAD.match(a)
        if mm:
            checks_txt = mm.group(1).strip()
            checks = []
            pos = 0
            while pos < len(checks_txt):
                cm = MV_CHECK.match(checks_txt, pos)
                if not cm:
                    fail('MetaVar arm: unexpected constraint check near ' + checks_txt[pos:pos + 80])
                v1, lst, v2, meth, v3 = cm.groups()
                if not (v1 == v2 == v3) or lst not in LISTV or meth not in JUDGE:
                    fail(f'MetaVar arm: odd constraint check {cm.group(0)[:80]}')
                checks.append((lst, meth))
                pos = cm.end()
                while pos < len(checks_txt) and checks_txt[pos] == ' ':
                    pos += 1
            body = 'IChanged plug'
            for lst, meth in reversed(checks):
                body = f'if forallb ({JUDGE[meth]} plug) {LISTV[lst]} then {body} else IPanic'
            out['MetaVar'] = ('  | MVar id ef sf ps ng _ => match position id vars with\n'
                              '      | Some k => match nth_error plugs k with Some plug => ' + body + ' | None => IPanic end\n'
                              '      | None => IUnchanged end')
            continue
        fail('unrecognised match arm: ' + a[:160])
    need = ['EVar', 'SVar', 'Symbol', 'MetaVar', 'Implies', 'App', 'Exists', 'Mu', 'ESubst', 'SSubst']
    for n in need:
        if n not in out:
            fail(f'no arm for {n}')
    lines = ['(** GENERATED by translators/rust_inst.py from rust/src/lib.rs (instantiate_internal, instantiate_in_place) — do not edit *)',
             'From Coq Require Import NArith List Bool.', 'From Pi2 Require Import ML.Syntax ML.Subst.', 'Import ListNotations.', 'Open Scope N_scope.', '',
             'Inductive ires := IPanic | IUnchanged | IChanged (q:pat).',
             'Definition ires_val (r:ires) (orig:pat) : pat := match r with IChanged q => q | _ => orig end.',
             'Fixpoint position (id:N) (vars:list N) : option nat :=',
             '  match vars with [] => None | v::vs => if N.eqb v id then Some O else option_map S (position id vs) end.', '',
             'Fixpoint gen_inst_internal (p:pat) (vars:list N) (plugs:list pat) {struct p} : ires :=', '  match p with']
    lines += [out[n] for n in need]
    lines += ['  end.', '',
              '(** instantiate_in_place: [None] = panic *)',
              'Definition gen_instantiate_in_place (p:pat) (vars:list N) (plugs:list pat) : option pat :=',
              '  match gen_inst_internal p vars plugs with IPanic => None | IUnchanged => Some p | IChanged q => Some q end.', '']
    return '\n'.join(lines)


if __name__ == '__main__':
    sys.stdout.write(generate(sys.argv[1] if len(sys.argv) > 1 else '/repo'))

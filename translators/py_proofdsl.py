"""Fail-closed statement-level translator (Python `ast`): the proof DSL and the interpreter stack
-> coq/Gen/PyProofDSL.v.

Translated (statement by statement, expression by expression; nothing is a whole-function template):
  basic_interpreter.py         every method of BasicInterpreter            -> gen_basic_<m>, gen_basic : basic_fns
  interpreter.py               Interpreter.pattern (the `match`)           -> obj_pattern_rec / obj_pattern
  interpreter_transformer.py   every delegating method                     -> gen_transformer_ops
  optimizing_interpreters.py   InstantiationOptimizer.instantiate          -> gen_instopt_instantiate, gen_instopt_ops
                               MemoizingInterpreter.pattern                -> gen_memo_pattern
                               (+ the class headers: which class is a StatefulInterpreter)
  proof.py                     ProofThunk.__call__                         -> gen_thunk_call
                               ProofExp.prop1/2/3, exists_quantifier, modus_ponens, exists_generalization,
                               dynamic_inst, instantiate, load_axiom, publish_proof   -> gen_dsl_<m> : .. -> option thunk
                               execute_gamma_phase / claims_phase / proofs_phase / execute_full -> gen_execute_*
  pattern.py                   the constants phi0 phi1 phi2 and the body of the notation `bot`
Reading conventions are those of coq/PTerm/PyRt.v (monad M = calls received by the innermost interpreter, in order; Python
evaluates statements top to bottom and call arguments left to right; `raise`/failed `assert` = None).  Locals are prefixed
`v_`, so renaming a local or reflowing the source changes nothing but bound-variable names; a reordered call, a dropped
assert, another comparison operand, a different constant or a call sent to another method changes the generated term.
Two sound peepholes keep delegations definitional: `x = E; return x` is `E`, and a body ending in a unit call returns it.
Not translatable on purpose (notation-expanded model): `case Instantiate(...)` of Interpreter.pattern, `instantiate_pattern`.
Anything outside the recognised forms raises SystemExit naming the node.
"""
import ast
import os

HERE = 'py_proofdsl translator'


def fail(where, node, why):
    src = ast.unparse(node) if isinstance(node, ast.AST) else str(node)
    raise SystemExit(f'{HERE}: {where}: line {getattr(node, "lineno", "?")}: {why}: `{src[:200]}`')


# abstract methods: name -> (argument kinds, result kind).  'str' arguments (ids of pop/save/load) are dropped.
OPS = {
    'evar': (['N'], 'pat'), 'svar': (['N'], 'pat'), 'symbol': (['N'], 'pat'),
    'metavar': (['N', 'nlist', 'nlist', 'nlist', 'nlist', 'nlist'], 'pat'),
    'implies': (['pat', 'pat'], 'pat'), 'app': (['pat', 'pat'], 'pat'), 'exists': (['N', 'pat'], 'pat'),
    'esubst': (['N', 'pat', 'pat'], 'pat'), 'ssubst': (['N', 'pat', 'pat'], 'pat'), 'mu': (['N', 'pat'], 'pat'),
    'prop1': ([], 'proved'), 'prop2': ([], 'proved'), 'prop3': ([], 'proved'),
    'modus_ponens': (['proved', 'proved'], 'proved'), 'exists_quantifier': ([], 'proved'),
    'exists_generalization': (['proved', 'evarparam'], 'proved'), 'instantiate': (['proved', 'delta'], 'proved'),
    'pop': (['term'], 'unit'), 'save': (['str', 'term'], 'unit'), 'load': (['str', 'term'], 'unit'),
    'publish_proof': (['proved'], 'unit'), 'publish_axiom': (['pat'], 'unit'), 'publish_claim': (['pat'], 'unit'),
}
OPS_ORDER = ['evar', 'svar', 'symbol', 'metavar', 'implies', 'app', 'exists', 'esubst', 'ssubst', 'mu', 'prop1', 'prop2',
             'prop3', 'modus_ponens', 'exists_quantifier', 'exists_generalization', 'instantiate', 'pop', 'save', 'load',
             'publish_proof', 'publish_axiom', 'publish_claim']
SKIPPED_METHODS = {'instantiate_pattern'}            # notation only
ANNOT = {'Pattern': 'pat', 'Proved': 'proved', 'EVar': 'evarparam', 'int': 'N', 'str': 'N', 'ProofThunk': 'thunk',
         'Interpreter': 'interp', 'dict[int, Pattern]': 'delta', 'tuple[EVar, ...]': 'nlist', 'tuple[SVar, ...]': 'nlist',
         'MetaVar | ESubst | SSubst': 'pat', 'Pattern | Proved': 'term', 'bool': 'bool',
         'Mapping[int, Pattern]': 'delta'}
PHASES = {'Gamma': 'Gamma', 'Claim': 'Claim', 'Proof': 'Proof'}
CTORS = {'Implies': ('Imp', ['pat', 'pat']), 'App': ('App', ['pat', 'pat']), 'EVar': ('EVar', ['N']), 'SVar': ('SVar', ['N']),
         'Symbol': ('Sym', ['N']), 'Exists': ('Ex', ['N', 'pat']), 'Mu': ('Mu', ['N', 'pat'])}
MATCH_CTORS = {'EVar': ('EVar', ['N']), 'SVar': ('SVar', ['N']), 'Symbol': ('Sym', ['N']), 'Implies': ('Imp', ['pat', 'pat']),
               'App': ('App', ['pat', 'pat']), 'Exists': ('Ex', ['N', 'pat']), 'Mu': ('Mu', ['N', 'pat']),
               'MetaVar': ('MVar', ['N', 'nlist', 'nlist', 'nlist', 'nlist', 'nlist']),
               'ESubst': ('ESub', ['pat', 'evarparam', 'pat']), 'SSubst': ('SSub', ['pat', 'evarparam', 'pat'])}


def v(name):
    return 'v_' + name


RESOLVER = None


class Resolver:
    """module-level pattern constants (NAME = <pattern expr>, NAME: T = <pattern expr>) and nullary notations, looked up
    in the module where they are used or followed through `from proof_generation.X import NAME`; the VALUE is inlined"""

    def __init__(self, repo, base_consts):
        self.repo, self.base, self.mods, self.busy = repo, base_consts, {}, set()

    def mod(self, rel):
        if rel not in self.mods:
            self.mods[rel] = parse(self.repo, rel)
        return self.mods[rel]

    def find(self, rel, name, depth=0):
        """-> (rel, value node) of the definition of `name` visible in module rel"""
        if depth > 6:
            return None
        found = None
        for n in self.mod(rel).body:
            tgt = val = None
            if isinstance(n, ast.Assign) and len(n.targets) == 1 and isinstance(n.targets[0], ast.Name):
                tgt, val = n.targets[0].id, n.value
            elif isinstance(n, ast.AnnAssign) and isinstance(n.target, ast.Name) and n.value is not None:
                tgt, val = n.target.id, n.value
            if tgt == name:
                if found is not None:
                    raise SystemExit(f'{HERE}: {rel}: module constant {name} is assigned twice')
                found = (rel, val)
            if isinstance(n, ast.ImportFrom) and n.module and n.module.startswith('proof_generation.') and n.level == 0:
                for a in n.names:
                    if (a.asname or a.name) == name:
                        sub = n.module[len('proof_generation.'):].replace('.', '/') + '.py'
                        return self.find(sub, a.name, depth + 1)
        return found

    def imports(self, rel, name):
        """(module, original name) that `name` is imported from in module rel, or None"""
        for n in ast.walk(self.mod(rel)):
            if isinstance(n, ast.ImportFrom) and n.level == 0:
                for a in n.names:
                    if (a.asname or a.name) == name:
                        return (n.module, a.name)
        return None

    def dataclass_fields(self, rel, cname):
        for n in self.mod(rel).body:
            if isinstance(n, ast.ClassDef) and n.name == cname:
                return [st.target.id for st in n.body if isinstance(st, ast.AnnAssign) and isinstance(st.target, ast.Name)]
        return None

    def method_params(self, rel, cname, meth):
        for n in self.mod(rel).body:
            if isinstance(n, ast.ClassDef) and n.name == cname:
                for st in n.body:
                    if isinstance(st, ast.FunctionDef) and st.name == meth:
                        return [a.arg for a in st.args.args[1:]]
        return None

    def constant(self, rel, name):
        d = self.find(rel, name)
        if d is None:
            return None
        drel, val = d
        if drel == 'pattern.py' and name in ('phi0', 'phi1', 'phi2'):
            return self.base[name]
        key = (drel, name)
        if key in self.busy:
            raise SystemExit(f'{HERE}: {drel}: module constant {name} is defined in terms of itself')
        self.busy.add(key)
        try:
            cx = Ctx(f'{drel}:{name}', 'pure', {}, self.base)
            cx.modrel = drel
            c, kind = pexpr0(cx, val)
        finally:
            self.busy.discard(key)
        if kind != 'pat':
            fail(f'{drel}:{name}', val, 'module constant is not a pattern')
        return c

    def nullary_notation(self, rel, name):
        d = self.find(rel, name)
        if d is None:
            return None
        drel, c = d
        if (isinstance(c, ast.Call) and isinstance(c.func, ast.Name) and c.func.id == 'Notation' and len(c.args) == 4
                and isinstance(c.args[1], ast.Constant) and c.args[1].value == 0):
            if drel == 'pattern.py' and name == 'bot':
                return self.base['bot()']
            cx = Ctx(f'{drel}:{name}', 'pure', {}, self.base)
            cx.modrel = drel
            return pexpr(cx, c.args[2], 'pat')[0]
        return None


class Ctx:
    """where: for messages; mode: 'pure' | 'opt' | 'M'; env: python name -> (kind, coq)"""

    def __init__(self, where, mode, env, consts, self_kind=None, dsl=None):
        self.where, self.mode, self.env, self.consts = where, mode, dict(env), consts
        self.self_kind = self_kind      # 'basic' | 'dsl' | 'interp' | 'transformer' | 'memo'
        self.dsl = dsl or {}
        self.closures = {}
        self.modrel = None
        self.helpers = {}
        self.clsname = None

    def child(self, mode=None):
        c = Ctx(self.where, mode or self.mode, self.env, self.consts, self.self_kind, self.dsl)
        c.closures = dict(self.closures)
        c.modrel, c.helpers, c.clsname = self.modrel, self.helpers, self.clsname
        return c


def type_set(node):
    """`A`, `A | B | C`, `(A, B, C)` -> the set of class names (isinstance treats them alike)"""
    if isinstance(node, ast.Name):
        return {node.id}
    if isinstance(node, ast.BinOp) and isinstance(node.op, ast.BitOr):
        a, b = type_set(node.left), type_set(node.right)
        return None if a is None or b is None else a | b
    if isinstance(node, ast.Tuple):
        out = set()
        for e in node.elts:
            x = type_set(e)
            if x is None:
                return None
            out |= x
        return out
    return None


def attr_chain(node):
    parts = []
    while isinstance(node, ast.Attribute):
        parts.append(node.attr)
        node = node.value
    if isinstance(node, ast.Name):
        parts.append(node.id)
        return list(reversed(parts))
    if isinstance(node, ast.Call) and isinstance(node.func, ast.Name) and node.func.id == 'super' and not node.args:
        parts.append('super()')
        return list(reversed(parts))
    return None


# ------------------------------------------------------------------------------------------------
# pure expressions
# ------------------------------------------------------------------------------------------------

def coerce(cx, coq, kind, want, node):
    if kind == want or want is None:
        return coq
    if want == 'pat' and kind == 'proved':
        fail(cx.where, node, 'a Proved used where a Pattern is expected')
    if want == 'proved' and kind == 'pat':
        fail(cx.where, node, 'a Pattern used where a Proved is expected')
    if want == 'term' and kind == 'pat':
        return f'(TPat {coq})'
    if want == 'term' and kind == 'proved':
        return f'(TProved {coq})'
    if want == 'N' and kind == 'evarparam':
        fail(cx.where, node, 'an EVar object used where an id is expected')
    fail(cx.where, node, f'kind {kind} where {want} is expected')


def pexpr(cx, node, want=None):
    coq, kind = pexpr0(cx, node)
    return coerce(cx, coq, kind, want, node), (want or kind)


def callee_params(cx, node):
    """parameter names of the callee of a Call, from ITS definition in the current source (None if unknown)"""
    f = node.func
    ch = attr_chain(f)
    if isinstance(f, ast.Name):
        if f.id == 'ProofThunk':
            return ['expr', 'conc']
        if f.id == 'Proved':
            return ['conclusion']
        if RESOLVER is not None:
            fields = RESOLVER.dataclass_fields('pattern.py', f.id)
            if fields:
                return fields
        return None
    if isinstance(f, ast.Call):
        return None
    hp = helper_of(cx, ch)
    if hp is not None:
        return hp[1]
    meth = f.attr if isinstance(f, ast.Attribute) else None
    if meth in OPS and RESOLVER is not None:
        return RESOLVER.method_params('interpreter.py', 'Interpreter', meth)
    if meth and meth.startswith('execute_') and RESOLVER is not None:
        return RESOLVER.method_params('proof.py', 'ProofExp', meth)
    if meth in ('pattern',):
        return ['p']
    if meth in ('instantiate',):
        return ['delta']
    if meth in ('evar_is_free',):
        return ['name']
    return None


def positional(cx, node):
    """a call with keyword arguments is the call with the values bound positionally to the callee's parameters"""
    if not isinstance(node, ast.Call) or not node.keywords:
        return node
    names = callee_params(cx, node)
    if names is None or any(k.arg is None for k in node.keywords):
        fail(cx.where, node, 'keyword arguments of a callee whose parameters are unknown')
    args = list(node.args)
    kw = {k.arg: k.value for k in node.keywords}
    for nm in names[len(args):]:
        if nm in kw:
            args.append(kw.pop(nm))
        else:
            break
    if kw:
        fail(cx.where, node, f'keyword argument(s) {sorted(kw)} do not continue the positional arguments')
    return ast.copy_location(ast.Call(func=node.func, args=args, keywords=[]), node)


def pexpr0(cx, node):
    w = cx.where
    node = positional(cx, node)
    if isinstance(node, ast.Constant):
        if isinstance(node.value, bool):
            return ('true' if node.value else 'false'), 'bool'
        if isinstance(node.value, int) and 0 <= node.value < 4096:
            return str(node.value), 'N'
        fail(w, node, 'constant outside the subset')
    if isinstance(node, ast.Name):
        if node.id in cx.env:
            k, c = cx.env[node.id]
            return c, k
        if node.id in cx.consts:
            return cx.consts[node.id], 'pat'
        r = RESOLVER.constant(cx.modrel, node.id) if RESOLVER is not None and cx.modrel else None
        if r is not None:
            return r, 'pat'
        fail(w, node, 'unknown name')
    if isinstance(node, ast.Attribute):
        ch = attr_chain(node)
        if ch == ['self', '_axioms']:
            return 'axs', 'patlist'
        if ch == ['self', '_claims']:
            return 'cls', 'patlist'
        if ch == ['self', '_proof_expressions']:
            return 'prs', 'thunklist'
        if ch == ['self', '_submodules']:
            return 'subs', 'sublist'
        if ch in (['self', 'phase'], ['interpreter', 'phase']):
            return '', 'phase'
        base, kind = pexpr0(cx, node.value)
        if node.attr == 'conclusion' and kind == 'proved':
            return base, 'pat'
        if node.attr == 'conc' and kind == 'thunk':
            return f'(th_conc {base})', 'pat'
        if node.attr == 'name' and kind == 'evarparam':
            return base, 'N'
        if node.attr == 'name' and kind == 'pat':
            return f'(evar_name {base})', 'N'
        fail(w, node, f'attribute .{node.attr} of a {kind}')
    if isinstance(node, ast.UnaryOp) and isinstance(node.op, ast.Not):
        c, k = pexpr0(cx, node.operand)
        if k == 'delta':
            return f'(is_nil {c})', 'bool'
        if k == 'bool':
            return f'(negb {c})', 'bool'
        fail(w, node, f'`not` of a {k}')
    if isinstance(node, ast.BoolOp):
        vals = [pexpr0(cx, x) for x in node.values]
        if not {k for _, k in vals} <= {'bool', 'memtest'}:
            fail(w, node, 'boolean operator over non-booleans')
        op = ' && ' if isinstance(node.op, ast.And) else ' || '
        return '(' + op.join(c for c, _ in vals) + ')', ('memtest' if any(k == 'memtest' for _, k in vals) else 'bool')
    if isinstance(node, ast.Compare) and len(node.ops) == 1 and isinstance(node.ops[0], ast.NotIn):
        pos = ast.copy_location(ast.Compare(left=node.left, ops=[ast.In()], comparators=node.comparators), node)
        c, k = pexpr0(cx, pos)
        return f'(negb {c})', k                          # `a not in b`  is  `not (a in b)`
    if isinstance(node, ast.Compare) and len(node.ops) == 1:
        a, ka = pexpr0(cx, node.left)
        op = node.ops[0]
        rn = node.comparators[0]
        if isinstance(op, ast.Eq):
            ch = attr_chain(rn)
            if ka == 'phase' and ch and ch[0] == 'ExecutionPhase' and ch[1] in PHASES:
                return f'(phase_is {PHASES[ch[1]]})', 'phasetest'
            b, kb = pexpr0(cx, rn)
            if {ka, kb} <= {'pat'}:
                return f'(pat_eqb {a} {b})', 'bool'
            if ka == kb == 'proved':
                return f'(pat_eqb {a} {b})', 'bool'
            fail(w, node, f'== between {ka} and {kb}')
        if isinstance(op, ast.In):
            ch = attr_chain(rn)
            if ch == ['self', 'sub_interpreter', 'memory']:
                t = coerce(cx, a, ka, 'term', node.left)
                return f'(tmem {t} rt_mem)', 'memtest'
            if ch == ['self', '_patterns_for_memoization'] and ka == 'pat':
                return f'(inS {a})', 'bool'
            b, kb = pexpr0(cx, rn)
            if ka == 'pat' and kb == 'patlist':
                return f'(pmem {a} {b})', 'bool'
            fail(w, node, f'`in` between {ka} and {kb}')
        fail(w, node, 'comparison outside the subset')
    if isinstance(node, ast.Call):
        f = node.func
        if node.keywords:
            fail(w, node, 'keyword arguments')
        ch = attr_chain(f)
        if isinstance(f, ast.Name):
            if f.id in CTORS:
                c, kinds = CTORS[f.id]
                if len(node.args) != len(kinds):
                    fail(w, node, 'constructor arity')
                args = [pexpr(cx, a, k)[0] for a, k in zip(node.args, kinds)]
                return '(' + ' '.join([c] + args) + ')', 'pat'
            if f.id == 'MetaVar':
                if len(node.args) == 1:
                    return f'(MVar {pexpr(cx, node.args[0], "N")[0]} [] [] [] [] [])', 'pat'
                if len(node.args) == 6:
                    ks = ['N', 'nlist', 'nlist', 'nlist', 'nlist', 'nlist']
                    return '(MVar ' + ' '.join(pexpr(cx, a, k)[0] for a, k in zip(node.args, ks)) + ')', 'pat'
                fail(w, node, 'MetaVar arity')
            if f.id in ('ESubst', 'SSubst') and len(node.args) == 3:
                p = pexpr(cx, node.args[0], 'pat')[0]
                var, kv = pexpr0(cx, node.args[1])
                q = pexpr(cx, node.args[2], 'pat')[0]
                proj = 'evar_name' if f.id == 'ESubst' else 'svar_name'
                var = var if kv == 'evarparam' else f'({proj} {var})' if kv == 'pat' else fail(w, node, 'substituted variable')
                return f'({"ESub" if f.id == "ESubst" else "SSub"} {p} {var} {q})', 'pat'
            if f.id == 'Proved' and len(node.args) == 1:
                return pexpr(cx, node.args[0], 'pat')[0], 'proved'
            if f.id == 'BasicInterpreter' and len(node.args) == 1:
                return '', 'basicobj'                     # a fresh conclusion-only interpreter
            if f.id == 'bot' and not node.args:
                return cx.consts['bot()'], 'pat'
            if not node.args and RESOLVER is not None and cx.modrel:
                r = RESOLVER.nullary_notation(cx.modrel, f.id)
                if r is not None:
                    return r, 'pat'
            if f.id == 'len' and len(node.args) == 1:
                c, k = pexpr0(cx, node.args[0])
                if k == 'delta':
                    return f'(negb (is_nil {c}))', 'bool'      # only ever used as a truth value
                fail(w, node, 'len of a non-dict')
            if f.id == 'reversed' and len(node.args) == 1:
                c, k = pexpr0(cx, node.args[0])
                if k in ('patlist', 'thunklist'):
                    return f'(rev {c})', k
                fail(w, node, 'reversed of a non-list')
            if f.id == 'isinstance' and len(node.args) == 2:
                ch0 = attr_chain(node.args[0])
                ty = type_set(node.args[1])
                if ty is None:
                    fail(w, node, 'isinstance type expression outside the subset')
                if ch0 == ['self', 'sub_interpreter'] and ty == {'StatefulInterpreter'}:
                    return 'sub_stateful', 'bool'
                c, k = pexpr0(cx, node.args[0])
                if k == 'evarparam' and ty in ({'EVar'}, {'SVar'}):
                    return 'true', 'bool'
                if k == 'pat' and ty == {'MetaVar', 'ESubst', 'SSubst'}:
                    return f'(is_meta_head {c})', 'bool'
                fail(w, node, 'isinstance outside the subset')
        hp = helper_of(cx, ch)
        if hp is not None:
            fnh, pn = hp
            hb = body_of(fnh)
            if len(hb) == 1 and isinstance(hb[0], ast.Return) and hb[0].value is not None and len(pn) == len(node.args):
                h = cx.child()
                for q, an in zip(pn, node.args):
                    c0, k0 = pexpr0(cx, an)
                    h.env[q] = (k0, c0)
                return pexpr0(h, hb[0].value)
            fail(w, node, 'helper call in an expression: the helper is not a single `return <expr>`')
        if ch and len(ch) >= 2:
            meth = ch[-1]
            if ch[:-1] == ['Implies'] and meth == 'extract':
                fail(w, node, 'Implies.extract outside a tuple assignment')
            recv, kr = pexpr0(cx, f.value)
            if meth == 'instantiate' and kr == 'pat' and len(node.args) == 1:
                d = pexpr(cx, node.args[0], 'delta')[0]
                return f'(py_inst {d} {recv})', 'pat'
            if meth == 'evar_is_free' and kr == 'pat' and len(node.args) == 1:
                return f'(e_fresh {recv} {pexpr(cx, node.args[0], "N")[0]})', 'bool'
        fail(w, node, 'call outside the pure subset')
    fail(w, node, 'expression outside the subset')


# ------------------------------------------------------------------------------------------------
# effectful expressions (mode M), continuation-passing
# ------------------------------------------------------------------------------------------------

class Fresh:
    n = 0

    @classmethod
    def get(cls):
        cls.n += 1
        return f'a{cls.n}'


def helper_of(cx, ch):
    """self._h / cls._h / ClassName._h -> (FunctionDef, its value parameters)"""
    if not ch or len(ch) != 2 or ch[1] not in cx.helpers:
        return None
    if ch[0] not in ('self', 'cls') and ch[0] != getattr(cx, 'clsname', None):
        return None
    fn = cx.helpers[ch[1]]
    static = any(isinstance(d, ast.Name) and d.id == 'staticmethod' for d in fn.decorator_list)
    a = fn.args
    if a.vararg or a.kwarg or a.kwonlyargs or a.posonlyargs or a.defaults:
        fail(cx.where, fn, 'helper parameter kinds outside the subset')
    return fn, [x.arg for x in (a.args if static else a.args[1:])]


def recv_kind(cx, f):
    """kind (and Coq term) of the receiver of a method call, when it is an expression of the pure subset"""
    if not isinstance(f, ast.Attribute):
        return None, None
    try:
        c, k = pexpr0(cx, f.value)
        return k, c
    except SystemExit:
        return None, None


def is_effectful(cx, node):
    if not isinstance(node, ast.Call):
        return False
    node = positional(cx, node)
    f = node.func
    ch = attr_chain(f)
    if isinstance(f, ast.Name) and f.id in cx.env and cx.env[f.id][0] == 'thunk':
        return True
    if isinstance(f, ast.Call):
        return True
    if ch == ['self', '_expr'] and cx.self_kind == 'thunkcall':
        return True
    rk, _ = recv_kind(cx, f)
    if rk in ('interp', 'basicobj', 'submod'):
        return True
    if ch and len(ch) == 2 and ch[0] == 'self' and cx.self_kind == 'dsl' and ch[1] in cx.dsl and cx.mode == 'M':
        return True
    if ch:
        head = ch[:-1]
        if head in (['self'], ['self', 'sub_interpreter'], ['super()']) and cx.self_kind in ('interp', 'transformer', 'memo', 'instopt'):
            return ch[-1] in OPS or ch[-1] == 'pattern'
        if head == ['self'] and cx.self_kind == 'dsl' and ch[-1].startswith('execute_'):
            return True
    return False


def bindM(m, var, body):
    """bind with the two peepholes: `x <- m; ret x` is m"""
    if body == f'ret {var}':
        return m
    return f'bind {m} (fun {var} => {body})'


def bindM_k(m, k):
    x = Fresh.get()
    return bindM(m, x, k(x, 'proved'))


def mcall(cx, node, k):
    """translate an effectful call; k(coq_value, kind) gives the rest"""
    w = cx.where
    node = positional(cx, node)
    f = node.func
    ch = attr_chain(f)

    def with_args(nodes, kinds, fin):
        def go(i, acc):
            if i == len(nodes):
                return fin(acc)
            if kinds[i] == 'str':
                return go(i + 1, acc)
            return mexpr(cx, nodes[i], kinds[i], lambda c, _k: go(i + 1, acc + [c]))
        return go(0, [])

    def finish(m, rkind):
        x = Fresh.get()
        body = k(x, rkind)
        if rkind == 'unit' and body is None:
            return m
        return bindM(m, x, body)

    # thunk call  pf(interpreter)
    if isinstance(f, ast.Name) and f.id in cx.env and cx.env[f.id][0] == 'thunk':
        if len(node.args) != 1:
            fail(w, node, 'thunk call arity')
        it = pexpr(cx, node.args[0], 'interp')[0]
        return finish(f'(gen_thunk_call {cx.env[f.id][1]} {it})', 'proved')
    # self.<dsl rule>(args)(interpreter)
    if isinstance(f, ast.Call):
        ch2 = attr_chain(f.func)
        if ch2 and ch2[0] == 'self' and len(ch2) == 2 and ch2[1] in cx.dsl and len(node.args) == 1:
            it = pexpr(cx, node.args[0], 'interp')[0]
            return mcall(cx, f, lambda th, _k: bindM_k(f'(gen_thunk_call {th} {it})', k))
        fail(w, node, 'call of a call outside the subset')
    if not ch:
        if isinstance(f, ast.Attribute) and recv_kind(cx, f)[0] in ('interp', 'basicobj', 'submod'):
            ch = ['<expr>', f.attr]
        else:
            fail(w, node, 'call target')
    head, meth = ch[:-1], ch[-1]
    if ch == ['self', '_expr'] and cx.self_kind == 'thunkcall' and len(node.args) == 1:
        it = pexpr(cx, node.args[0], 'interp')[0]
        return finish(f'(th_expr th {it})', 'proved')
    rk, rc = recv_kind(cx, f)
    # self.<dsl rule>(args) as a value: the rule constructor may raise
    if len(ch) == 2 and ch[0] == 'self' and cx.self_kind == 'dsl' and meth in cx.dsl:
        pk = cx.dsl[meth]
        args = [pexpr(cx, a, kk)[0] for a, kk in zip(node.args, pk['kinds'])]
        pre = ' '.join(['gen_dsl_' + meth] + (['axs'] if pk['axs'] else []) + args)
        return finish(f'(lift_opt ({pre}))', 'thunk')
    # interpreter.<op>(..) / interpreter.pattern(p) / interpreter.into_*_phase()
    if rk == 'interp':
        it = rc
        if meth == 'pattern' and len(node.args) == 1:
            return with_args(node.args, ['pat'], lambda a: finish(f'(obj_pattern {it} {a[0]})', 'pat'))
        if meth in ('into_claim_phase', 'into_proof_phase') and not node.args:
            return finish(meth, 'unit')
        if meth in OPS:
            kinds, rk = OPS[meth]
            if len(node.args) != len(kinds):
                fail(w, node, 'interpreter method arity')
            return with_args(node.args, kinds, lambda a: finish('(' + ' '.join([f'o_{meth} (o_ops {it})'] + a) + ')', rk))
        fail(w, node, 'interpreter method outside the subset')
    # b_interp.instantiate(..) on a fresh BasicInterpreter
    if rk == 'basicobj':
        if meth == 'instantiate' and len(node.args) == 2:
            return with_args(node.args, ['proved', 'delta'],
                             lambda a: finish(f'(lift_opt (gen_basic_instantiate {a[0]} {a[1]}))', 'proved'))
        fail(w, node, 'BasicInterpreter method outside the subset')
    # submodule.execute_gamma_phase(interpreter, False)
    if rk == 'submod':
        if meth == 'execute_gamma_phase' and len(node.args) == 2:
            it = pexpr(cx, node.args[0], 'interp')[0]
            b = pexpr(cx, node.args[1], 'bool')[0]
            return finish(f'({rc} {it} {b})', 'unit')
        fail(w, node, 'submodule method outside the subset')
    # inside interpreter classes
    if cx.self_kind in ('interp', 'transformer', 'memo', 'instopt'):
        target = {('self',): 'self_ops', ('self', 'sub_interpreter'): 'sub'}.get(tuple(head))
        if head == ['self'] and meth == 'pattern' and cx.self_kind == 'interp' and len(node.args) == 1:
            return with_args(node.args, ['pat'], lambda a: finish(f'(obj_pattern_rec ovr self_ops {a[0]})', 'pat'))
        if head == ['super()'] and meth == 'pattern' and cx.self_kind == 'memo' and len(node.args) == 1:
            a, ka = pexpr0(cx, node.args[0])
            if (ka, a) != cx.env.get('p', (None, None)):
                fail(w, node, 'super().pattern must be applied to the parameter p')
            return finish('super_pattern', 'pat')
        if target and meth in OPS:
            kinds, rk = OPS[meth]
            if len(node.args) != len(kinds):
                fail(w, node, 'interpreter method arity')
            return with_args(node.args, kinds, lambda a: finish('(' + ' '.join([f'o_{meth} {target}'] + a) + ')', rk))
    # self.execute_*_phase(interpreter[, flag]) inside ProofExp
    if head == ['self'] and cx.self_kind == 'dsl' and meth in ('execute_gamma_phase', 'execute_claims_phase', 'execute_proofs_phase'):
        it = pexpr(cx, node.args[0], 'interp')[0]
        extra = [pexpr(cx, a, 'bool')[0] for a in node.args[1:]]
        npar = {'execute_gamma_phase': 1, 'execute_claims_phase': 1, 'execute_proofs_phase': 0}[meth]
        extra += ['true'] * (npar - len(extra))           # the default value of move_into_* is True (checked at the def)
        return finish('(' + ' '.join([f'gen_{meth} subs axs cls prs {it}'] + extra) + ')', 'unit')
    fail(w, node, 'effectful call outside the subset')


def mexpr(cx, node, want, k):
    if is_effectful(cx, node):
        return mcall(cx, node, lambda c, kind: k(coerce(cx, c, kind, want, node), want or kind))
    c, kind = pexpr(cx, node, want)
    return k(c, kind)


# ------------------------------------------------------------------------------------------------
# statements
# ------------------------------------------------------------------------------------------------

def RET(cx, c):
    return {'pure': c, 'opt': f'Some {c}', 'M': f'ret {c}'}[cx.mode]


def FAIL(cx):
    if cx.mode == 'pure':
        return None
    return {'opt': 'None', 'M': 'fail'}[cx.mode]


def is_print_only(fn):
    for n in ast.walk(fn):
        if isinstance(n, ast.Call) and not (isinstance(n.func, ast.Name) and n.func.id == 'print'):
            return False
        if isinstance(n, (ast.Assign, ast.AugAssign, ast.Raise, ast.Assert)):
            return False
        if isinstance(n, ast.Return) and n.value is not None:
            return False
    return True


def block(cx, stmts, fallthrough):
    """translate a statement list; fallthrough = Coq term for falling off the end (None = not allowed)"""
    w = cx.where
    if not stmts:
        if fallthrough is None:
            fail(w, w, 'control falls off the end of a value-returning block')
        return fallthrough
    s, rest = stmts[0], stmts[1:]

    def tail():
        return block(cx, rest, fallthrough)

    if isinstance(s, ast.Expr) and isinstance(s.value, ast.Constant) and (isinstance(s.value.value, str) or s.value.value is Ellipsis):
        return tail()                                                 # docstring / `...`
    if isinstance(s, ast.Pass) and s is getattr(cx, '_marker', None):
        fin = cx._finish
        cx._finish = cx._marker = None
        return fin()
    if isinstance(s, ast.Pass):
        return tail()                                                 # `pass` = `...` = nothing
    if isinstance(s, ast.Return):
        if s.value is None:
            return RET(cx, 'tt')
        return ret_expr(cx, s.value)
    if isinstance(s, ast.Assert):
        t, kind = pexpr0(cx, s.test)
        if kind == 'phasetest':
            if cx.mode != 'M':
                fail(w, s, 'phase assert outside an effectful body')
            return f'bind (assert_phase {t[len("(phase_is "):-1]}) (fun _ => {tail()})'
        if kind != 'bool':
            fail(w, s, 'assert of a non-boolean')
        if FAIL(cx) is None:
            fail(w, s, 'assert in a total function')
        if t == 'true':
            return tail()
        return f'if {t} then {tail()} else {FAIL(cx)}'
    if isinstance(s, ast.AnnAssign) and isinstance(s.target, ast.Name) and s.value is not None:
        s = ast.copy_location(ast.Assign(targets=[s.target], value=s.value), s)
    if isinstance(s, ast.Assign) and len(s.targets) == 1:
        if isinstance(s.value, ast.Call):
            s = ast.copy_location(ast.Assign(targets=s.targets, value=positional(cx, s.value)), s)
        tgt = s.targets[0]
        hch = attr_chain(s.value.func) if isinstance(s.value, ast.Call) else None
        hp = helper_of(cx, hch)
        if hp is not None and not (len(body_of(hp[0])) == 1 and isinstance(tgt, ast.Name)):
            return inline_helper(cx, s, hp[0], hp[1], tail)
        if isinstance(tgt, ast.Tuple) and isinstance(s.value, ast.Tuple) and len(tgt.elts) == len(s.value.elts) \
                and all(isinstance(e, ast.Name) for e in tgt.elts):
            vals = [pexpr0(cx, e) for e in s.value.elts]          # all right-hand sides first, as Python does
            for e, (c0, k0) in zip(tgt.elts, vals):
                cx.env[e.id] = (k0, c0)
            return tail()
        if isinstance(tgt, ast.Tuple) and len(tgt.elts) == 2 and all(isinstance(e, ast.Name) for e in tgt.elts):
            ch = attr_chain(s.value.func) if isinstance(s.value, ast.Call) else None
            if ch == ['Implies', 'extract'] and len(s.value.args) == 1:
                e = pexpr(cx, s.value.args[0], 'pat')[0]
                a, b = tgt.elts[0].id, tgt.elts[1].id
                cx.env[a] = ('pat', v(a))
                cx.env[b] = ('pat', v(b))
                if FAIL(cx) is None:
                    fail(w, s, 'Implies.extract in a total function')
                return f'match {e} with Imp {v(a)} {v(b)} => {tail()} | _ => {FAIL(cx)} end'
            fail(w, s, 'tuple assignment outside the subset')
        if isinstance(tgt, ast.Name):
            name = tgt.id
            val = s.value
            if not (cx.mode == 'M' and is_effectful(cx, val)):
                c0, k0 = pexpr0(cx, val)
                if k0 == 'basicobj':
                    cx.env[name] = ('basicobj', '')
                    return tail()
            if cx.mode == 'M' and is_effectful(cx, val):
                def k(c, kind):
                    cx.env[name] = (kind, c)
                    return tail()
                # bind directly to the python name
                return mexpr_named(cx, val, name, tail)
            c, kind = pexpr0(cx, val)
            cx.env[name] = (kind, v(name))
            return f'let {v(name)} := {c} in {tail()}'
        fail(w, s, 'assignment target outside the subset')
    if isinstance(s, ast.Expr) and isinstance(s.value, ast.Call):
        s = ast.copy_location(ast.Expr(value=positional(cx, s.value)), s)
        ch = attr_chain(s.value.func)
        if ch == ['self', 'check_interpreting']:
            return tail()                                             # verified print-only at class level
        hp = helper_of(cx, ch)
        if hp is not None and cx.mode == 'M':
            return inline_unit_helper(cx, s, hp[0], hp[1], tail)
        if cx.mode != 'M' or not is_effectful(cx, s.value):
            fail(w, s, 'expression statement outside the subset')
        if not rest and fallthrough == 'ret tt':
            return mcall(cx, s.value, lambda c, kind: None if kind == 'unit' else 'ret tt')
        return mcall(cx, s.value, lambda c, kind: tail())
    if isinstance(s, ast.FunctionDef):
        if len(s.args.args) != 1:
            fail(w, s, 'nested function arity')
        cx.closures[s.name] = s
        return tail()
    if isinstance(s, ast.If):
        return if_stmt(cx, s, rest, fallthrough)
    if isinstance(s, ast.For):
        return for_stmt(cx, s, rest, fallthrough)
    fail(w, s, 'statement outside the subset')


def inline_helper(cx, assign, fn, pnames, tail):
    """`t1[, t2..] = self._helper(a1, ..)` (also a static method / ClassName._helper): the helper's body with its parameters
    bound to the argument values, its final `return E` becoming `t1[, t2..] = E`; translated in place, so the generated text is
    that of the inlined code.  Fails closed when a local of the helper would shadow a variable of the caller that is still live."""
    w = cx.where
    call = assign.value
    tgt = assign.targets[0]
    targets = [e.id for e in tgt.elts] if isinstance(tgt, ast.Tuple) and all(isinstance(e, ast.Name) for e in tgt.elts) else \
        [tgt.id] if isinstance(tgt, ast.Name) else None
    if targets is None or call.keywords:
        fail(w, assign, 'helper call form outside the subset')
    if len(pnames) != len(call.args):
        fail(w, call, 'helper arity')
    hb = body_of(fn)
    assigned = set()          # names that become binders of the generated term (parameters are only aliases of the arguments)
    for n in ast.walk(fn):
        if isinstance(n, (ast.Assign, ast.AnnAssign)):
            for t in (n.targets if isinstance(n, ast.Assign) else [n.target]):
                for e in ([t] if isinstance(t, ast.Name) else t.elts if isinstance(t, ast.Tuple) else []):
                    if isinstance(e, ast.Name):
                        assigned.add(e.id)
        if isinstance(n, (ast.For, ast.While, ast.FunctionDef, ast.Lambda, ast.Try)) and n is not fn:
            fail(w, n, 'helper body outside the subset')
    clash = (assigned & set(cx.env)) - set(targets)
    if clash:
        fail(w, assign, f'helper local(s) {sorted(clash)} would shadow live variables of the caller')
    rets = [n for n in ast.walk(fn) if isinstance(n, ast.Return)]
    if len(rets) != 1 or not hb or hb[-1] is not rets[0] or rets[0].value is None:
        fail(w, fn, 'helper must end in its only return')
    h = cx.child()
    h.env = dict(cx.env)
    for pn, an in zip(pnames, call.args):
        c, kind = pexpr0(cx, an)
        h.env[pn] = (kind, c)
    # the caller's targets receive the returned value: translate `targets = <returned expr>` in the helper's scope
    syn = ast.copy_location(ast.Assign(targets=[tgt], value=rets[0].value), assign)

    def finish():
        for t in targets:
            if t not in h.env:
                fail(w, assign, 'returned value of the helper is outside the subset')
            cx.env[t] = h.env[t]
        for k2, v2 in h.env.items():          # the helper's binders are in scope of the continuation
            cx.env.setdefault(k2, v2)
        return tail()
    return block_with_return(h, hb[:-1] + [syn], finish)


def bound_names(fn):
    out = set()
    for n in ast.walk(fn):
        tg = n.targets if isinstance(n, ast.Assign) else [n.target] if isinstance(n, (ast.AnnAssign, ast.For)) else []
        for t in tg:
            for e in ast.walk(t):
                if isinstance(e, ast.Name):
                    out.add(e.id)
    return out


def inline_unit_helper(cx, stmt, fn, pnames, tail):
    """`self._helper(a1, ..)` as a statement (the helper returns nothing): its statements are translated in place with the
    parameters standing for the argument values; a dict parameter that the helper updates in place (`d[k] = ..` in a loop over
    d.items()) is the caller's dict, so the caller's name refers to the updated dict afterwards.  No return may occur
    except a trailing bare one; a name bound by the helper must not clash with a live variable of the caller."""
    w = cx.where
    call = stmt.value
    if call.keywords or len(pnames) != len(call.args):
        fail(w, call, 'helper call form outside the subset')
    hb = body_of(fn)
    if hb and isinstance(hb[-1], ast.Return) and hb[-1].value is None:
        hb = hb[:-1]
    for n in ast.walk(fn):
        if isinstance(n, (ast.Return, ast.While, ast.FunctionDef, ast.Lambda, ast.Try)) and n is not fn \
                and not (isinstance(n, ast.Return) and n.value is None and n is body_of(fn)[-1]):
            fail(w, n, 'unit helper body outside the subset')
    bound = bound_names(fn) - set(pnames)
    clash = bound & set(cx.env)
    if clash:
        fail(w, stmt, f'helper local(s) {sorted(clash)} would shadow live variables of the caller')
    h = cx.child()
    h.env = dict(cx.env)
    alias = {}
    for pn, an in zip(pnames, call.args):
        c, kind = pexpr0(cx, an)
        h.env[pn] = (kind, c)
        if isinstance(an, ast.Name):
            alias[pn] = an.id

    def finish():
        for pn, cn in alias.items():
            if h.env[pn] != cx.env.get(cn) and h.env[pn][0] == 'delta':
                cx.env[cn] = h.env[pn]                 # the dict was updated in place
        return tail()
    return block_with_return(h, hb, finish)


def block_with_return(cx, stmts, finish):
    """translate stmts, then continue with finish() (used for an inlined helper body)"""
    marker = ast.Pass()
    cx._finish, cx._marker = finish, marker
    return block(cx, list(stmts) + [marker], None)


def mexpr_named(cx, val, name, tail):
    def k(c, kind):
        # rename the fresh binder to the python name
        cx.env[name] = (kind, v(name))
        return '\0' + c + '\0'
    out = mcall(cx, val, k)
    # the continuation placeholder \0<fresh>\0 marks where the rest goes; the binder <fresh> becomes v_name
    i = out.index('\0')
    j = out.index('\0', i + 1)
    fresh = out[i + 1:j]
    body = tail()
    out = out[:i] + body + out[j + 1:]
    out = out.replace(f'(fun {fresh} => ', f'(fun {v(name)} => ')
    # peephole: `x <- m; ret x`
    suffix = f' (fun {v(name)} => ret {v(name)})'
    if out.endswith(suffix) and out.startswith('bind '):
        inner = out[len('bind '):-len(suffix)]
        if balanced(inner):
            return inner
    return out


def balanced(s):
    d = 0
    for i, ch in enumerate(s):
        if ch == '(':
            d += 1
        elif ch == ')':
            d -= 1
            if d == 0 and i != len(s) - 1:
                return False
    return d == 0 and s.startswith('(')


def returns_always(stmts):
    if not stmts:
        return False
    last = stmts[-1]
    if isinstance(last, ast.Return):
        return True
    if isinstance(last, ast.If) and last.orelse:
        return returns_always(last.body) and returns_always(last.orelse)
    return False


def test_expr(cx, node):
    """if-test; returns (coq bool, needs_mem)"""
    t, kind = pexpr0(cx, node)
    if kind == 'memtest':
        return t, True
    if isinstance(node, ast.BoolOp):
        needs = any(pexpr0(cx, x)[1] == 'memtest' for x in node.values)
        parts = [pexpr0(cx, x)[0] for x in node.values]
        op = ' && ' if isinstance(node.op, ast.And) else ' || '
        return '(' + op.join(parts) + ')', needs
    if kind in ('delta',):
        return f'(negb (is_nil {t}))', False
    if kind != 'bool':
        fail(cx.where, node, f'truth value of a {kind}')
    return t, False


def pexpr0_bool_patch():
    """BoolOp over memtests: pexpr of parts must accept kind 'memtest' as bool"""


def if_stmt(cx, s, rest, fallthrough):
    # BoolOp parts of kind memtest are booleans once rt_mem is bound
    if isinstance(s.test, ast.BoolOp):
        kinds = [pexpr0(cx, x)[1] for x in s.test.values]
        if not set(kinds) <= {'bool', 'memtest'}:
            fail(cx.where, s.test, 'condition outside the subset')
        parts = [pexpr0(cx, x)[0] for x in s.test.values]
        t = '(' + (' && ' if isinstance(s.test.op, ast.And) else ' || ').join(parts) + ')'
        needs = 'memtest' in kinds
    else:
        t, needs = test_expr(cx, s.test)
    if needs and cx.mode != 'M':
        fail(cx.where, s.test, 'memory read outside an effectful body')
    if returns_always(s.body) and (not s.orelse or returns_always(s.orelse)):
        c1 = block(cx.child(), s.body, None)
        c2 = block(cx.child(), s.orelse, None) if s.orelse else block(cx, rest, fallthrough)
        if t.startswith('(negb ') and t.endswith(')') and balanced(t):
            t, c1, c2 = t[len('(negb '):-1], c2, c1          # `if not T: A else: B`  is  `if T: B else: A`
        out = f'if {t} then {c1} else {c2}'
    else:
        if cx.mode != 'M':
            fail(cx.where, s, 'conditional without return outside an effectful body')
        c1 = block(cx.child(), s.body, 'ret tt')
        c2 = block(cx.child(), s.orelse, 'ret tt') if s.orelse else 'ret tt'
        if t.startswith('(negb ') and t.endswith(')') and balanced(t):
            t, c1, c2 = t[len('(negb '):-1], c2, c1
        if not rest and fallthrough == 'ret tt':
            out = f'if {t} then {c1} else {c2}'              # nothing follows: the conditional is the tail (unit)
        else:
            out = f'bind (if {t} then {c1} else {c2}) (fun _ => {block(cx, rest, fallthrough)})'
    if needs:
        out = f'bind get_mem (fun rt_mem => {out})'
    return out


def for_stmt(cx, s, rest, fallthrough):
    w = cx.where
    if cx.mode != 'M' or s.orelse:
        fail(w, s, 'loop outside an effectful body')
    it = s.iter
    # for k, p in d.items(): d[k] = E
    if (isinstance(it, ast.Call) and isinstance(it.func, ast.Attribute) and it.func.attr == 'items' and not it.args
            and isinstance(it.func.value, ast.Name) and isinstance(s.target, ast.Tuple) and len(s.target.elts) == 2
            and all(isinstance(e, ast.Name) for e in s.target.elts) and len(s.body) == 1 and isinstance(s.body[0], ast.Assign)):
        dname = it.func.value.id
        if cx.env.get(dname, (None,))[0] != 'delta':
            fail(w, s, 'items() of a non-dict')
        kname, pname = s.target.elts[0].id, s.target.elts[1].id
        a = s.body[0]
        t = a.targets[0]
        if not (len(a.targets) == 1 and isinstance(t, ast.Subscript) and isinstance(t.value, ast.Name) and t.value.id == dname
                and isinstance(t.slice, ast.Name) and t.slice.id == kname):
            fail(w, a, 'loop body is not `d[k] = E`')
        c2 = cx.child()
        c2.env[kname] = ('N', v(kname))
        c2.env[pname] = ('pat', v(pname))
        body = mexpr(c2, a.value, 'pat', lambda c, k: f'ret {c}')
        body = strip_ret_bind(body)
        old = cx.env[dname][1]
        cx.env[dname] = ('delta', v(dname) + "'")
        return (f'bind (map_itemsM (fun {v(kname)} {v(pname)} => {body}) {old}) '
                f"(fun {v(dname)}' => {block(cx, rest, fallthrough)})")
    # for x in L: stmts
    if isinstance(s.target, ast.Name):
        L, kind = pexpr0(cx, it)
        ek = {'patlist': 'pat', 'thunklist': 'thunk', 'sublist': 'submod'}.get(kind)
        if ek is None:
            fail(w, s, 'iteration over a value outside the subset')
        c2 = cx.child()
        c2.env[s.target.id] = (ek, v(s.target.id))
        body = block(c2, s.body, 'ret tt')
        return f'bind (iterM (fun {v(s.target.id)} => {body}) {L}) (fun _ => {block(cx, rest, fallthrough)})'
    fail(w, s, 'loop outside the subset')


def strip_ret_bind(body):
    # `bind m (fun a => ret a)` -> m
    import re
    m = re.fullmatch(r'bind (\(.*\)) \(fun (a\d+) => ret \2\)', body)
    if m and balanced(m.group(1)):
        return m.group(1)
    return body


def closure(cx, node):
    """Lambda or the name of a nested def -> Coq function obj -> M pat"""
    if isinstance(node, ast.Lambda):
        if len(node.args.args) != 1:
            fail(cx.where, node, 'lambda arity')
        p = node.args.args[0].arg
        c2 = cx.child('M')
        c2.env[p] = ('interp', v(p))
        return f'(fun {v(p)} => {mexpr(c2, node.body, "proved", lambda c, k: f"ret {c}") if True else ""})'.replace('§', '')
    if isinstance(node, ast.Call) and isinstance(node.func, ast.Name) and node.func.id == 'methodcaller' and node.args \
            and isinstance(node.args[0], ast.Constant) and isinstance(node.args[0].value, str) and not node.keywords \
            and RESOLVER is not None and RESOLVER.imports(cx.modrel, 'methodcaller') == ('operator', 'methodcaller'):
        # operator.methodcaller(name, *args)  is  lambda obj: obj.name(*args)
        lam = ast.Lambda(args=ast.arguments(posonlyargs=[], args=[ast.arg(arg='interpreter')], kwonlyargs=[], kw_defaults=[], defaults=[]),
                         body=ast.Call(func=ast.Attribute(value=ast.Name(id='interpreter', ctx=ast.Load()), attr=node.args[0].value, ctx=ast.Load()),
                                       args=list(node.args[1:]), keywords=[]))
        ast.copy_location(lam, node)
        ast.fix_missing_locations(lam)
        return closure(cx, lam)
    if isinstance(node, ast.Name) and node.id in cx.closures:
        fn = cx.closures[node.id]
        p = fn.args.args[0].arg
        c2 = cx.child('M')
        c2.env[p] = ('interp', v(p))
        return f'(fun {v(p)} => {block(c2, fn.body, None)})'
    fail(cx.where, node, 'thunk body is neither a lambda nor a nested def')


def ret_expr(cx, node):
    w = cx.where
    node = positional(cx, node)
    if isinstance(node, ast.IfExp):
        # `return A if T else B`  is  `if T: return A` / `else: return B`
        syn = ast.If(test=node.test, body=[ast.Return(value=node.body)], orelse=[ast.Return(value=node.orelse)])
        ast.copy_location(syn, node)
        for r in (syn.body[0], syn.orelse[0]):
            ast.copy_location(r, node)
        return if_stmt(cx, syn, [], None)
    if isinstance(node, ast.Call) and isinstance(node.func, ast.Name) and node.func.id == 'ProofThunk' and len(node.args) == 2:
        conc = pexpr(cx, node.args[1], 'pat')[0]
        body = closure(cx, node.args[0])
        body = peephole_lambda(body)
        return RET(cx, f'(mkthunk {body} {conc})')
    if cx.mode == 'M':
        return mexpr(cx, node, None, lambda c, k: f'ret {c}') if is_effectful(cx, node) else f'ret {pexpr0(cx, node)[0]}'
    c, kind = pexpr0(cx, node)
    return RET(cx, c)


def peephole_lambda(body):
    import re
    # (fun v => bind M (fun a => ret a)) -> (fun v => M)
    m = re.fullmatch(r'\(fun (\w+) => (.*)\)', body, re.S)
    if m:
        inner = collapse(m.group(2))
        return f'(fun {m.group(1)} => {inner})'
    return body


def collapse(t):
    """rewrite every innermost `bind X (fun a => ret a)` to X (right identity)"""
    import re
    while True:
        m = re.search(r' \(fun (a\d+) => ret \1\)', t)
        if not m:
            return t
        # find the matching `bind ` that this continuation closes: scan backwards for the start of its first argument
        end = m.start()
        i = end - 1
        if t[i] != ')':
            return t
        d = 0
        while i >= 0:
            if t[i] == ')':
                d += 1
            elif t[i] == '(':
                d -= 1
                if d == 0:
                    break
            i -= 1
        if i < 5 or t[i - 5:i] != 'bind ':
            return t
        t = t[:i - 5] + t[i:end] + t[m.end():]


# ------------------------------------------------------------------------------------------------
# per-file drivers
# ------------------------------------------------------------------------------------------------

def parse(repo, rel):
    path = os.path.join(repo, 'generation', 'src', 'proof_generation', rel)
    try:
        return ast.parse(open(path).read(), filename=path)
    except (OSError, SyntaxError) as e:
        raise SystemExit(f'{HERE}: cannot parse {rel}: {e}')


def body_of(fn):
    """the statements of a function without docstring, bare string/ellipsis expressions and `pass`"""
    return [st for st in fn.body
            if not (isinstance(st, ast.Expr) and isinstance(st.value, ast.Constant) and isinstance(st.value.value, str))]


def find_class(mod, name, rel):
    for n in mod.body:
        if isinstance(n, ast.ClassDef) and n.name == name:
            return n
    raise SystemExit(f'{HERE}: class {name} not found in {rel}')


def private_methods(cls):
    """helper methods `_name` of the class (not dunder): inlined at their call sites"""
    return {n.name: n for n in cls.body if isinstance(n, ast.FunctionDef) and n.name.startswith('_') and not n.name.startswith('__')}


def methods(cls):
    return {n.name: n for n in cls.body if isinstance(n, ast.FunctionDef)}


def params(cx_where, fn, skip_self=True):
    a = fn.args
    if a.vararg or a.kwarg or a.kwonlyargs or a.posonlyargs:
        fail(cx_where, fn, 'parameter kinds outside the subset')
    out = []
    for arg in a.args[1 if skip_self else 0:]:
        ann = ast.unparse(arg.annotation) if arg.annotation is not None else None
        if ann not in ANNOT:
            fail(cx_where, arg, f'parameter annotation {ann!r} outside the subset')
        out.append((arg.arg, ANNOT[ann]))
    return out


COQTY = {'pat': 'pat', 'proved': 'pat', 'evarparam': 'N', 'N': 'N', 'nlist': 'list N', 'delta': 'delta', 'thunk': 'thunk',
         'interp': 'obj', 'term': 'term', 'bool': 'bool'}


def consts_from_pattern(repo):
    mod = parse(repo, 'pattern.py')
    cx = Ctx('pattern.py', 'pure', {}, {})
    out = {}
    for n in mod.body:
        if isinstance(n, ast.Assign) and len(n.targets) == 1 and isinstance(n.targets[0], ast.Name):
            nm = n.targets[0].id
            if nm in ('phi0', 'phi1', 'phi2'):
                out[nm] = pexpr(cx, n.value, 'pat')[0]
            if nm == 'bot':
                c = n.value
                if not (isinstance(c, ast.Call) and isinstance(c.func, ast.Name) and c.func.id == 'Notation' and len(c.args) == 4
                        and isinstance(c.args[1], ast.Constant) and c.args[1].value == 0):
                    fail('pattern.py', n, 'bot is not a nullary Notation')
                out['bot()'] = pexpr(cx, c.args[2], 'pat')[0]
    for need in ('phi0', 'phi1', 'phi2', 'bot()'):
        if need not in out:
            raise SystemExit(f'{HERE}: pattern.py: constant {need} not found')
    return out


def gen_basic(repo, consts, out):
    rel = 'basic_interpreter.py'
    cls = find_class(parse(repo, rel), 'BasicInterpreter', rel)
    ms = methods(cls)
    fields = []
    for m in OPS_ORDER:
        if m not in ms:
            raise SystemExit(f'{HERE}: BasicInterpreter.{m} not found')
        fn = ms[m]
        where = f'BasicInterpreter.{m}'
        ps = params(where, fn)
        kinds, rk = OPS[m]
        want = [k for k in kinds]
        got = [k for _, k in ps]
        norm = lambda ks: ['N' if k == 'str' and False else k for k in ks]  # noqa: E731
        if m in ('save', 'load'):
            if got != ['N', 'term']:
                fail(where, fn, 'parameters')
            ps = ps[1:]
        elif norm(got) != [k for k in want]:
            fail(where, fn, f'parameter kinds {got} differ from the interface {want}')
        env = {n: (k, v(n)) for n, k in ps}
        mode = 'M' if rk == 'unit' else ('opt' if m in ('modus_ponens', 'exists_generalization', 'instantiate') else 'pure')
        cx = Ctx(where, mode, env, consts, 'basic')
        cx.modrel, cx.helpers = rel, private_methods(cls)
        cx.clsname = cls.name
        cx.env['self.phase'] = ('phase', '')
        body = block(BasicCtx(cx), fn.body, 'ret tt' if mode == 'M' else None)
        sig = ' '.join(f'({v(n)}:{COQTY[k]})' for n, k in ps)
        rty = {'pure': 'pat', 'opt': 'option pat', 'M': 'M unit'}[mode]
        out.append(f'(* {rel}:{fn.lineno} *)\nDefinition gen_basic_{m} {sig} : {rty} :=\n  {body}.\n')
        fields.append(f'gen_basic_{m}')
    out.append('Definition gen_basic : basic_fns := mkbasic\n  ' + '\n  '.join(fields) + '.\n')


def BasicCtx(cx):
    return cx


def gen_interp_pattern(repo, consts, out):
    rel = 'interpreter.py'
    cls = find_class(parse(repo, rel), 'Interpreter', rel)
    fn = methods(cls).get('pattern')
    if fn is None:
        raise SystemExit(f'{HERE}: Interpreter.pattern not found')
    where = 'Interpreter.pattern'
    if params(where, fn) != [('p', 'pat')]:
        fail(where, fn, 'parameters')
    fb = body_of(fn)
    if len(fb) == 1 and isinstance(fb[0], ast.Match) and fb[0].cases:
        last = fb[0].cases[-1]
        if (isinstance(last.pattern, ast.MatchAs) and last.pattern.pattern is None and last.pattern.name is None and last.guard is None
                and len(last.body) == 1 and isinstance(last.body[0], ast.Raise)):
            # `case _: raise ..`  is the `raise` after the match
            fb = [ast.copy_location(ast.Match(subject=fb[0].subject, cases=fb[0].cases[:-1]), fb[0]), last.body[0]]
    if not (len(fb) == 2 and isinstance(fb[0], ast.Match) and isinstance(fb[1], ast.Raise)):
        fail(where, fn, 'body is not `match p: ...` followed by `raise`')
    mt = fb[0]
    if not (isinstance(mt.subject, ast.Name) and mt.subject.id == 'p'):
        fail(where, mt, 'match subject')
    arms = []
    seen = []
    for case in mt.cases:
        pt = case.pattern
        if case.guard is not None or not (isinstance(pt, ast.MatchClass) and isinstance(pt.cls, ast.Name) and not pt.kwd_patterns):
            fail(where, case.pattern, 'case outside the subset')
        cname = pt.cls.id
        if cname == 'Instantiate':
            continue                                   # notation: no counterpart in the expanded model
        if cname not in MATCH_CTORS:
            fail(where, pt, 'unknown pattern class')
        ctor, kinds = MATCH_CTORS[cname]
        if len(pt.patterns) != len(kinds) or not all(isinstance(x, ast.MatchAs) and x.pattern is None and x.name for x in pt.patterns):
            fail(where, pt, 'sub-patterns must be plain captures')
        cx = Ctx(where, 'M', {}, consts, 'interp')
        cx.modrel, cx.helpers = rel, private_methods(cls)
        cx.clsname = cls.name
        names = [x.name for x in pt.patterns]
        for nme, k in zip(names, kinds):
            cx.env[nme] = (k, v(nme))
        body = block(cx, case.body, None)
        if cname in seen:
            fail(where, pt, 'two cases for the same class')
        arms.append((list(MATCH_CTORS).index(cname), f'  | {ctor} ' + ' '.join(v(x) for x in names) + f' =>\n      {collapse(body)}'))
        seen.append(cname)
    arms = [a for _, a in sorted(arms)]
    out.append(f'(* {rel}:{fn.lineno}  Interpreter.pattern; [ovr] = the override of the concrete method by the class of self,\n'
               '   recursive self.pattern(..) calls go through it again *)\n'
               'Fixpoint obj_pattern_rec (ovr:pat -> M pat -> M pat) (self_ops:ops) (v_p:pat) {struct v_p} : M pat :=\n'
               '  ovr v_p\n  (match v_p with\n' + '\n'.join(arms) + '\n  end).\n'
               'Definition obj_pattern (it:obj) (p:pat) : M pat := obj_pattern_rec (o_override it (o_ops it)) (o_ops it) p.\n')


def stateful_classes(repo):
    """class -> is it a (transitive) subclass of StatefulInterpreter"""
    bases = {}
    for rel in ('basic_interpreter.py', 'stateful_interpreter.py', 'counting_interpreter.py', 'io_interpreter.py',
                'serializing_interpreter.py', 'pretty_printing_interpreter.py', 'interpreter_transformer.py',
                'optimizing_interpreters.py'):
        for n in parse(repo, rel).body:
            if isinstance(n, ast.ClassDef):
                bases[n.name] = [ast.unparse(b) for b in n.bases]

    def st(c, depth=0):
        if c == 'StatefulInterpreter':
            return True
        if depth > 10 or c not in bases:
            return False
        return any(st(b, depth + 1) for b in bases[c])
    return {c: st(c) for c in bases}, bases


def identity_param(fn):
    """index of the parameter that the helper `fn` hands back unchanged from every return (None if it is not such a helper)"""
    pnames = [a.arg for a in fn.args.args[1:]]
    rets = [n for n in ast.walk(fn) if isinstance(n, ast.Return)]
    if not rets or not all(isinstance(r.value, ast.Name) for r in rets):
        return None
    names = {r.value.id for r in rets}
    if len(names) != 1 or next(iter(names)) not in pnames:
        return None
    nm = next(iter(names))
    for n in ast.walk(fn):
        tg = n.targets if isinstance(n, ast.Assign) else [n.target] if isinstance(n, (ast.AnnAssign, ast.AugAssign)) else []
        for t in tg:
            for e in ast.walk(t):
                if isinstance(e, ast.Name) and e.id == nm:
                    return None
    return pnames.index(nm)


def check_return_transparency(repo):
    """every override of an Interpreter method in the stateful / counting / serializing classes returns the value of
    super().<same method>(<its own parameters, in order>) -- the base_ops abstraction of PyRt.v.  The value may travel
    through a local bound once, or through a private helper that hands one of its arguments back unchanged."""
    for rel, cname in (('stateful_interpreter.py', 'StatefulInterpreter'), ('counting_interpreter.py', 'CountingInterpreter'),
                       ('serializing_interpreter.py', 'SerializingInterpreter')):
        cls = find_class(parse(repo, rel), cname, rel)
        helpers = private_methods(cls)
        for name, fn in methods(cls).items():
            if name not in OPS or OPS[name][1] == 'unit':
                continue
            where = f'{cname}.{name}'
            pnames = [a.arg for a in fn.args.args[1:]]
            bound = {}
            for n in ast.walk(fn):
                if isinstance(n, ast.Assign):
                    for t in n.targets:
                        for e in ast.walk(t):
                            if isinstance(e, ast.Name) and isinstance(e.ctx, ast.Store):
                                bound.setdefault(e.id, []).append(n)

            def is_super_value(e, depth=0):
                if depth > 4:
                    return False
                if isinstance(e, ast.Call) and attr_chain(e.func) == ['super()', name]:
                    args = [a.id if isinstance(a, ast.Name) else None for a in e.args]
                    return args == pnames and not e.keywords
                if isinstance(e, ast.Name):
                    defs = bound.get(e.id, [])
                    return (len(defs) == 1 and len(defs[0].targets) == 1 and isinstance(defs[0].targets[0], ast.Name)
                            and is_super_value(defs[0].value, depth + 1))
                if isinstance(e, ast.Call):
                    ch = attr_chain(e.func)
                    if ch and len(ch) == 2 and ch[0] == 'self' and ch[1] in helpers and not e.keywords:
                        i = identity_param(helpers[ch[1]])
                        return i is not None and i < len(e.args) and is_super_value(e.args[i], depth + 1)
                return False
            rets = [n for n in ast.walk(fn) if isinstance(n, ast.Return)]
            if not rets or not all(r.value is not None and is_super_value(r.value) for r in rets):
                fail(where, fn, 'does not return the value of super().' + name + '(<its own parameters>)')


def gen_transformers(repo, consts, out):
    rel = 'interpreter_transformer.py'
    cls = find_class(parse(repo, rel), 'InterpreterTransformer', rel)
    ms = methods(cls)
    fields = {}
    for m in OPS_ORDER:
        if m not in ms:
            raise SystemExit(f'{HERE}: InterpreterTransformer.{m} not found')
        fields[m] = method_op(f'InterpreterTransformer.{m}', ms[m], m, consts, 'transformer', rel, private_methods(cls))
    out.append(f'(* {rel}: every abstract method as delegated by InterpreterTransformer *)\n'
               'Definition gen_transformer_ops (sub:ops) : ops := mkops\n  ' + '\n  '.join(f'({fields[m]})' for m in OPS_ORDER) + '.\n')
    # optimizing_interpreters.py
    rel2 = 'optimizing_interpreters.py'
    mod = parse(repo, rel2)
    io = find_class(mod, 'InstantiationOptimizer', rel2)
    me = find_class(mod, 'MemoizingInterpreter', rel2)
    for c in (io, me):
        if [ast.unparse(b) for b in c.bases] != ['InterpreterTransformer']:
            fail(c.name, c, 'base class is not InterpreterTransformer')
    ims = methods(io)
    extra = {x for x in ims if not (x.startswith('_') and not x.startswith('__'))} - {'__init__', 'instantiate', 'instantiate_pattern'}
    if extra:
        fail('InstantiationOptimizer', io, f'unexpected methods {sorted(extra)}')
    check_forwarding_init(io, ['sub_interpreter'])
    iofields = dict(fields)
    iofields['instantiate'] = 'gen_instopt_instantiate sub'
    body = method_op('InstantiationOptimizer.instantiate', ims['instantiate'], 'instantiate', consts, 'instopt', rel2, private_methods(io))
    out.append(f'(* {rel2}:{ims["instantiate"].lineno} *)\nDefinition gen_instopt_instantiate (sub:ops) : pat -> delta -> M pat :=\n  {body}.\n')
    out.append('Definition gen_instopt_ops (sub:ops) : ops := mkops\n  ' + '\n  '.join(f'({iofields[m]})' for m in OPS_ORDER) + '.\n')
    mms = methods(me)
    extra = {x for x in mms if not (x.startswith('_') and not x.startswith('__'))} - {'__init__', 'pattern'}
    if extra:
        fail('MemoizingInterpreter', me, f'unexpected methods {sorted(extra)}')
    fn = mms['pattern']
    where = 'MemoizingInterpreter.pattern'
    if params(where, fn) != [('p', 'pat')]:
        fail(where, fn, 'parameters')
    cx = Ctx(where, 'M', {'p': ('pat', 'v_p')}, consts, 'memo')
    cx.modrel, cx.helpers = rel2, private_methods(me)
    cx.clsname = me.name
    body = collapse(block(cx, fn.body, None))
    out.append(f'(* {rel2}:{fn.lineno}  MemoizingInterpreter.pattern; sub_stateful = isinstance(self.sub_interpreter, StatefulInterpreter),\n'
               '   inS = membership in self._patterns_for_memoization, rt_mem = self.sub_interpreter.memory,\n'
               '   super_pattern = super().pattern(p) *)\n'
               'Definition gen_memo_pattern (sub_stateful:bool) (inS:pat -> bool) (self_ops:ops) (v_p:pat) (super_pattern:M pat) : M pat :=\n'
               f'  {body}.\n')
    st, bases = stateful_classes(repo)
    for c in ('BasicInterpreter', 'StatefulInterpreter', 'CountingInterpreter', 'SerializingInterpreter', 'PrettyPrintingInterpreter',
              'InterpreterTransformer', 'InstantiationOptimizer', 'MemoizingInterpreter'):
        if c not in st:
            raise SystemExit(f'{HERE}: class {c} not found')
        out.append(f'Definition gen_is_stateful_{c} : bool := {"true" if st[c] else "false"}.')
    out.append('''
(* the three transformer classes as object constructors: own ops, own override of Interpreter.pattern, own class *)
Definition gen_InterpreterTransformer (sub:obj) : obj := mkobj (gen_transformer_ops (o_ops sub)) no_override gen_is_stateful_InterpreterTransformer.
Definition gen_InstantiationOptimizer (sub:obj) : obj := mkobj (gen_instopt_ops (o_ops sub)) no_override gen_is_stateful_InstantiationOptimizer.
Definition gen_MemoizingInterpreter (inS:pat -> bool) (sub:obj) : obj :=
  mkobj (gen_transformer_ops (o_ops sub)) (gen_memo_pattern (o_stateful sub) inS) gen_is_stateful_MemoizingInterpreter.
Definition gen_base (stateful:bool) : obj := mkobj (base_ops gen_basic) no_override stateful.
''')


def check_forwarding_init(cls, names):
    fn = methods(cls).get('__init__')
    if fn is None:
        return
    if [a.arg for a in fn.args.args[1:]] != names:
        fail(cls.name, fn, '__init__ parameters')
    for st in fn.body:
        ok = isinstance(st, ast.Expr) and isinstance(st.value, ast.Call) and attr_chain(st.value.func) == ['super()', '__init__']
        if not ok:
            fail(cls.name, st, '__init__ does more than forward to super().__init__')


def method_op(where, fn, m, consts, self_kind, modrel=None, helpers=None):
    ps = params(where, fn)
    kinds, rk = OPS[m]
    got = [k for _, k in ps]
    exp = ['N' if k == 'str' else k for k in kinds]
    if got != exp:
        fail(where, fn, f'parameter kinds {got} differ from the interface {exp}')
    keep = [(n, k) for (n, k), kk in zip(ps, kinds) if kk != 'str']
    env = {n: (k, v(n)) for n, k in keep}
    cx = Ctx(where, 'M', env, consts, self_kind)
    cx.modrel, cx.helpers = modrel, helpers or {}
    body = collapse(block(cx, fn.body, 'ret tt' if rk == 'unit' else None))
    if not keep:
        return body
    return 'fun ' + ' '.join(v(n) for n, _ in keep) + ' => ' + body


DSL_RULES = ['prop1', 'prop2', 'prop3', 'modus_ponens', 'exists_quantifier', 'exists_generalization', 'dynamic_inst', 'instantiate',
             'load_axiom', 'publish_proof']


def gen_dsl(repo, consts, out):
    rel = 'proof.py'
    mod = parse(repo, rel)
    pt = find_class(mod, 'ProofThunk', rel)
    call = methods(pt).get('__call__')
    if call is None or params('ProofThunk.__call__', call) != [('interpreter', 'interp')]:
        raise SystemExit(f'{HERE}: ProofThunk.__call__(self, interpreter: Interpreter) not found')
    init = methods(pt).get('__init__')
    ok = init is not None and [a.arg for a in init.args.args] == ['self', 'expr', 'conc'] and len(init.body) == 2 and \
        sorted(ast.unparse(s) for s in init.body) == ['self._expr = expr', 'self.conc = conc']
    if not ok:
        raise SystemExit(f'{HERE}: ProofThunk.__init__ is not `self._expr = expr; self.conc = conc`')
    cx = Ctx('ProofThunk.__call__', 'M', {'interpreter': ('interp', 'v_interpreter')}, consts, 'thunkcall')
    cx.modrel = rel
    cx.env['self'] = ('thunk', 'th')
    body = block(ThunkCallCtx(cx), call.body, None)
    out.append(f'(* {rel}:{call.lineno}  ProofThunk.__call__ *)\nDefinition gen_thunk_call (th:thunk) (v_interpreter:obj) : M pat :=\n  {body}.\n')

    pe = find_class(mod, 'ProofExp', rel)
    ms = methods(pe)
    ci = ms.get('check_interpreting')
    if ci is None or not is_print_only(ci):
        raise SystemExit(f'{HERE}: ProofExp.check_interpreting is not print-only')
    dsl = {}
    for m in DSL_RULES:
        if m not in ms:
            raise SystemExit(f'{HERE}: ProofExp.{m} not found')
        fn = ms[m]
        ps = params(f'ProofExp.{m}', fn)
        uses_axs = any(attr_chain(n) == ['self', '_axioms'] for n in ast.walk(fn) if isinstance(n, ast.Attribute))
        dsl[m] = {'kinds': [k for _, k in ps], 'axs': uses_axs, 'ps': ps}
    for m in DSL_RULES:
        fn = ms[m]
        where = f'ProofExp.{m}'
        ps = dsl[m]['ps']
        env = {n: (k, v(n)) for n, k in ps}
        cx = Ctx(where, 'opt', env, consts, 'dsl', dsl)
        cx.modrel, cx.helpers = rel, private_methods(pe)
        cx.clsname = pe.name
        body = block(cx, fn.body, None)
        sig = ' '.join(([f'(axs:list pat)'] if dsl[m]['axs'] else []) + [f'({v(n)}:{COQTY[k]})' for n, k in ps])
        out.append(f'(* {rel}:{fn.lineno} *)\nDefinition gen_dsl_{m} {sig} : option thunk :=\n  {body}.\n')
    # phases
    sigs = {'execute_gamma_phase': ['interpreter', 'move_into_claim'], 'execute_claims_phase': ['interpreter', 'move_into_proof'],
            'execute_proofs_phase': ['interpreter'], 'execute_full': ['interpreter']}
    for m in ('execute_gamma_phase', 'execute_claims_phase', 'execute_proofs_phase', 'execute_full'):
        if m not in ms:
            raise SystemExit(f'{HERE}: ProofExp.{m} not found')
        fn = ms[m]
        where = f'ProofExp.{m}'
        ps = params(where, fn)
        if [n for n, _ in ps] != sigs[m]:
            fail(where, fn, 'parameters')
        for d in fn.args.defaults:
            if not (isinstance(d, ast.Constant) and d.value is True):
                fail(where, d, 'default value is not True')
        env = {n: (k, v(n)) for n, k in ps}
        cx = Ctx(where, 'M', env, consts, 'dsl', dsl)
        cx.modrel, cx.helpers = rel, private_methods(pe)
        cx.clsname = pe.name
        cx.env['interpreter.phase'] = ('phase', '')
        body = collapse(block(cx, fn.body, 'ret tt'))
        sig = ' '.join(f'({v(n)}:{COQTY[k]})' for n, k in ps)
        out.append(f'(* {rel}:{fn.lineno} *)\nDefinition gen_{m} (subs:list (obj -> bool -> M unit)) (axs cls:list pat) (prs:list thunk) {sig} : M unit :=\n  {body}.\n')


def ThunkCallCtx(cx):
    return cx


def generate(repo):
    Fresh.n = 0
    consts = consts_from_pattern(repo)
    check_return_transparency(repo)
    out = ['(** REGENERATED on every run of ./check C02 / C08 by translators/py_proofdsl.py from the CURRENT source of',
           '    generation/src/proof_generation/{basic_interpreter,interpreter,interpreter_transformer,optimizing_interpreters,proof,pattern}.py.',
           '    Statement-level translation; reading conventions in PTerm/PyRt.v.  Do not edit. *)',
           'From Coq Require Import NArith List Bool.',
           'From Pi2 Require Import ML.Syntax ML.Subst ML.Machine PTerm.Model PTerm.PyRt.',
           'Import ListNotations.', 'Open Scope N_scope.', '',
           f'(* pattern.py *)\nDefinition gen_phi0 : pat := {consts["phi0"]}.\nDefinition gen_phi1 : pat := {consts["phi1"]}.',
           f'Definition gen_phi2 : pat := {consts["phi2"]}.\nDefinition gen_bot : pat := {consts["bot()"]}.\n']
    consts = {'bot()': 'gen_bot'}
    global RESOLVER
    RESOLVER = Resolver(repo, {'phi0': 'gen_phi0', 'phi1': 'gen_phi1', 'phi2': 'gen_phi2', 'bot()': 'gen_bot'})
    gen_basic(repo, consts, out)
    gen_interp_pattern(repo, consts, out)
    gen_transformers(repo, consts, out)
    gen_dsl(repo, consts, out)
    return '\n'.join(out) + '\n'


if __name__ == '__main__':
    import sys
    sys.stdout.write(generate(sys.argv[1] if len(sys.argv) > 1 else '/repo'))

"""Fail-closed translator (C17): the Metamath AST printer and the slicer's dependency collection
  generation/src/proof_generation/metamath/ast.py                    class Encoder: postvisit_metavariable,
      postvisit_application, postvisit_constant_statement, postvisit_variable_statement, postvisit_disjoint_statement,
      get_statement_type, postvisit_structured_statement, postvisit_block, postvisit_database
      (+ the `visit` dispatch of the AST classes)
  generation/src/proof_generation/metamath/metamath_extract_slice.py construct_axiom, deconstruct_provable,
      supporting_database_for_provable, slice_database
-> coq/Gen/MMPrintSlice.v, written against coq/MM17/GenLib.v.

Statement by statement, expression by expression (Python `ast`); anything outside the recognised subset raises
SystemExit naming the node.  Renaming locals or reflowing does not matter; a dropped/reordered write, a changed
separator or constant, a dropped guard or a changed condition changes the generated definitions.

Printer: every `self.write(X)` becomes a piece (W literal | T name | PF proof), `self.visit(x)` a call of the generated
function for x's class, `for` a flat_map (flat_mapi for `enumerate`), `if` an if/match, `with self.indentation()` its
body (indentation only inserts blanks at line starts).
Slicer: functions become let-chains in the option monad (exception = None); a `for` loop becomes a fold over the tuple
of the variables its body assigns/mutates (the iterable is evaluated before the loop, as in Python); `set`/`frozenset`
values are lists (they are only consumed through sorted / in); `cut_antecedents[f'$d..'] = s` is an anonymous entry;
`slice_database` (a generator) becomes GenLib.gen_loop.  Not translated (GenLib primitives, tied differentially only):
get_constants / statements_get_constants, deconstruct_compressed_proof, match_axiom.
Also translated: the `get_metavariables` methods of the AST classes (ast.py).
"""
from __future__ import annotations

import ast
import os

AST_PY = 'generation/src/proof_generation/metamath/ast.py'
SLICE_PY = 'generation/src/proof_generation/metamath/metamath_extract_slice.py'

RESERVED = {'fun', 'forall', 'exists', 'match', 'with', 'end', 'let', 'in', 'if', 'then', 'else', 'as', 'at', 'fix',
            'return', 'Type', 'Prop', 'Set', 'using', 'where'}


def fail(where, node, why):
    src = ast.unparse(node) if isinstance(node, ast.AST) else str(node)
    raise SystemExit(f'mm_print_slice: {where}: line {getattr(node, "lineno", "?")}: {why}: `{src[:140]}`')


def v(name):
    return 'v_' + name


def coq_str(s):
    """Coq string expression for a Python str constant (newlines through GenLib.nl)"""
    if '"' in s:
        raise SystemExit('mm_print_slice: string constant with a double quote')
    parts = s.split('\n')
    lits = []
    for i, p in enumerate(parts):
        if i:
            lits.append('nl')
        if p or len(parts) == 1:
            lits.append('"' + p + '"')
    if len(lits) == 1:
        return lits[0]
    return '(' + ' ++ '.join(lits) + ')%string'


# ======================================================================================================== canonicalisation
# Behaviour-preserving idioms are normalised on the Python AST BEFORE translation, so that equivalent sources give the same
# (or zeta/beta-equal) generated text:
#   * docstrings / string-expression statements are dropped;
#   * `return A if c else B`            = `if c: return A` / `else: return B`;
#   * `if not c: X else: Y`, `if not c: return A` + rest   = the branches swapped under `c`;
#   * a call of a private helper (method `self._h(..)`, module-level function) = its body with the parameters substituted
#     (locals renamed apart); a helper with early returns used inside expressions becomes a nested def of the caller;
#   * a `for` over a literal table (class/module constant tuple of tuples) = the unrolled statements;
#   * `for x in IT: acc |= E` / `acc.update(E)` / `acc.extend(E)`  (E not mentioning acc)  and  `acc = acc.union(*(E for x in IT))`
#     = `acc = acc ++ flat_map (fun x => E) IT`;
#   * `{y for x in IT if (y := f(x))}`  = `filter(None, map(f, IT))`.
import copy


class _StripDoc(ast.NodeTransformer):
    def _body(self, body):
        out = [self.visit(x) for x in body]
        out = [x for x in out if not (isinstance(x, ast.Expr) and isinstance(x.value, ast.Constant) and isinstance(x.value.value, str))]
        return out or [ast.Pass()]

    def generic_visit(self, node):
        for f in ('body', 'orelse', 'finalbody'):
            if hasattr(node, f) and isinstance(getattr(node, f), list) and getattr(node, f) and isinstance(getattr(node, f)[0], ast.stmt):
                setattr(node, f, self._body(getattr(node, f)))
        for f, val in ast.iter_fields(node):
            if f in ('body', 'orelse', 'finalbody') and isinstance(val, list) and val and isinstance(val[0], ast.stmt):
                continue
            if isinstance(val, list):
                setattr(node, f, [self.visit(x) if isinstance(x, ast.AST) else x for x in val])
            elif isinstance(val, ast.AST):
                setattr(node, f, self.visit(val))
        return node


def strip_docstrings(tree):
    t = _StripDoc().visit(tree)

    class DropPass(ast.NodeTransformer):
        def visit_Pass(self, node):
            return None
    # a body that became empty keeps one `pass`; other `pass` statements are not in the subset anyway
    return ast.fix_missing_locations(t)


class _Subst(ast.NodeTransformer):
    def __init__(self, mapping):
        self.m = mapping

    def visit_Name(self, node):
        if node.id in self.m and isinstance(node.ctx, ast.Load):
            return copy.deepcopy(self.m[node.id])
        return node


def subst_names(stmts, mapping):
    return [ast.fix_missing_locations(_Subst(mapping).visit(copy.deepcopy(x))) for x in stmts]


class _Rename(ast.NodeTransformer):
    def __init__(self, mapping):
        self.m = mapping

    def visit_Name(self, node):
        if node.id in self.m:
            return ast.copy_location(ast.Name(id=self.m[node.id], ctx=node.ctx), node)
        return node


def stored_names(stmts):
    out = []
    for s in stmts:
        for n in ast.walk(s):
            if isinstance(n, ast.Name) and isinstance(n.ctx, ast.Store) and n.id not in out and n.id != '_':
                out.append(n.id)
    return out


def is_simple_arg(a):
    return isinstance(a, (ast.Name, ast.Constant)) or (isinstance(a, ast.Attribute) and is_simple_arg(a.value))


def swap_nots(stmts):
    """`if not c: A else: B` -> `if c: B else: A`;  `if not c: return X` followed by the rest -> `if c: rest else: return X`;
    `return A if c else B` -> if/else.  Applied recursively."""
    out = []
    i = 0
    stmts = list(stmts)
    while i < len(stmts):
        s = stmts[i]
        if isinstance(s, ast.Return) and isinstance(s.value, ast.IfExp):
            s = ast.If(test=s.value.test, body=[ast.Return(value=s.value.body)], orelse=[ast.Return(value=s.value.orelse)])
        if isinstance(s, ast.If):
            s = ast.If(test=s.test, body=swap_nots(s.body), orelse=swap_nots(s.orelse))
            if isinstance(s.test, ast.UnaryOp) and isinstance(s.test.op, ast.Not):
                ends_with_return = s.body and isinstance(s.body[-1], ast.Return)
                if s.orelse:
                    s = ast.If(test=s.test.operand, body=s.orelse, orelse=s.body)
                elif ends_with_return and i + 1 < len(stmts):
                    rest = swap_nots(stmts[i + 1:])
                    out.append(ast.fix_missing_locations(ast.If(test=s.test.operand, body=rest, orelse=s.body)))
                    return out
        elif isinstance(s, (ast.For, ast.While, ast.With)):
            s = copy.copy(s)
            s.body = swap_nots(s.body)
        elif isinstance(s, ast.FunctionDef):
            s = copy.copy(s)
            s.body = swap_nots(s.body)
        out.append(ast.fix_missing_locations(s) if isinstance(s, ast.AST) else s)
        i += 1
    return out


class _NNF(ast.NodeTransformer):
    """negations pushed inwards: de Morgan, `not (a in b)` = `a not in b`, `not not a` = `a`"""
    def visit_UnaryOp(self, node):
        if isinstance(node.op, ast.Not):
            x = node.operand
            if isinstance(x, ast.BoolOp):
                op = ast.And() if isinstance(x.op, ast.Or) else ast.Or()
                return self.visit(ast.BoolOp(op=op, values=[ast.UnaryOp(op=ast.Not(), operand=v_) for v_ in x.values]))
            if isinstance(x, ast.UnaryOp) and isinstance(x.op, ast.Not):
                return self.visit(x.operand)
            if isinstance(x, ast.Compare) and len(x.ops) == 1:
                flip = {ast.In: ast.NotIn, ast.NotIn: ast.In, ast.Is: ast.IsNot, ast.IsNot: ast.Is, ast.Eq: ast.NotEq, ast.NotEq: ast.Eq}
                for a, b in flip.items():
                    if isinstance(x.ops[0], a):
                        return self.visit(ast.Compare(left=x.left, ops=[b()], comparators=x.comparators))
        return self.generic_visit(node)


def nnf(tree):
    return ast.fix_missing_locations(_NNF().visit(tree))


def literal_table(node):
    """rows of a tuple/list of tuples of Names/Constants, or None"""
    if isinstance(node, (ast.Tuple, ast.List)) and node.elts and all(
            isinstance(r, ast.Tuple) and all(isinstance(c, (ast.Name, ast.Constant)) for c in r.elts) for r in node.elts):
        return [r.elts for r in node.elts]
    return None


# ======================================================================================================== printer
ITER_ELEM = {('Application', 'subterms'): 'term', ('VariableStatement', 'metavariables'): 'mv',
             ('DisjointStatement', 'metavariables'): 'mv', ('StructuredStatement', 'terms'): 'term',
             ('Block', 'statements'): 'stmt', ('Database', 'statements'): 'stmt',
             ('ConstantStatement', 'constants'): 'str'}
KIND_PRED = {'FloatingStatement': 'is_floating', 'EssentialStatement': 'is_essential',
             'AxiomaticStatement': 'is_axiomatic', 'ProvableStatement': 'is_provable'}
# class of the visited object -> (Encoder method, parameter class as the attribute tables know it)
PROXY = {'metavariable': 'Metavariable', 'application': 'Application', 'constant_statement': 'ConstantStatement',
         'variable_statement': 'VariableStatement', 'disjoint_statement': 'DisjointStatement',
         'structured_statement': 'StructuredStatement', 'block': 'Block', 'database': 'Database'}


class Printer:
    def __init__(self, tree):
        self.classes = {n.name: n for n in tree.body if isinstance(n, ast.ClassDef)}
        if 'Encoder' not in self.classes:
            raise SystemExit('mm_print_slice: class Encoder not found in ast.py')
        self.methods = {n.name: n for n in self.classes['Encoder'].body if isinstance(n, ast.FunctionDef)}
        self.cls = None        # class of the current method's parameter
        self.param = None
        self.attr = {}         # attribute of the parameter -> coq variable
        self.types = {}        # local name -> 'term' | 'mv' | 'stmt' | 'str' | 'nat'
        self.alias = {}        # local name -> coq expression (enumerate with a start offset)
        self.defs = {}         # local name -> the Python expression it was bound to (pure; inlined at its uses)
        self.where = ''

    # ---- which Encoder method prints which class (from the classes' own `visit` methods)
    def proxy_of(self, cls):
        seen = set()
        while cls in self.classes and cls not in seen:
            seen.add(cls)
            node = self.classes[cls]
            for m in node.body:
                if isinstance(m, ast.FunctionDef) and m.name == 'visit':
                    body = [s for s in m.body if not (isinstance(s, ast.Expr) and isinstance(s.value, ast.Constant))]
                    if (len(body) == 1 and isinstance(body[0], ast.Return) and isinstance(body[0].value, ast.Call)
                            and isinstance(body[0].value.func, ast.Attribute)
                            and body[0].value.func.attr.startswith('proxy_visit_')
                            and len(body[0].value.args) == 1 and isinstance(body[0].value.args[0], ast.Name)
                            and body[0].value.args[0].id == 'self'):
                        return body[0].value.func.attr[len('proxy_visit_'):]
                    if len(body) == 1 and isinstance(body[0], ast.Raise):
                        break
                    fail(f'{cls}.visit', m, 'visit method is not `return visitor.proxy_visit_X(self)`')
            bases = [b.id for b in node.bases if isinstance(b, ast.Name)]
            cls = bases[0] if bases else None
        raise SystemExit(f'mm_print_slice: no visit method found for class {cls}')

    def method(self, name, cls):
        if name not in self.methods:
            raise SystemExit(f'mm_print_slice: Encoder.{name} not found')
        m = self.methods[name]
        args = [a.arg for a in m.args.args]
        if any(isinstance(d, ast.Name) and d.id == 'staticmethod' for d in m.decorator_list):
            args = ['self'] + args                 # a static method: no receiver
        if len(args) != 2 or args[0] != 'self' or m.args.vararg or m.args.kwarg or m.args.kwonlyargs or m.args.defaults:
            fail(f'Encoder.{name}', m, 'signature is not (self, node)')
        self.cls, self.param, self.where = cls, args[1], f'Encoder.{name}'
        self.types = {}
        self.defs = {}
        return m

    # ---- expressions
    def expr(self, n):
        if isinstance(n, ast.Constant):
            if isinstance(n.value, str):
                return coq_str(n.value)
            if isinstance(n.value, int) and not isinstance(n.value, bool) and 0 <= n.value < 1000:
                return str(n.value)
            fail(self.where, n, 'constant outside the subset')
        if isinstance(n, ast.Name):
            if n.id in self.defs:
                return self.expr(self.defs[n.id])
            if n.id in self.alias:
                return self.alias[n.id]
            if n.id in self.types:
                return v(n.id)
            fail(self.where, n, 'unknown name')
        if isinstance(n, ast.Attribute) and isinstance(n.value, ast.Name):
            if n.value.id == self.param:
                if n.attr in self.attr:
                    return self.attr[n.attr]
                fail(self.where, n, f'attribute of {self.cls} outside the subset')
            if n.value.id == 'self' and n.attr == 'omit_proof':
                return 'omit_proof'
            if self.types.get(n.value.id) == 'mv' and n.attr == 'name':
                return v(n.value.id)
        if isinstance(n, ast.Call) and isinstance(n.func, ast.Name) and n.func.id == 'len' and len(n.args) == 1 and not n.keywords:
            return f'(List.length {self.expr(n.args[0])})'
        if isinstance(n, ast.Call) and isinstance(n.func, ast.Name) and n.func.id == 'isinstance' and len(n.args) == 2 \
                and isinstance(n.args[0], ast.Name) and n.args[0].id == self.param and self.cls == 'StructuredStatement' \
                and isinstance(n.args[1], ast.Name) and n.args[1].id in KIND_PRED:
            return f'({KIND_PRED[n.args[1].id]} kind)'
        if isinstance(n, ast.Call) and isinstance(n.func, ast.Attribute) and isinstance(n.func.value, ast.Name) \
                and n.func.value.id == 'self' and n.func.attr == 'get_statement_type' and len(n.args) == 1 \
                and isinstance(n.args[0], ast.Name) and n.args[0].id == self.param and self.cls == 'StructuredStatement':
            return '(get_statement_type kind)'
        if isinstance(n, ast.BinOp) and isinstance(n.op, ast.Add):
            return f'({self.expr(n.left)} + {self.expr(n.right)})'
        if isinstance(n, ast.BinOp) and isinstance(n.op, ast.Sub):
            # only used as `len(xs) - k` compared with an index of a loop over xs (never evaluated for an empty xs)
            return f'({self.expr(n.left)} - {self.expr(n.right)})'
        if isinstance(n, ast.Compare) and len(n.ops) == 1:
            a, b = self.expr(n.left), self.expr(n.comparators[0])
            if isinstance(n.ops[0], ast.Eq):
                return f'(Nat.eqb {a} {b})'
            if isinstance(n.ops[0], ast.NotEq):
                return f'(negb (Nat.eqb {a} {b}))'
        if isinstance(n, ast.UnaryOp) and isinstance(n.op, ast.Not):
            return f'(negb {self.cond(n.operand)})'
        fail(self.where, n, 'expression outside the subset')

    def cond(self, n):
        """a test: str truthiness of an attribute, a bool flag, or a comparison"""
        if isinstance(n, ast.Attribute) and isinstance(n.value, ast.Name) and n.value.id == self.param and n.attr == 'label':
            return f'(nonempty_str {self.expr(n)})'
        return self.expr(n)

    # ---- statements -> list piece
    def stmts(self, body):
        out = []
        body = list(body)
        if body and isinstance(body[-1], ast.Return) and body[-1].value is None:
            body = body[:-1]                              # a trailing bare `return`
        for i, s in enumerate(body):
            # `if c: A; return` followed by the rest  =  `if c: A else: rest`
            if isinstance(s, ast.If) and not s.orelse and s.body and isinstance(s.body[-1], ast.Return) and s.body[-1].value is None:
                saved = dict(self.defs)
                then = self.stmts(s.body[:-1])
                self.defs = dict(saved)
                els = self.stmts(body[i + 1:])
                self.defs = saved
                out.append(f'(if {self.cond(s.test)} then {then} else {els})')
                break
            out.append(self.stmt(s))
        out = [o for o in out if o is not None]
        if not out:
            return '[]'
        return '(' + ' ++ '.join(out) + ')%list' if len(out) > 1 else out[0]

    def helper_body(self, call):
        """body of the private helper method `self._h(args)` with its parameters substituted by the arguments"""
        name = call.func.attr
        m = self.methods[name]
        params = [a.arg for a in m.args.args][1:]
        if call.keywords or len(params) != len(call.args) or m.args.vararg or m.args.kwarg or m.args.kwonlyargs or m.args.defaults \
                or not all(is_simple_arg(a) for a in call.args):
            fail(self.where, call, 'helper call outside the subset')
        if any(isinstance(n, ast.Return) for x in m.body for n in ast.walk(x)):
            fail(self.where, call, 'helper method with a return')
        if set(stored_names(m.body)) & set(self.types):
            fail(self.where, call, 'helper local would capture a loop variable')
        return subst_names(m.body, dict(zip(params, call.args)))

    def stmt(self, s):
        if isinstance(s, ast.Pass):
            return None
        if isinstance(s, (ast.Assign, ast.AnnAssign)) and s.value is not None:
            t = s.targets[0] if isinstance(s, ast.Assign) and len(s.targets) == 1 else (s.target if isinstance(s, ast.AnnAssign) else None)
            if isinstance(t, ast.Name) and t.id not in self.types and t.id != self.param and t.id not in self.defs:
                # a pure local bound once: inlined at its uses (the expression is checked when it is used)
                self.defs[t.id] = s.value
                return None
            fail(self.where, s, 'assignment outside the subset')
        if isinstance(s, ast.Expr) and isinstance(s.value, ast.Constant) and isinstance(s.value.value, str):
            return None                                                   # docstring
        if isinstance(s, ast.Expr) and isinstance(s.value, ast.Call) and isinstance(s.value.func, ast.Attribute) \
                and isinstance(s.value.func.value, ast.Name) and s.value.func.value.id == 'self' \
                and s.value.func.attr.startswith('_') and s.value.func.attr in self.methods:
            return self.stmts(self.helper_body(s.value))
        if isinstance(s, ast.Expr) and isinstance(s.value, ast.Call) and isinstance(s.value.func, ast.Attribute) \
                and isinstance(s.value.func.value, ast.Name) and s.value.func.value.id == 'self' \
                and len(s.value.args) == 1 and not s.value.keywords:
            a = s.value.args[0]
            while isinstance(a, ast.Name) and a.id in self.defs:
                a = self.defs[a.id]
            if s.value.func.attr == 'write' and isinstance(a, ast.IfExp):
                # self.write(A if c else B)  =  if c: self.write(A) else: self.write(B)
                mk = lambda x: ast.Expr(value=ast.Call(func=s.value.func, args=[x], keywords=[]))  # noqa: E731
                return self.stmt(ast.fix_missing_locations(ast.If(test=a.test, body=[mk(a.body)], orelse=[mk(a.orelse)])))
            if s.value.func.attr == 'write':
                if isinstance(a, ast.Constant) and isinstance(a.value, str):
                    return f'[W {coq_str(a.value)}]'
                if isinstance(a, ast.Call):
                    return f'[W {self.expr(a)}]'
                if isinstance(a, ast.Attribute) and isinstance(a.value, ast.Name) and a.value.id == self.param and a.attr == 'proof':
                    return f'[PF {self.expr(a)}]'
                return f'[T {self.expr(a)}]'
            if s.value.func.attr == 'visit':
                if not isinstance(a, ast.Name) or a.id not in self.types:
                    fail(self.where, s, 'visit of something that is not a loop variable')
                t = self.types[a.id]
                if t == 'term':
                    return f'encode_term {v(a.id)}'
                if t == 'mv':
                    return f'postvisit_metavariable {v(a.id)}'
                if t == 'stmt':
                    return f'encode_stmt omit_proof {v(a.id)}'
                fail(self.where, s, f'visit of a {t}')
        if isinstance(s, ast.For) and not s.orelse:
            it = s.iter
            idx = None
            start = 0
            if isinstance(it, ast.Call) and isinstance(it.func, ast.Name) and it.func.id == 'enumerate' and len(it.args) in (1, 2) \
                    and all(k.arg == 'start' for k in it.keywords) and len(it.args) + len(it.keywords) <= 2:
                if not (isinstance(s.target, ast.Tuple) and len(s.target.elts) == 2 and all(isinstance(e, ast.Name) for e in s.target.elts)):
                    fail(self.where, s, 'enumerate loop target')
                idx, var = s.target.elts[0].id, s.target.elts[1].id
                sv = it.args[1] if len(it.args) == 2 else (it.keywords[0].value if it.keywords else None)
                if sv is not None:
                    if not (isinstance(sv, ast.Constant) and isinstance(sv.value, int) and 0 <= sv.value < 100):
                        fail(self.where, it, 'enumerate start outside the subset')
                    start = sv.value
                it = it.args[0]
            elif isinstance(s.target, ast.Name):
                var = s.target.id
            else:
                fail(self.where, s, 'loop target')
            if not (isinstance(it, ast.Attribute) and isinstance(it.value, ast.Name) and it.value.id == self.param
                    and (self.cls, it.attr) in ITER_ELEM):
                fail(self.where, it, 'loop iterable is not a tuple attribute of the node')
            saved = dict(self.types)
            self.types[var] = ITER_ELEM[(self.cls, it.attr)]
            if idx:
                self.types[idx] = 'nat'
                if start:
                    self.alias[idx] = f'({v(idx)} + {start})'     # the loop variable counts from `start`
            body = self.stmts(s.body)
            self.alias.pop(idx, None)
            self.types = saved
            if idx:
                return f'flat_mapi (fun {v(idx)} {v(var)} => {body}) {self.expr(it)}'
            return f'flat_map (fun {v(var)} => {body}) {self.expr(it)}'
        if isinstance(s, ast.If):
            t = s.test
            if isinstance(t, ast.Compare) and len(t.ops) == 1 and isinstance(t.ops[0], (ast.IsNot, ast.Is)) \
                    and isinstance(t.comparators[0], ast.Constant) and t.comparators[0].value is None \
                    and isinstance(t.left, ast.Attribute) and isinstance(t.left.value, ast.Name) \
                    and t.left.value.id == self.param and t.left.attr == 'proof':
                old = self.attr['proof']
                self.attr['proof'] = 'proof_value'
                some = self.stmts(s.body if isinstance(t.ops[0], ast.IsNot) else s.orelse)
                self.attr['proof'] = old
                none = self.stmts(s.orelse if isinstance(t.ops[0], ast.IsNot) else s.body)
                return f'(match {old} with Some proof_value => {some} | None => {none} end)'
            return f'(if {self.cond(t)} then {self.stmts(s.body)} else {self.stmts(s.orelse)})'
        if isinstance(s, ast.Assert) and isinstance(s.test, ast.Call) and isinstance(s.test.func, ast.Name) \
                and s.test.func.id == 'isinstance' and isinstance(s.test.args[1], ast.Name) and s.test.args[1].id == 'Term' \
                and isinstance(s.test.args[0], ast.Name) and self.types.get(s.test.args[0].id) == 'term':
            return None                                                   # always true of a term
        if isinstance(s, ast.With) and len(s.items) == 1 and s.items[0].optional_vars is None \
                and ast.unparse(s.items[0].context_expr) == 'self.indentation()':
            return self.stmts(s.body)
        fail(self.where, s, 'statement outside the subset')

    def class_constant(self, name):
        for n in self.classes['Encoder'].body:
            t = n.targets[0] if isinstance(n, ast.Assign) and len(n.targets) == 1 else (n.target if isinstance(n, ast.AnnAssign) else None)
            if isinstance(t, ast.Name) and t.id == name and n.value is not None:
                return n.value
        return None

    def fexpr(self, body):
        """statements that decide a constant: if/elif/else, early returns, a loop over a literal class-level table"""
        body = [x for x in body if not isinstance(x, ast.Pass)]
        if not body:
            fail(self.where, self.methods['get_statement_type'], 'falls off the end')
        s, rest = body[0], body[1:]
        if isinstance(s, ast.Return) and not rest:
            return self.expr(s.value)
        if isinstance(s, ast.If):
            if s.orelse and not rest:
                return f'(if {self.cond(s.test)} then {self.fexpr(s.body)} else {self.fexpr(s.orelse)})'
            if not s.orelse and rest and isinstance(s.body[-1], ast.Return):
                return f'(if {self.cond(s.test)} then {self.fexpr(s.body)} else {self.fexpr(rest)})'
        if isinstance(s, ast.For) and not s.orelse and isinstance(s.iter, ast.Attribute) and isinstance(s.iter.value, ast.Name) \
                and s.iter.value.id == 'self' and isinstance(s.target, ast.Tuple) and all(isinstance(e, ast.Name) for e in s.target.elts):
            rows = literal_table(self.class_constant(s.iter.attr))
            if rows is None or any(len(r) != len(s.target.elts) for r in rows):
                fail(self.where, s, 'loop over something that is not a literal class-level table')
            unrolled = []
            for r in rows:
                unrolled += subst_names(s.body, {t.id: c for t, c in zip(s.target.elts, r)})
            return self.fexpr(unrolled + rest)
        fail(self.where, s, 'get_statement_type is not a chain of tests returning constants')

    def generate(self):
        out = []
        # which method prints which class
        disp = {}
        for cls in ('Metavariable', 'Application', 'ConstantStatement', 'VariableStatement', 'DisjointStatement',
                    'FloatingStatement', 'EssentialStatement', 'AxiomaticStatement', 'ProvableStatement', 'Block', 'Database'):
            disp[cls] = self.proxy_of(cls)
        want = {'Metavariable': 'metavariable', 'Application': 'application', 'ConstantStatement': 'constant_statement',
                'VariableStatement': 'variable_statement', 'DisjointStatement': 'disjoint_statement',
                'FloatingStatement': 'structured_statement', 'EssentialStatement': 'structured_statement',
                'AxiomaticStatement': 'structured_statement', 'ProvableStatement': 'structured_statement',
                'Block': 'block', 'Database': 'database'}
        if disp != want:
            raise SystemExit(f'mm_print_slice: visit dispatch changed: {disp}')
        init = self.methods.get('__init__')
        if init is None or [ast.unparse(d) for d in init.args.defaults][-1:] != ['False'] or init.args.args[-1].arg != 'omit_proof':
            raise SystemExit('mm_print_slice: Encoder.__init__ default omit_proof=False not found')

        m = self.method('postvisit_metavariable', 'Metavariable')
        self.attr = {'name': 'name'}
        out.append(f'Definition postvisit_metavariable (name : string) : list piece :=\n  {self.stmts(m.body)}.')

        m = self.method('postvisit_application', 'Application')
        self.attr = {'symbol': 'symbol', 'subterms': 'subterms'}
        out.append('Fixpoint encode_term (t : term) : list piece :=\n  match t with\n  | MV name => postvisit_metavariable name\n'
                   f'  | App symbol subterms =>\n      {self.stmts(m.body)}\n  end.')

        m = self.method('get_statement_type', 'StructuredStatement')
        self.attr = {}
        out.append(f'Definition get_statement_type (kind : skind) : string :=\n  {self.fexpr(m.body)}.')

        m = self.method('postvisit_structured_statement', 'StructuredStatement')
        self.attr = {'label': 'label', 'terms': 'terms', 'proof': 'proof'}
        out.append('Definition postvisit_structured_statement (omit_proof : bool) (kind : skind) (label : string) '
                   f'(terms : list term) (proof : option (list string)) : list piece :=\n  {self.stmts(m.body)}.')

        branches = []
        for ctor, name, cls, attr in (('SC constants', 'postvisit_constant_statement', 'ConstantStatement', {'constants': 'constants'}),
                                      ('SV metavariables', 'postvisit_variable_statement', 'VariableStatement', {'metavariables': 'metavariables'}),
                                      ('SD metavariables', 'postvisit_disjoint_statement', 'DisjointStatement', {'metavariables': 'metavariables'})):
            m = self.method(name, cls)
            self.attr = attr
            branches.append(f'  | {ctor} =>\n      {self.stmts(m.body)}')
        branches.append('  | SF label ty var => postvisit_structured_statement omit_proof KindF label [App ty []; MV var] None')
        branches.append('  | SE label terms => postvisit_structured_statement omit_proof KindE label terms None')
        branches.append('  | SA label terms => postvisit_structured_statement omit_proof KindA label terms None')
        branches.append('  | SP label terms proof => postvisit_structured_statement omit_proof KindP label terms proof')
        m = self.method('postvisit_block', 'Block')
        self.attr = {'statements': 'statements'}
        branches.append(f'  | SB statements =>\n      {self.stmts(m.body)}')
        out.append('Fixpoint encode_stmt (omit_proof : bool) (s : stmt) {struct s} : list piece :=\n  match s with\n' + '\n'.join(branches) + '\n  end.')

        m = self.method('postvisit_database', 'Database')
        self.attr = {'statements': 'statements'}
        out.append(f'Definition encode_database (omit_proof : bool) (statements : database) : list piece :=\n  {self.stmts(m.body)}.')
        return '\n\n'.join(out)


# ======================================================================================================== get_metavariables
class Metavars:
    """the `get_metavariables` methods of the AST classes (ast.py): `return {self.name}`, `return set()`,
    `return {v.name for v in self.metavariables}`, and the accumulate loops
        acc = set()
        for x in self.ATTR: [if isinstance(x, (C1, ..)):] acc.update(x.get_metavariables())
        return acc"""
    ELEM = {('Application', 'subterms'): 'term', ('StructuredStatement', 'terms'): 'term', ('Block', 'statements'): 'stmt'}
    ISA = {'StructuredStatement': 'is_SF_b {x} || is_SE_b {x} || is_SA_b {x} || is_SP_b {x}', 'Block': 'is_SB_b {x}',
           'DisjointStatement': 'is_SD_b {x}', 'ConstantStatement': 'is_SC_b {x}', 'VariableStatement': 'is_SV_b {x}',
           'FloatingStatement': 'is_SF_b {x}', 'EssentialStatement': 'is_SE_b {x}', 'AxiomaticStatement': 'is_SA_b {x}',
           'ProvableStatement': 'is_SP_b {x}'}

    def __init__(self, tree):
        self.classes = {n.name: n for n in tree.body if isinstance(n, ast.ClassDef)}
        self.funcs = {n.name: n for n in tree.body if isinstance(n, ast.FunctionDef)}

    def find(self, cls):
        seen = set()
        c = cls
        while c in self.classes and c not in seen:
            seen.add(c)
            for m in self.classes[c].body:
                if isinstance(m, ast.FunctionDef) and m.name == 'get_metavariables':
                    if any(isinstance(x, ast.Raise) for x in m.body):
                        break
                    return c, m
            bases = [b.id for b in self.classes[c].bases if isinstance(b, ast.Name)]
            c = bases[0] if bases else None
        raise SystemExit(f'mm_print_slice: no get_metavariables for class {cls}')

    def body(self, cls, attr):
        owner, m = self.find(cls)
        where = f'{owner}.get_metavariables'
        if [a.arg for a in m.args.args] != ['self']:
            fail(where, m, 'signature')
        b = [x for x in m.body if not (isinstance(x, ast.Expr) and isinstance(x.value, ast.Constant)) and not isinstance(x, ast.Pass)]
        # `return helper(self.attr)`: the module-level helper's body with its parameter substituted
        if len(b) == 1 and isinstance(b[0], ast.Return) and isinstance(b[0].value, ast.Call) and isinstance(b[0].value.func, ast.Name) \
                and b[0].value.func.id in self.funcs and not b[0].value.keywords:
            h = self.funcs[b[0].value.func.id]
            ps = [a.arg for a in h.args.args]
            if len(ps) != len(b[0].value.args) or not all(is_simple_arg(a) for a in b[0].value.args) or h.args.defaults:
                fail(where, b[0], 'helper call outside the subset')
            b = subst_names([x for x in h.body if not isinstance(x, ast.Pass)], dict(zip(ps, b[0].value.args)))
        if len(b) == 1 and isinstance(b[0], ast.Return):
            r = b[0].value
            if isinstance(r, ast.Call) and isinstance(r.func, ast.Name) and r.func.id == 'set' and not r.args:
                return '[]'
            if isinstance(r, ast.Set) and len(r.elts) == 1 and ast.unparse(r.elts[0]) == 'self.name' and 'name' in attr:
                return f'[{attr["name"]}]'
            if isinstance(r, ast.SetComp) and len(r.generators) == 1 and not r.generators[0].ifs \
                    and isinstance(r.generators[0].target, ast.Name) \
                    and ast.unparse(r.generators[0].iter) == 'self.metavariables' and 'metavariables' in attr \
                    and ast.unparse(r.elt) == r.generators[0].target.id + '.name':
                return f'(map (fun {v(r.generators[0].target.id)} => mv_name {v(r.generators[0].target.id)}) {attr["metavariables"]})'
            fail(where, r, 'return expression outside the subset')
        if len(b) == 3 and isinstance(b[0], ast.AnnAssign) and b[0].value is not None and isinstance(b[0].target, ast.Name):
            b = [ast.Assign(targets=[b[0].target], value=b[0].value)] + b[1:]
        if len(b) == 3 and isinstance(b[0], ast.Assign) and isinstance(b[0].targets[0], ast.Name) \
                and ast.unparse(b[0].value) == 'set()' and isinstance(b[1], ast.For) and not b[1].orelse \
                and isinstance(b[1].target, ast.Name) and isinstance(b[2], ast.Return) \
                and isinstance(b[2].value, ast.Name) and b[2].value.id == b[0].targets[0].id:
            acc, x, it = b[0].targets[0].id, b[1].target.id, b[1].iter
            if not (isinstance(it, ast.Attribute) and isinstance(it.value, ast.Name) and it.value.id == 'self'
                    and (owner, it.attr) in self.ELEM and it.attr in attr):
                fail(where, it, 'loop iterable outside the subset')
            rec = 'term_get_metavariables' if self.ELEM[(owner, it.attr)] == 'term' else 'get_metavariables'
            inner = b[1].body
            guard = None
            if len(inner) == 1 and isinstance(inner[0], ast.If) and not inner[0].orelse:
                t = inner[0].test
                if not (isinstance(t, ast.Call) and isinstance(t.func, ast.Name) and t.func.id == 'isinstance' and len(t.args) == 2
                        and isinstance(t.args[0], ast.Name) and t.args[0].id == x):
                    fail(where, t, 'loop guard outside the subset')
                cs = t.args[1].elts if isinstance(t.args[1], ast.Tuple) else [t.args[1]]
                if not all(isinstance(c, ast.Name) and c.id in self.ISA for c in cs):
                    fail(where, t, 'isinstance class outside the subset')
                guard = '(' + ' || '.join(self.ISA[c.id].format(x=v(x)) for c in cs) + ')'
                inner = inner[0].body
            if not (len(inner) == 1 and isinstance(inner[0], ast.Expr)
                    and ast.unparse(inner[0].value) == f'{acc}.update({x}.get_metavariables())'):
                fail(where, b[1], 'loop body is not `acc.update(x.get_metavariables())`')
            call = f'{rec} {v(x)}'
            if guard:
                call = f'(if {guard} then {call} else [])'
            return f'(flat_map (fun {v(x)} => {call}) {attr[it.attr]})'
        fail(where, m, 'method body outside the subset')

    def generate(self):
        out = ['Fixpoint term_get_metavariables (t : term) : list string :=\n  match t with\n'
               f'  | MV name => {self.body("Metavariable", {"name": "name"})}\n'
               f'  | App symbol subterms => {self.body("Application", {"subterms": "subterms"})}\n  end.']
        st = self.body  # noqa
        out.append('Fixpoint get_metavariables (s : stmt) : list string :=\n  match s with\n'
                   f'  | SC constants => {st("ConstantStatement", {})}\n'
                   f'  | SV metavariables => {st("VariableStatement", {})}\n'
                   f'  | SD metavariables => {st("DisjointStatement", {"metavariables": "metavariables"})}\n'
                   f'  | SF label ty var => {st("FloatingStatement", {"terms": "[App ty []; MV var]"})}\n'
                   f'  | SE label terms => {st("EssentialStatement", {"terms": "terms"})}\n'
                   f'  | SA label terms => {st("AxiomaticStatement", {"terms": "terms"})}\n'
                   f'  | SP label terms proof => {st("ProvableStatement", {"terms": "terms"})}\n'
                   f'  | SB statements => {st("Block", {"statements": "statements"})}\n  end.')
        return '\n\n'.join(out)


# ======================================================================================================== slicer
FALLIBLE_CALLS = {'deconstruct_compressed_proof', 'statements_get_constants', 'deconstruct_provable',
                  'supporting_database_for_provable'}
PURE_CALLS = {'construct_axiom': 'construct_axiom', 'match_axiom': 'match_axiom'}
ISINST = {'ConstantStatement': 'is_SC_b', 'VariableStatement': 'is_SV_b', 'DisjointStatement': 'is_SD_b',
          'FloatingStatement': 'is_SF_b', 'EssentialStatement': 'is_SE_b', 'AxiomaticStatement': 'is_SA_b',
          'ProvableStatement': 'is_SP_b', 'Block': 'is_SB_b'}
CTORS = {'ConstantStatement': ('SC', 1), 'VariableStatement': ('SV', 1), 'DisjointStatement': ('SD', 1),
         'AxiomaticStatement': ('SA', 2), 'Block': ('SB', 1), 'Metavariable': ('mk_mv', 1)}
ATTRS = {'label': 'st_label', 'terms': 'st_terms', 'metavariables': 'sd_vars', 'metavariable': 'sf_var',
         'statements': 'sb_stmts', 'name': 'mv_name'}


def tup(names):
    names = list(names)
    if len(names) == 1:
        return names[0]
    return "'(" + ', '.join(names) + ')'


def tupv(names):
    names = list(names)
    if len(names) == 1:
        return names[0]
    return '(' + ', '.join(names) + ')'


class Slicer:
    def __init__(self, tree):
        self.funcs = {n.name: n for n in tree.body if isinstance(n, ast.FunctionDef)}
        # two-field NamedTuple classes are pairs: class name -> [field0, field1]
        self.ntuples = {}
        for n in tree.body:
            if isinstance(n, ast.ClassDef) and any(isinstance(b, ast.Name) and b.id == 'NamedTuple' for b in n.bases):
                fields = [x.target.id for x in n.body if isinstance(x, ast.AnnAssign) and isinstance(x.target, ast.Name) and x.value is None]
                if len(fields) == 2:
                    self.ntuples[n.name] = fields
        self.nt_field = {}
        for fields in self.ntuples.values():
            for i, fld in enumerate(fields):
                if fld in ATTRS or self.nt_field.get(fld, i) != i:
                    raise SystemExit(f'mm_print_slice: NamedTuple field {fld} is ambiguous')
                self.nt_field[fld] = i
        self.dicts = set()      # names known to hold the dictionary (for `key in d`)
        self.where = ''
        self.fresh = 0
        self.pre = []           # pending (var, option-valued coq expr) bindings of fallible sub-expressions
        self.okeys = set()      # names bound to dictionary keys (option string)
        self.dbparams = set()   # parameters of type Database (`.statements` is the identity)
        self.locals = set()
        self.maxiom_label = {}  # name bound by `:= match_axiom(..)` -> coq variable holding its label
        self.anon = set()       # locals holding a formatted `$...` key (an anonymous dictionary entry)
        self.pure = False       # translating a function that cannot raise: `return E` is E, not Some E

    def new(self, base='t'):
        self.fresh += 1
        return f'{base}__{self.fresh}'

    # ---- expressions (pure coq expr; fallible parts are hoisted into self.pre)
    def expr(self, n):
        if isinstance(n, ast.Constant):
            if isinstance(n.value, str):
                return coq_str(n.value)
            if isinstance(n.value, int) and not isinstance(n.value, bool) and 0 <= n.value < 1000:
                return str(n.value)
            if n.value is None:
                return 'None'
            fail(self.where, n, 'constant outside the subset')
        if isinstance(n, ast.Name):
            if n.id in self.locals:
                return v(n.id)
            fail(self.where, n, 'unknown name')
        if isinstance(n, ast.Attribute):
            if isinstance(n.value, ast.Name) and n.value.id in self.maxiom_label and n.attr == 'label':
                return self.maxiom_label[n.value.id]
            if isinstance(n.value, ast.Name) and n.value.id in self.dbparams and n.attr == 'statements':
                return v(n.value.id)
            if n.attr in ATTRS:
                return f'({ATTRS[n.attr]} {self.expr(n.value)})'
            if n.attr in self.nt_field:
                return f'({("fst", "snd")[self.nt_field[n.attr]]} {self.expr(n.value)})'
            fail(self.where, n, 'attribute outside the subset')
        if isinstance(n, (ast.Tuple, ast.List)):
            return self.seq(n)
        if isinstance(n, ast.Call):
            return self.call(n)
        if isinstance(n, (ast.GeneratorExp, ast.ListComp, ast.SetComp)):
            return self.comp(n)
        if isinstance(n, ast.Subscript):
            if isinstance(n.slice, ast.Slice):
                lo, hi = n.slice.lower, n.slice.upper
                if n.slice.step is None and hi is not None and isinstance(hi, ast.UnaryOp) and isinstance(hi.op, ast.USub):
                    if lo is None and isinstance(hi.operand, ast.Constant) and hi.operand.value == 1:
                        return f'(removelast {self.expr(n.value)})'
                    if isinstance(lo, ast.Constant) and lo.value == 0:
                        return f'(py_drop_last {self.expr(n.value)} {self.expr(hi.operand)})'
                fail(self.where, n, 'slice outside the subset')
            if isinstance(n.slice, ast.UnaryOp) and isinstance(n.slice.op, ast.USub) and isinstance(n.slice.operand, ast.Constant) \
                    and n.slice.operand.value == 1:
                return f'(py_last {self.expr(n.value)})'
            # dictionary lookup: KeyError = None
            t = self.new()
            self.pre.append((t, f'dict_get {self.expr(n.slice)} {self.expr(n.value)}'))
            return t
        if isinstance(n, ast.BinOp) and isinstance(n.op, ast.Add):
            if any(isinstance(x, ast.Constant) and isinstance(x.value, str) for x in (n.left, n.right)):
                return f'(String.append {self.expr(n.left)} {self.expr(n.right)})'
            return f'({self.expr(n.left)} + {self.expr(n.right)})'
        if isinstance(n, ast.BoolOp):
            op = ' && ' if isinstance(n.op, ast.And) else ' || '
            return '(' + op.join(self.expr(x) for x in n.values) + ')'
        if isinstance(n, ast.UnaryOp) and isinstance(n.op, ast.Not):
            return f'(negb {self.expr(n.operand)})'
        if isinstance(n, ast.Compare) and len(n.ops) == 1:
            op, l, r = n.ops[0], n.left, n.comparators[0]
            if isinstance(op, (ast.In, ast.NotIn)):
                if isinstance(r, ast.Name) and r.id in self.dicts:
                    e = f'(dict_has {self.expr(l)} {self.expr(r)})'
                elif isinstance(r, ast.Call) and isinstance(r.func, ast.Attribute) and r.func.attr == 'keys' and not r.args:
                    e = f'(dict_has {self.expr(l)} {self.expr(r.func.value)})'
                elif isinstance(l, ast.Name) and l.id in self.okeys:
                    e = f'(okey_in {self.expr(l)} {self.expr(r)})'
                else:
                    e = f'(mem {self.expr(l)} {self.expr(r)})'
                return e if isinstance(op, ast.In) else f'(negb {e})'
            if isinstance(op, ast.GtE):
                return f'(Nat.leb {self.expr(r)} {self.expr(l)})'
            if isinstance(op, ast.Eq):
                return f'(Nat.eqb {self.expr(l)} {self.expr(r)})'
        fail(self.where, n, 'expression outside the subset')

    def seq(self, n):
        """tuple display as a list: starred parts are appended"""
        if not n.elts:
            return '[]'
        parts = []
        for e in n.elts:
            if isinstance(e, ast.Starred):
                parts.append(self.expr(e.value))
            else:
                parts.append(f'[{self.expr(e)}]')
        return '(' + ' ++ '.join(parts) + ')%list' if len(parts) > 1 else parts[0]

    def pair(self, n):
        if isinstance(n, ast.Tuple) and len(n.elts) == 2 and not any(isinstance(e, ast.Starred) for e in n.elts):
            return f'({self.expr(n.elts[0])}, {self.expr(n.elts[1])})'
        fail(self.where, n, 'a 2-tuple was expected')

    def comp(self, n):
        if len(n.generators) != 1 or n.generators[0].is_async or not isinstance(n.generators[0].target, ast.Name):
            fail(self.where, n, 'comprehension outside the subset')
        g = n.generators[0]
        # {y for x in IT if (y := f(x))}  =  filter(None, map(f, IT))
        if len(g.ifs) == 1 and isinstance(g.ifs[0], ast.NamedExpr) and isinstance(n.elt, ast.Name) \
                and n.elt.id == g.ifs[0].target.id:
            return f'(py_filter_none {self.map_call(g.target.id, g.ifs[0].value, g.iter)})'
        it = self.expr(g.iter)
        x = g.target.id
        had = x in self.locals
        self.locals.add(x)
        saved, self.pre = self.pre, []
        for c in g.ifs:
            it = f'(filter (fun {v(x)} => {self.expr(c)}) {it})'
        if self.pre:
            fail(self.where, n, 'fallible expression in a comprehension condition')
        elt = self.expr(n.elt)
        inner, self.pre = self.pre, saved
        if not had:
            self.locals.discard(x)
        if inner:
            if len(inner) != 1 or inner[0][0] != elt:
                fail(self.where, n, 'fallible comprehension element outside the subset')
            t = self.new()
            self.pre.append((t, f'map_opt (fun {v(x)} => {inner[0][1]}) {it}'))
            return t
        if elt == v(x):
            return it
        return f'(map (fun {v(x)} => {elt}) {it})'

    def map_call(self, x, body, it):
        """map (fun x => body) it, eta-reduced when body is `f(x)`"""
        itc = self.expr(it)
        if isinstance(body, ast.Call) and isinstance(body.func, ast.Name) and body.func.id in self.locals and not body.keywords \
                and len(body.args) == 1 and isinstance(body.args[0], ast.Name) and body.args[0].id == x:
            return f'(map {v(body.func.id)} {itc})'
        had = x in self.locals
        self.locals.add(x)
        saved, self.pre = self.pre, []
        b = self.expr(body)
        if self.pre:
            fail(self.where, body, 'fallible expression in a mapped function')
        self.pre = saved
        if not had:
            self.locals.discard(x)
        return f'(map (fun {v(x)} => {b}) {itc})'

    def flat_map_of(self, x, body, it):
        itc = self.expr(it)
        had = x in self.locals
        self.locals.add(x)
        saved, self.pre = self.pre, []
        b = self.expr(body)
        if self.pre:
            fail(self.where, body, 'fallible expression in a flat-mapped function')
        self.pre = saved
        if not had:
            self.locals.discard(x)
        return f'(flat_map (fun {v(x)} => {b}) {itc})'

    def call(self, n):
        f = n.func
        if isinstance(f, ast.Name) and f.id in self.ntuples:
            fields = self.ntuples[f.id]
            vals = dict(zip(fields, n.args))
            for k in n.keywords:
                if k.arg not in fields or k.arg in vals:
                    fail(self.where, n, 'NamedTuple construction outside the subset')
                vals[k.arg] = k.value
            if set(vals) != set(fields):
                fail(self.where, n, 'NamedTuple construction outside the subset')
            return f'({self.expr(vals[fields[0]])}, {self.expr(vals[fields[1]])})'
        if n.keywords:
            fail(self.where, n, 'keyword arguments')
        # X.union(*(E for x in IT))  =  X ++ flat_map (fun x => E) IT
        if isinstance(f, ast.Attribute) and f.attr == 'union' and len(n.args) == 1 and isinstance(n.args[0], ast.Starred) \
                and isinstance(n.args[0].value, (ast.GeneratorExp, ast.ListComp)) and len(n.args[0].value.generators) == 1 \
                and not n.args[0].value.generators[0].ifs and isinstance(n.args[0].value.generators[0].target, ast.Name):
            g = n.args[0].value.generators[0]
            return f'({self.expr(f.value)} ++ {self.flat_map_of(g.target.id, n.args[0].value.elt, g.iter)})%list'
        if isinstance(f, ast.Name):
            a = n.args
            if f.id == 'isinstance' and len(a) == 2:
                cs = a[1].elts if isinstance(a[1], ast.Tuple) else [a[1]]
                if not all(isinstance(c, ast.Name) and c.id in ISINST for c in cs):
                    fail(self.where, n, 'isinstance class outside the subset')
                x = self.expr(a[0])
                return '(' + ' || '.join(f'{ISINST[c.id]} {x}' for c in cs) + ')'
            if f.id in ('frozenset', 'tuple', 'list') and len(a) == 1:
                return self.expr(a[0])
            if f.id in ('set', 'frozenset') and not a:
                return '[]'
            if f.id == 'filter' and len(a) == 2 and isinstance(a[0], ast.Constant) and a[0].value is None:
                return f'(py_filter_none {self.expr(a[1])})'
            if f.id == 'map' and len(a) == 2:
                return f'(map {self.expr(a[0])} {self.expr(a[1])})'
            if f.id == 'sorted' and len(a) == 1:
                return f'(py_sorted {self.expr(a[0])})'
            if f.id == 'len' and len(a) == 1:
                if isinstance(a[0], ast.Constant) and isinstance(a[0].value, str):
                    return f'(String.length {self.expr(a[0])})'
                return f'(List.length {self.expr(a[0])})'
            if f.id == 'cast' and len(a) == 2:
                return self.expr(a[1])
            if f.id in CTORS and len(a) == CTORS[f.id][1]:
                return '(' + CTORS[f.id][0] + ' ' + ' '.join(self.expr(x) for x in a) + ')'
            if f.id == 'Database' and len(a) == 1:
                return self.expr(a[0])
            if f.id in PURE_CALLS:
                return '(' + PURE_CALLS[f.id] + ' ' + ' '.join(self.expr(x) for x in a) + ')'
            if f.id in FALLIBLE_CALLS:
                t = self.new()
                self.pre.append((t, f.id + ' ' + ' '.join(self.expr(x) for x in a)))
                return t
            if f.id in self.locals:                      # a nested def
                return '(' + v(f.id) + ' ' + ' '.join(self.expr(x) for x in a) + ')'
        if isinstance(f, ast.Attribute):
            a = n.args
            if f.attr == 'removesuffix' and len(a) == 1:
                return f'(py_removesuffix {self.expr(f.value)} {self.expr(a[0])})'
            if f.attr == 'endswith' and len(a) == 1:
                return f'(py_endswith {self.expr(f.value)} {self.expr(a[0])})'
            if f.attr == 'get' and len(a) == 2 and isinstance(a[1], ast.Tuple) and not a[1].elts:
                return f'(assoc_default {self.expr(a[0])} {self.expr(f.value)})'
            if f.attr == 'values' and not a:
                return f'(dict_values {self.expr(f.value)})'
            if f.attr == 'items' and not a:
                return f'(dict_items {self.expr(f.value)})'
            if f.attr == 'get_metavariables' and not a:
                return f'(get_metavariables {self.expr(f.value)})'
        fail(self.where, n, 'call outside the subset')

    # ---- statements.  `k(env)` produces the coq text that follows; functions return option values.
    def flush(self, body):
        """wrap `body()` in the pending obind's (innermost last); the pending list is taken BEFORE the rest is translated"""
        pre, self.pre = self.pre, []
        body = body()
        for t, e in reversed(pre):
            body = f'obind ({e}) (fun {t} =>\n  {body})'
        return body

    def assigned(self, stmts):
        """names (already in scope) that the statements assign or mutate, in first-occurrence order"""
        out = []

        def add(x):
            if x in self.locals and x not in out:
                out.append(x)
        for s in stmts:
            for n in ast.walk(s):
                if isinstance(n, (ast.Assign, ast.AnnAssign, ast.AugAssign)):
                    ts = n.targets if isinstance(n, ast.Assign) else [n.target]
                    for t in ts:
                        for m in ast.walk(t):
                            if isinstance(m, ast.Name) and isinstance(m.ctx, ast.Store):
                                add(m.id)
                            if isinstance(m, ast.Subscript) and isinstance(m.value, ast.Name):
                                add(m.value.id)
                if isinstance(n, ast.Call) and isinstance(n.func, ast.Attribute) and n.func.attr in ('append', 'extend', 'update') \
                        and isinstance(n.func.value, ast.Name):
                    add(n.func.value.id)
                if isinstance(n, ast.Call) and isinstance(n.func, ast.Name) and n.func.id == 'next' and len(n.args) == 1 \
                        and isinstance(n.args[0], ast.Name):
                    add(n.args[0].id)
                if isinstance(n, (ast.Yield,)):
                    add('yielded__')
        return out

    def block(self, stmts, k, in_loop_tail=False):
        """translate a statement list; `k()` gives the text for what follows the list"""
        if not stmts:
            return k()
        s, rest = stmts[0], stmts[1:]

        def cont():
            return self.block(rest, k, in_loop_tail)
        if isinstance(s, ast.Pass) or (isinstance(s, ast.Expr) and isinstance(s.value, ast.Constant) and isinstance(s.value.value, str)):
            return cont()
        if isinstance(s, ast.FunctionDef):
            return self.nested_def(s, cont)
        if isinstance(s, ast.Assign) and len(s.targets) == 1 and isinstance(s.targets[0], ast.Name) and isinstance(s.value, ast.JoinedStr):
            first = s.value.values[0] if s.value.values else None
            if isinstance(first, ast.Constant) and isinstance(first.value, str) and first.value.startswith('$'):
                self.anon.add(s.targets[0].id)        # a key no label can equal: only its freshness matters
                return cont()
        if isinstance(s, (ast.Assign, ast.AnnAssign)):
            target = s.targets[0] if isinstance(s, ast.Assign) else s.target
            if isinstance(s, ast.Assign) and len(s.targets) != 1 or s.value is None:
                fail(self.where, s, 'assignment outside the subset')
            if isinstance(target, ast.Subscript) and isinstance(target.value, ast.Name) and target.value.id in self.locals:
                d = target.value.id
                val = self.expr(s.value)
                if isinstance(target.slice, ast.Name) and target.slice.id in self.anon:
                    e = f'dict_add_anon {val} {v(d)}'
                elif isinstance(target.slice, ast.JoinedStr):
                    first = target.slice.values[0] if target.slice.values else None
                    if not (isinstance(first, ast.Constant) and isinstance(first.value, str) and first.value.startswith('$')):
                        fail(self.where, s, 'formatted key that is not of the form $...')
                    e = f'dict_add_anon {val} {v(d)}'
                    # `next(counter)` inside the key advances the counter
                    ctrs = [c.args[0].id for c in ast.walk(target.slice) if isinstance(c, ast.Call) and isinstance(c.func, ast.Name)
                            and c.func.id == 'next' and len(c.args) == 1 and isinstance(c.args[0], ast.Name)]
                    if ctrs:
                        if len(ctrs) != 1 or ctrs[0] not in self.locals:
                            fail(self.where, s, 'counter use outside the subset')
                        return self.flush(lambda: f'let {v(d)} := {e} in\n  let {v(ctrs[0])} := ({v(ctrs[0])} + 1) in\n  {cont()}')
                else:
                    e = f'dict_set {self.expr(target.slice)} {val} {v(d)}'
                return self.flush(lambda: f'let {v(d)} := {e} in\n  {cont()}')
            if isinstance(s.value, ast.Dict) and not s.value.keys and isinstance(target, ast.Name):
                self.locals.add(target.id)
                self.dicts.add(target.id)
                return f'let {v(target.id)} := ([] : dict) in\n  {cont()}'
            if isinstance(s.value, ast.List) and not s.value.elts and isinstance(target, ast.Name):
                self.locals.add(target.id)
                return f'let {v(target.id)} := [] in\n  {cont()}'
            val = self.expr(s.value)
            if isinstance(target, ast.Name):
                self.locals.add(target.id)
                return self.flush(lambda: f'let {v(target.id)} := {val} in\n  {cont()}')
            if isinstance(target, ast.Tuple) and len(target.elts) == 2 and all(isinstance(e, ast.Name) for e in target.elts):
                names = [e.id for e in target.elts]
                pat = ', '.join('_' if x == '_' else v(x) for x in names)
                for x in names:
                    if x != '_':
                        self.locals.add(x)
                return self.flush(lambda: f"let '({pat}) := {val} in\n  {cont()}")
            fail(self.where, s, 'assignment target outside the subset')
        if isinstance(s, ast.AugAssign) and isinstance(s.target, ast.Name) and s.target.id in self.locals:
            x = s.target.id
            if isinstance(s.op, ast.BitOr):
                e = f'({v(x)} ++ {self.expr(s.value)})%list'
            elif isinstance(s.op, ast.Add):
                e = f'({v(x)} + {self.expr(s.value)})'
            else:
                fail(self.where, s, 'augmented assignment outside the subset')
            return self.flush(lambda: f'let {v(x)} := {e} in\n  {cont()}')
        if isinstance(s, ast.Expr) and isinstance(s.value, ast.Call) and isinstance(s.value.func, ast.Attribute) \
                and isinstance(s.value.func.value, ast.Name) and s.value.func.value.id in self.locals \
                and s.value.func.attr in ('append', 'extend', 'update') and len(s.value.args) == 1:
            x = s.value.func.value.id
            a = self.expr(s.value.args[0])
            e = f'({v(x)} ++ [{a}])%list' if s.value.func.attr == 'append' else f'({v(x)} ++ {a})%list'
            return self.flush(lambda: f'let {v(x)} := {e} in\n  {cont()}')
        if isinstance(s, ast.Expr) and isinstance(s.value, ast.Yield) and s.value.value is not None:
            e = self.pair(s.value.value)
            return self.flush(lambda: f'let yielded__ := (yielded__ ++ [{e}])%list in\n  {cont()}')
        if isinstance(s, ast.Assert):
            if isinstance(s.test, ast.Constant) and isinstance(s.test.value, str) and s.test.value:
                return cont()                              # `assert '<non-empty string>', ...` never fails
            t = self.expr(s.test)
            return self.flush(lambda: f'oassert {t} (\n  {cont()})')
        if isinstance(s, ast.Return):
            if rest:
                fail(self.where, rest[0], 'statement after return')
            if s.value is None:
                return 'None'
            e = self.pair(s.value) if (isinstance(s.value, ast.Tuple) and len(s.value.elts) == 2
                                       and not any(isinstance(x, ast.Starred) for x in s.value.elts)) else self.expr(s.value)
            if self.pure:
                if self.pre:
                    fail(self.where, s, 'fallible expression in a function that cannot raise')
                return e
            return self.flush(lambda: f'Some {e}' if not e.startswith('None') else 'None')
        if isinstance(s, ast.Continue):
            if rest or not in_loop_tail:
                fail(self.where, s, '`continue` that is not the last thing the loop body does')
            return k()
        if isinstance(s, ast.For) and not s.orelse:
            return self.for_loop(s, cont)
        if isinstance(s, ast.If):
            return self.if_stmt(s, rest, k, in_loop_tail)
        fail(self.where, s, 'statement outside the subset')

    def nested_def(self, s, cont):
        if s.args.vararg or s.args.kwarg or s.args.kwonlyargs or s.args.defaults or s.decorator_list:
            fail(self.where, s, 'nested def signature')
        params = [a.arg for a in s.args.args]
        saved_locals, saved_where = set(self.locals), self.where
        self.where += '.' + s.name
        self.locals |= set(params)
        body = self.block(s.body, lambda: 'None')
        self.locals, self.where = saved_locals, saved_where
        self.locals.add(s.name)
        ps = ' '.join(v(p) for p in params)
        return f'let {v(s.name)} := fun {ps} =>\n  {body} in\n  {cont()}'

    def for_loop(self, s, cont):
        # `for x in E: assert P`
        if len(s.body) == 1 and isinstance(s.body[0], ast.Assert) and isinstance(s.target, ast.Name):
            it = self.expr(s.iter)
            x = s.target.id
            had = x in self.locals
            self.locals.add(x)
            p = self.expr(s.body[0].test)
            if not had:
                self.locals.discard(x)
            return self.flush(lambda: f'oassert (forallb (fun {v(x)} => {p}) {it}) (\n  {cont()})')
        # `for x in IT: acc |= E` / `acc.update(E)` / `acc.extend(E)` with E not mentioning acc  =  acc ++ flat_map (fun x => E) IT
        if len(s.body) == 1 and isinstance(s.target, ast.Name):
            b0 = s.body[0]
            acc = e0 = None
            if isinstance(b0, ast.AugAssign) and isinstance(b0.op, ast.BitOr) and isinstance(b0.target, ast.Name):
                acc, e0 = b0.target.id, b0.value
            elif isinstance(b0, ast.Expr) and isinstance(b0.value, ast.Call) and isinstance(b0.value.func, ast.Attribute) \
                    and b0.value.func.attr in ('update', 'extend') and isinstance(b0.value.func.value, ast.Name) and len(b0.value.args) == 1:
                acc, e0 = b0.value.func.value.id, b0.value.args[0]
            if acc is not None and acc in self.locals and acc != s.target.id \
                    and not any(isinstance(n, ast.Name) and n.id == acc for n in ast.walk(e0)):
                saved_pre = list(self.pre)
                try:
                    fm = self.flat_map_of(s.target.id, e0, s.iter)
                    return self.flush(lambda: f'let {v(acc)} := ({v(acc)} ++ {fm})%list in\n  {cont()}')
                except SystemExit:
                    self.pre = saved_pre      # the body is fallible: fall through to the general fold
        it = self.expr(s.iter)
        pre_it, self.pre = self.pre, []      # bindings needed by the iterable come first

        def head(thunk):
            self.pre = pre_it + self.pre
            return self.flush(thunk)
        state = sorted(self.assigned(s.body), key=lambda x: (x == 'yielded__', x))
        if not state:
            fail(self.where, s, 'loop that changes nothing')
        if isinstance(s.target, ast.Name):
            names = [s.target.id]
        elif isinstance(s.target, ast.Tuple) and all(isinstance(e, ast.Name) for e in s.target.elts):
            names = [e.id for e in s.target.elts]
            if isinstance(s.iter, ast.Call) and isinstance(s.iter.func, ast.Attribute) and s.iter.func.attr == 'items':
                self.okeys.add(names[0])
        else:
            fail(self.where, s, 'loop target outside the subset')
        st = [v(x) if x != 'yielded__' else x for x in state]
        saved = set(self.locals)
        self.locals |= set(names)
        body = self.block(s.body, lambda: f'Some {tupv(st)}', in_loop_tail=True)
        self.locals = saved
        pat = tup([v(x) for x in names])
        return head(lambda: f'obind (ofold_left (fun {tup(st)} {pat} =>\n  {body})\n  {it} {tupv(st)}) (fun {tup(st)} =>\n  {cont()})')

    def if_stmt(self, s, rest, k, in_loop_tail):
        tail = in_loop_tail and not rest
        # does any branch return?  then the branches are the rest of the function
        returns = any(isinstance(n, ast.Return) for b in (s.body, s.orelse) for x in b for n in ast.walk(x))
        if returns:
            # a branch may return or fall through: what follows the `if` is translated at the end of every branch
            c = self.expr(s.test)
            pre, self.pre = self.pre, []

            def krest():
                return self.block(rest, k, in_loop_tail)
            saved = set(self.locals)
            then = self.block(s.body, krest, in_loop_tail)
            self.locals = set(saved)
            els = self.block(s.orelse, krest, in_loop_tail)
            self.locals = saved
            if self.pure and pre:
                fail(self.where, s, 'fallible expression in a function that cannot raise')
            self.pre = pre
            return self.flush(lambda: f'if {c} then\n  {then}\n  else\n  {els}')
        state = sorted(self.assigned([s]), key=lambda x: (x == 'yielded__', x))
        st = [v(x) if x != 'yielded__' else x for x in state]
        after = (lambda: f'Some {tupv(st)}') if st else (lambda: 'Some tt')

        def branches(node):
            t = node.test
            els_stmts = node.orelse
            if len(els_stmts) == 1 and isinstance(els_stmts[0], ast.If):
                els = branches(els_stmts[0])
            else:
                els = self.block(els_stmts, after, tail)
            if isinstance(t, ast.NamedExpr) and isinstance(t.value, ast.Call) and isinstance(t.value.func, ast.Name) \
                    and t.value.func.id == 'match_axiom' and len(t.value.args) == 1:
                lab = self.new('label')
                self.maxiom_label[t.target.id] = lab
                then = self.block(node.body, after, tail)
                del self.maxiom_label[t.target.id]
                return (f'match match_axiom {self.expr(t.value.args[0])} with\n  | MCrash => None\n  | MAx {lab} =>\n  {then}\n'
                        f'  | MNone =>\n  {els}\n  end')
            c = self.expr(t)
            if self.pre:
                fail(self.where, t, 'fallible expression in a condition')
            then = self.block(node.body, after, tail)
            return f'if {c} then\n  {then}\n  else\n  {els}'
        chain = branches(s)
        following = self.block(rest, k, in_loop_tail)
        if not st:
            return f'obind ({chain}) (fun _ =>\n  {following})'
        return f'obind ({chain}) (fun {tup(st)} =>\n  {following})'

    # ---- functions
    def function(self, name, params, ret):
        if name not in self.funcs:
            raise SystemExit(f'mm_print_slice: function {name} not found')
        f = self.funcs[name]
        got = [a.arg for a in f.args.args]
        if got != [p for p, _ in params] or f.args.vararg or f.args.kwarg or f.args.kwonlyargs or f.args.defaults:
            fail(name, f, f'parameters changed (expected {[p for p, _ in params]})')
        self.where, self.locals, self.pre, self.okeys, self.maxiom_label = name, {p for p, _ in params}, [], set(), {}
        self.anon, self.pure = set(), False
        self.dbparams = {p for p, t in params if t == 'database'}
        self.dicts = {p for p, t in params if t == 'dict'}
        ps = ' '.join(f'({v(p)} : {t})' for p, t in params)
        f = self.prepare(f)
        return f, ps

    MAIN = {'construct_axiom', 'deconstruct_provable', 'supporting_database_for_provable', 'slice_database'}
    NOT_HELPERS = MAIN | {'get_constants', 'statements_get_constants', 'deconstruct_compressed_proof', 'match_axiom',
                          'dependency_graph', 'syntax_dependencies', 'transitive_closure', 'main', 'is_structured_statement'}

    def prepare(self, f, depth=0):
        """canonical form of a function: helpers inlined / hoisted, `not` tests swapped, ternary returns expanded,
        set-valued names in tests made explicit"""
        if depth > 4:
            fail(f.name, f, 'helper nesting too deep')
        f = copy.deepcopy(f)
        helpers = {n for n in self.funcs if n not in self.NOT_HELPERS and n != f.name}
        hoisted = {}
        funcs = self.funcs
        outer = self

        class Calls(ast.NodeTransformer):
            """keyword arguments of a module-level function = the positional binding; a helper whose body is one
            `return <expression>` = that expression with the parameters substituted"""
            def visit_Call(self, node):
                self.generic_visit(node)
                if isinstance(node.func, ast.Name) and node.func.id in funcs:
                    g = funcs[node.func.id]
                    ps = [a.arg for a in g.args.args]
                    if node.keywords:
                        if g.args.vararg or g.args.kwarg or g.args.kwonlyargs or any(k.arg is None for k in node.keywords):
                            fail(f.name, node, 'keyword call outside the subset')
                        bound = dict(zip(ps, node.args))
                        for k in node.keywords:
                            if k.arg not in ps or k.arg in bound:
                                fail(f.name, node, 'keyword call outside the subset')
                            bound[k.arg] = k.value
                        if set(bound) != set(ps):
                            fail(f.name, node, 'keyword call relies on a default')
                        node = ast.Call(func=node.func, args=[bound[p] for p in ps], keywords=[])
                    if node.func.id in helpers:
                        body = [x for x in g.body if not isinstance(x, ast.Pass)
                                and not (isinstance(x, ast.Expr) and isinstance(x.value, ast.Constant))]
                        if len(body) == 1 and isinstance(body[0], ast.Return) and body[0].value is not None \
                                and len(ps) == len(node.args) and not g.args.defaults:
                            e = _Subst(dict(zip(ps, node.args))).visit(copy.deepcopy(body[0].value))
                            return self.visit(e)
                return node
        f = ast.fix_missing_locations(Calls().visit(f))

        def simple_return(h):
            top = [x for x in h.body if not isinstance(x, ast.FunctionDef)]
            rets = [n for x in top for n in ast.walk(x) if isinstance(n, ast.Return)]
            return len(rets) == 1 and top and top[-1] is rets[0] and rets[0].value is not None

        def inline(stmt):
            """`x = h(args)` with h a helper whose only return is its last statement"""
            val = stmt.value if isinstance(stmt, (ast.Assign, ast.AnnAssign)) else None
            if not (isinstance(val, ast.Call) and isinstance(val.func, ast.Name) and val.func.id in helpers):
                return None
            h = self.prepare(self.funcs[val.func.id], depth + 1)
            if not simple_return(h):
                return None
            ps = [a.arg for a in h.args.args]
            if val.keywords or len(ps) != len(val.args) or h.args.vararg or h.args.kwarg or h.args.kwonlyargs or h.args.defaults:
                fail(f.name, stmt, 'helper call outside the subset')
            body = [x for x in h.body if not isinstance(x, ast.FunctionDef)]
            for x in h.body:
                if isinstance(x, ast.FunctionDef):
                    hoisted.setdefault(x.name, x)
            ren = {n: f'{n}__{h.name}' for n in stored_names(body)}
            pre = []
            for p, a in zip(ps, val.args):
                if isinstance(a, ast.Name):
                    ren[p] = a.id
                else:
                    ren[p] = f'{p}__{h.name}'
                    pre.append(ast.Assign(targets=[ast.Name(id=ren[p], ctx=ast.Store())], value=copy.deepcopy(a)))
            body = [_Rename(ren).visit(copy.deepcopy(x)) for x in body]
            target = stmt.targets[0] if isinstance(stmt, ast.Assign) else stmt.target
            if not isinstance(body[-1], ast.Return):
                fail(f.name, stmt, 'helper does not end with its return')
            last = ast.Assign(targets=[copy.deepcopy(target)], value=body[-1].value)
            return [ast.fix_missing_locations(x) for x in pre + body[:-1] + [last]]

        def walk(stmts):
            out = []
            for st in stmts:
                r = inline(st)
                if r is not None:
                    out += walk(r)
                    continue
                for fld in ('body', 'orelse'):
                    if isinstance(st, (ast.For, ast.If, ast.With, ast.FunctionDef)) and getattr(st, fld, None):
                        setattr(st, fld, walk(getattr(st, fld)))
                out.append(st)
            return out
        f.body = walk(f.body)
        # helpers that are still called (inside expressions): nested defs of the caller
        for n in ast.walk(f):
            if isinstance(n, ast.Call) and isinstance(n.func, ast.Name) and n.func.id in helpers and n.func.id not in hoisted:
                h = self.prepare(self.funcs[n.func.id], depth + 1)
                if h.args.vararg or h.args.kwarg or h.args.kwonlyargs or h.args.defaults:
                    fail(f.name, n, 'helper signature outside the subset')
                h.decorator_list = []
                hoisted[h.name] = h
                for p_, a_ in zip([x.arg for x in h.args.args], n.args):
                    if isinstance(a_, ast.Name) and a_.id in self.dicts:
                        self.dicts.add(p_)
        nested = [x for x in f.body if isinstance(x, ast.FunctionDef)]
        for h in hoisted.values():
            if h.name not in {x.name for x in nested}:
                f.body.insert(0, h)
        f.body = self.truthy_ifs(swap_nots(nnf(ast.Module(body=f.body, type_ignores=[])).body))
        return ast.fix_missing_locations(f)

    def generate(self):
        out = []
        f, ps = self.function('construct_axiom', [('antecedents', 'list stmt'), ('consequent', 'stmt')], 'stmt')
        self.pure = True
        body = self.block(f.body, lambda: fail('construct_axiom', f, 'falls off the end'))
        self.pure = False
        out.append(f'Definition construct_axiom {ps} : stmt :=\n  {body}.')

        f, ps = self.function('deconstruct_provable', [('statement', 'stmt')], 'option (list stmt * stmt)')
        body = self.block([self.rewrite_assert_not_axiom(s) for s in f.body], lambda: 'None')
        out.append(f'Definition deconstruct_provable {ps} : option (list stmt * stmt) :=\n  {body}.')

        f, ps = self.function('supporting_database_for_provable',
                              [('cut_antecedents', 'dict'), ('syntax_deps', 'list (string * list string)'),
                               ('provable', 'stmt'), ('essentials', 'list stmt')], 'option database')
        body = self.block(f.body, lambda: 'None')
        out.append(f'Definition supporting_database_for_provable {ps} : option database :=\n  {body}.')

        f, ps = self.function('slice_database', [('input_database', 'database'), ('syntax_deps', 'list (string * list string)'),
                                                 ('include', 'list string'), ('exclude', 'list string')], '')
        stmts = [s for s in f.body if not (isinstance(s, ast.Expr) and isinstance(s.value, ast.Constant))]
        if not stmts or not isinstance(stmts[-1], ast.For) or stmts[-1].orelse or not isinstance(stmts[-1].target, ast.Name):
            fail('slice_database', f, 'body does not end with the loop over the statements')
        loop = stmts[-1]
        inits = []
        for s in stmts[:-1]:
            if isinstance(s, (ast.Assign, ast.AnnAssign)):
                t = s.targets[0] if isinstance(s, ast.Assign) else s.target
                if isinstance(t, ast.Name) and isinstance(s.value, ast.Dict) and not s.value.keys:
                    inits.append((t.id, '([] : dict)'))
                    self.dicts.add(t.id)
                    continue
                if isinstance(t, ast.Name) and isinstance(s.value, ast.Constant) and s.value.value == 0:
                    inits.append((t.id, '0'))
                    continue
                if isinstance(t, ast.Name) and isinstance(s.value, ast.Call) and isinstance(s.value.func, ast.Name) \
                        and s.value.func.id == 'count' and not s.value.args and not s.value.keywords:
                    inits.append((t.id, '0'))              # itertools.count(): the next number it will give
                    continue
            fail('slice_database', s, 'initialisation outside the subset')
        self.locals |= {x for x, _ in inits}
        it = self.expr(loop.iter)
        state = sorted(x for x in self.assigned(loop.body) if x != 'yielded__')
        if set(state) != {x for x, _ in inits}:
            fail('slice_database', loop, f'loop state {state} differs from the initialised variables')
        self.locals.add(loop.target.id)
        self.locals.add('yielded__')
        st = [v(x) for x in state]
        body = self.block(loop.body, lambda: f'Some ({tupv(st)}, yielded__)', in_loop_tail=True)
        init = tupv([dict(inits)[x] for x in state])
        out.append(f'Definition slice_database {ps} : list (string * database) * bool :=\n'
                   f'  gen_loop (fun {tup(st)} {v(loop.target.id)} =>\n  let yielded__ := [] in\n  {body})\n  {it} {init}.')
        return '\n\n'.join(out)

    def rewrite_assert_not_axiom(self, s):
        """`assert not match_axiom(x)` (truthiness of an Optional, may raise) -> `assert maxiom_is_none(match_axiom(x))`"""
        class R(ast.NodeTransformer):
            def visit_Assert(self, node):
                t = node.test
                if isinstance(t, ast.UnaryOp) and isinstance(t.op, ast.Not) and isinstance(t.operand, ast.Call) \
                        and isinstance(t.operand.func, ast.Name) and t.operand.func.id == 'match_axiom':
                    node.test = ast.Call(func=ast.Name(id='maxiom_is_none', ctx=ast.Load()), args=[t.operand], keywords=[])
                return node
        return ast.fix_missing_locations(R().visit(s))

    def truthy_ifs(self, stmts):
        """`if <set-valued name>:` -> non-emptiness"""
        class R(ast.NodeTransformer):
            def visit_If(self, node):
                self.generic_visit(node)
                if isinstance(node.test, ast.Name):
                    node.test = ast.Call(func=ast.Name(id='py_nonempty', ctx=ast.Load()), args=[node.test], keywords=[])
                return node
        return [ast.fix_missing_locations(R().visit(s)) for s in stmts]


PURE_CALLS['maxiom_is_none'] = 'maxiom_is_none'
PURE_CALLS['py_nonempty'] = 'nonnil'


HEADER = '''(** GENERATED by translators/mm_print_slice.py from
      {ast_py}   (class Encoder)
      {slice_py}   (slicer)
    on every run of ./check C17.  Do not edit.  See the translator for the subset and coq/MM17/GenLib.v for the
    library.  Agreement with the hand-written model: coq/MM17/GenMMPrintSliceAgree.v. *)
From Coq Require Import String List Bool Arith.
From Pi2 Require Import MM17.Ast MM17.Parse MM17.Wf MM17.Slice MM17.GenLib.
Import ListNotations.
Open Scope string_scope.

Module GenMM.

'''


def generate(repo):
    a = open(os.path.join(repo, AST_PY)).read()
    s = open(os.path.join(repo, SLICE_PY)).read()
    try:
        ta, ts = strip_docstrings(ast.parse(a)), strip_docstrings(ast.parse(s))
    except SyntaxError as e:
        raise SystemExit(f'mm_print_slice: syntax error: {e}')
    text = HEADER.format(ast_py=AST_PY, slice_py=SLICE_PY)
    text += '(* ---------------------------------------------------------------- Encoder *)\n' + Printer(ta).generate()
    text += '\n\n(* ---------------------------------------------------------------- get_metavariables *)\n' + Metavars(ta).generate()
    text += '\n\n(* ---------------------------------------------------------------- slicer *)\n' + Slicer(ts).generate()
    text += '\n\nEnd GenMM.\n'
    return text


if __name__ == '__main__':
    import sys
    print(generate(sys.argv[1] if len(sys.argv) > 1 else '/repo'))

"""Fail-closed Python-ast translator for the compressed-proof codec:
    metamath/converter/converter.py  MetamathConverter._import_proof  (the digit tables lsdigit/msdigit, the nested
        functions parse_lemmas, split_proof, convert_to_number, and the tail of _import_proof: word splitter + Z handling)
    metamath/translate.py            exec_proof: the head of the replay loop (what a number denotes: Z / marked step /
        hypothesis-or-label), the rest of the loop body being abstracted to "a label step leaves term t on top"
-> coq/Gen/MMDecode.v.

Translation is STATEMENT BY STATEMENT and EXPRESSION BY EXPRESSION (no whole-function templates): every literal constant
(20, 5, the letters of the digit tables and their values, 'Z', '(', ')', the offsets 1 and 2), every comparison, the order
of the statements, which test guards which store, come from the source text.  Local variables become shadowing `let`s
(renaming a local or reflowing changes nothing), `for` loops become `py_for`/`py_for_enum` folds over the iterated list whose
state is the tuple of the variables the body assigns, `break`/`continue` are the fold's control flag, raising (KeyError,
IndexError, AssertionError, ValueError on unpacking, UnboundLocalError of a loop index) is `None`.
Vocabulary: coq/MM15/GenPrelude.v.  Anything outside the recognised subset aborts with SystemExit naming the node.
"""
import ast
import os


def fail(node, why):
    loc = f'line {getattr(node, "lineno", "?")}' if node is not None else ''
    try:
        txt = ast.unparse(node)[:120] if node is not None else ''
    except Exception:  # noqa: BLE001
        txt = type(node).__name__
    raise SystemExit(f'mmdecode translator: {why} ({loc}: {txt})')


def cname(py):
    return 'v_' + py.replace('.', '__')


class Tr:
    def __init__(self):
        self.fresh = 0
        self.funcs = {}        # python function name -> dict(coq=..., mutated=[param positions], ret=type)
        self.globals = {}      # python name -> (coq name, type)
        self.consts = {}       # python name of a constant digit table -> [(ord, value)]
        self.tables = {}       # python name -> coq name, by ROLE: first table used is gen_lsdigit, second gen_msdigit
        self.table_defs = []
        self.inline_defs = {}  # nested helper functions that are inlined at their call sites
        self.base_env = {}
        self.ret_stack = []
        self.interp_names = set()
        self.class_name = 'MetamathConverter'
        self.module_tree, self.module_path, self.src_root = None, None, None
        self.proc_stack = []
        self.records = {'Proof': ['labels', 'applied_lemmas']}   # record constructors: class name -> field names

    def table(self, node, pyname):
        if pyname not in self.tables:
            roles = ['gen_lsdigit', 'gen_msdigit']
            if len(self.tables) >= len(roles):
                fail(node, 'a third digit table')
            cn = roles[len(self.tables)]
            self.tables[pyname] = cn
            self.table_defs.append(f'(** digit table #{len(self.tables)} in order of use by convert_to_number (source name: {pyname}) *)\n'
                                   f'Definition {cn} : list (N * N) :=\n  [' + '; '.join(f'({k}, {v})' for k, v in self.consts[pyname]) + '].\n')
        return self.tables[pyname], 'dict_ci'

    def pure_atom(self, e, env):
        """atom and type of an expression that must compile without any binding (cannot raise)"""
        res = []
        txt = self.cx(e, env, lambda a, t: (res.append((a, t)) or '@@PURE@@'))
        if txt != '@@PURE@@' or len(res) != 1:
            fail(e, 'expression that can raise inside a comprehension')
        return res[0]

    def named_constant(self, name, module=None, depth=0):
        """the literal a module-level name is bound to: NAME = 0 / NAME: Final = 'Z' (bound exactly once in its module, never
        declared global, never augmented), following `from package.module import NAME`"""
        tree, path = module or (self.module_tree, self.module_path)
        if tree is None or depth > 3:
            return None
        binds = []
        for n in tree.body:
            if isinstance(n, ast.Assign) and any(isinstance(t, ast.Name) and t.id == name for t in n.targets):
                binds.append(n.value)
            elif isinstance(n, ast.AnnAssign) and isinstance(n.target, ast.Name) and n.target.id == name and n.value is not None:
                binds.append(n.value)
            elif isinstance(n, ast.AugAssign) and isinstance(n.target, ast.Name) and n.target.id == name:
                return None
        for n in ast.walk(tree):
            if isinstance(n, (ast.Global, ast.Nonlocal)) and name in n.names:
                return None
            if isinstance(n, (ast.FunctionDef, ast.ClassDef)) and n.name == name:
                return None
        if len(binds) == 1:
            v = binds[0]
            if isinstance(v, ast.Constant) and (isinstance(v.value, str) or (isinstance(v.value, int) and not isinstance(v.value, bool))):
                return v
            return None
        if binds:
            return None
        for n in tree.body:
            if isinstance(n, ast.ImportFrom) and n.module and n.level == 0:
                for al in n.names:
                    if (al.asname or al.name) == name and n.module.startswith('proof_generation'):
                        f = os.path.join(self.src_root, *n.module.split('.')) + '.py'
                        if os.path.exists(f):
                            return self.named_constant(al.name, (ast.parse(open(f).read()), f), depth + 1)
        return None

    def tmp(self):
        self.fresh += 1
        return f't{self.fresh}'

    # ---------------------------------------------------------------------------------------- expressions
    def pure(self, e, env):
        """syntactic check: evaluating e cannot raise and has no effect"""
        for n in ast.walk(e):
            if isinstance(n, ast.Subscript) and not isinstance(n.slice, ast.Slice):
                return False
            if isinstance(n, ast.Call):
                f = n.func
                nm = f.id if isinstance(f, ast.Name) else f.attr if isinstance(f, ast.Attribute) else None
                if nm not in ('isspace', 'isinstance', 'len', 'pow', 'reversed', 'list'):
                    return False
            if isinstance(n, ast.Name) and n.id in env and env[n.id][1] in ('opt_int', 'opt_term'):
                return False
        return True

    def key_of(self, e, env=None):
        """pseudo-variable name of an attribute chain such as result.applied_lemmas; a parameter that stands for the statement
        object (passed down to a helper) is replaced by `statement`"""
        if isinstance(e, ast.Name):
            if env is not None and e.id in env and str(env[e.id][1]).startswith('obj:'):
                return env[e.id][1][4:]
            return e.id
        if isinstance(e, ast.Attribute):
            b = self.key_of(e.value, env)
            return None if b is None else b + '.' + e.attr
        return None

    def callee(self, f):
        """python name of the function a call refers to: f(..), self.f(..), cls.f(..), <Class>.f(..)"""
        if isinstance(f, ast.Name):
            return f.id
        if isinstance(f, ast.Attribute) and isinstance(f.value, ast.Name) and f.value.id in ('self', 'cls', self.class_name):
            return f.attr
        return None

    def cx(self, e, env, k):
        """CPS: k(coq_atom, type) -> coq text of type option _"""
        if isinstance(e, ast.Constant):
            if isinstance(e.value, bool):
                return k('true' if e.value else 'false', 'bool')
            if isinstance(e.value, int):
                return k(f'{e.value}', 'int')
            if isinstance(e.value, str):
                if e.value == '':
                    return k('[]', 'str')
                if len(e.value) == 1:
                    return k(f'{ord(e.value)}', 'char1')
                return k('[' + '; '.join(str(ord(c)) for c in e.value) + ']', 'str')
            fail(e, 'constant of unsupported type')
        if isinstance(e, ast.Name):
            if e.id in env:
                cn, t = env[e.id]
                if t == 'opt_int':
                    x = self.tmp()
                    return f'match {cn} with None => None | Some {x} => {k(x, "int")} end'
                if t == 'find_int':
                    # used as an index: only meaningful when something was found (Python would go on with -1: fail closed)
                    x = self.tmp()
                    return f'match {cn} with None => None | Some {x} => {k(x, "int")} end'
                if t == 'opt_term':
                    x = self.tmp()
                    return f'match {cn} with None => None | Some {x} => {k(x, "term")} end'
                return k(cn, t)
            if e.id in self.globals:
                return k(*self.globals[e.id])
            if e.id in self.consts:
                return k(*self.table(e, e.id))
            lit = self.named_constant(e.id)
            if lit is not None:
                # a module-level constant bound once to a literal (possibly imported from another module of the package) = its value
                return self.cx(ast.copy_location(lit, e), env, k)
            fail(e, 'unknown name')
        if isinstance(e, ast.Attribute):
            key = self.key_of(e, env)
            if key in env:
                return self.cx(ast.Name(id=key), env, k)
            if isinstance(e.value, ast.Name) and e.value.id in env and env[e.value.id][1] == 'fstmt':
                if e.attr == 'metavariable':
                    return k(f'(gs_metavariable {env[e.value.id][0]})', 'str')
                if e.attr == 'label':
                    return k(f'(gs_label {env[e.value.id][0]})', 'str')
            fail(e, 'unsupported attribute')
        if isinstance(e, ast.BinOp):
            ops = {ast.Add: '+', ast.Mult: '*', ast.Sub: '-'}
            if type(e.op) not in ops:
                fail(e, 'unsupported arithmetic operator')

            def kl(a, ta):
                def kr(b, tb):
                    if ta not in ('int',) or tb not in ('int',):
                        fail(e, f'arithmetic on non-integers ({ta}, {tb})')
                    return k(f'({a} {ops[type(e.op)]} {b})', 'int')
                return self.cx(e.right, env, kr)
            return self.cx(e.left, env, kl)
        if isinstance(e, ast.UnaryOp) and isinstance(e.op, ast.Not):
            return self.cond(e.operand, env, lambda c: k(f'(negb {c})', 'bool'))
        if isinstance(e, ast.UnaryOp) and isinstance(e.op, ast.USub) and isinstance(e.operand, ast.Constant):
            fail(e, 'negative constant outside a [-1] index')
        if isinstance(e, ast.BoolOp):
            if not all(self.pure(v, env) for v in e.values[1:]):
                fail(e, 'short-circuit operand that can raise')
            op = 'andb' if isinstance(e.op, ast.And) else 'orb'

            def go(vals, acc):
                if not vals:
                    return k(acc, 'bool')
                return self.cond(vals[0], env, lambda c: go(vals[1:], c if acc is None else f'({op} {acc} {c})'))
            return go(e.values, None)
        if isinstance(e, ast.Compare):
            if len(e.ops) != 1:
                fail(e, 'chained comparison')
            op, rhs = e.ops[0], e.comparators[0]
            # x = s.find(c) ... `x < 0` / `x >= 0` / `x == -1` / `x != -1`: found or not (None stands for -1)
            if isinstance(e.left, ast.Name) and e.left.id in env and env[e.left.id][1] == 'find_int':
                neg1 = isinstance(rhs, ast.UnaryOp) and isinstance(rhs.op, ast.USub) and isinstance(rhs.operand, ast.Constant) and rhs.operand.value == 1
                zero = isinstance(rhs, ast.Constant) and rhs.value == 0
                x = env[e.left.id][0]
                if (zero and isinstance(op, ast.Lt)) or (neg1 and isinstance(op, ast.Eq)):
                    return k(f'(is_none {x})', 'bool')
                if (zero and isinstance(op, ast.GtE)) or (neg1 and isinstance(op, ast.NotEq)):
                    return k(f'(negb (is_none {x}))', 'bool')
                fail(e, 'comparison of the result of str.find other than with 0 / -1')

            def kl(a, ta):
                def kr(b, tb):
                    neg = isinstance(op, (ast.NotEq, ast.NotIn))
                    if isinstance(op, (ast.Eq, ast.NotEq)):
                        ts = {ta, tb}
                        if ts <= {'char', 'char1', 'int'} and not ts == {'char1'}:
                            c = f'({a} =? {b})'
                        elif ts <= {'str', 'char1'} and 'str' in ts:
                            if b == '[]':
                                c = f'(is_nil {a})'
                            elif a == '[]':
                                c = f'(is_nil {b})'
                            else:
                                aa = f'[{a}]' if ta == 'char1' else a
                                bb = f'[{b}]' if tb == 'char1' else b
                                c = f'(str_eqb {aa} {bb})'
                        else:
                            fail(e, f'equality between {ta} and {tb}')
                    elif isinstance(op, (ast.In, ast.NotIn)):
                        if tb in ('dict_ci', 'dict_is') and ta in ('char', 'char1', 'int'):
                            c = f'(dict_has {b} {a})'
                        elif tb == 'set_str' and ta == 'str':
                            c = f'(mem_str {a} {b})'
                        elif tb == 'list_term' and ta == 'term':
                            c = f'(list_has term_eqb {b} {a})'
                        elif tb == 'list_int' and ta == 'int':
                            c = f'(list_has N.eqb {b} {a})'
                        else:
                            fail(e, f'membership of {ta} in {tb}')
                    elif isinstance(op, (ast.Lt, ast.LtE, ast.Gt, ast.GtE)) and ta == 'int' and tb == 'int':
                        c = {ast.Lt: f'({a} <? {b})', ast.LtE: f'({a} <=? {b})', ast.Gt: f'({b} <? {a})', ast.GtE: f'({b} <=? {a})'}[type(op)]
                    else:
                        fail(e, 'unsupported comparison')
                    return k(f'(negb {c})' if neg else c, 'bool')
                return self.cx(rhs, env, kr)
            return self.cx(e.left, env, kl)
        if isinstance(e, ast.Subscript):
            if isinstance(e.slice, ast.Slice):
                sl = e.slice
                if sl.upper is not None or sl.step is not None or sl.lower is None:
                    fail(e, 'only x[a:] slices are supported')
                return self.cx(e.value, env, lambda a, ta: self.cx(sl.lower, env, lambda b, tb:
                               k(f'(py_slice_from {a} {b})', ta) if ta in ('str', 'list_int', 'list_term') and tb == 'int'
                               else fail(e, f'slice of {ta} by {tb}')))
            # stack()[-1]
            if isinstance(e.slice, ast.UnaryOp) and isinstance(e.slice.op, ast.USub) and isinstance(e.slice.operand, ast.Constant) \
                    and e.slice.operand.value == 1:
                if isinstance(e.value, ast.Call) and isinstance(e.value.func, ast.Name) and e.value.func.id == 'stack' and 'stack.top' in env:
                    x = self.tmp()
                    return f'match {env["stack.top"][0]} with None => None | Some {x} => {k(x, "term")} end'
                fail(e, '[-1] on something that is not stack()')

            def kv(a, ta):
                def ki(b, tb):
                    x = self.tmp()
                    if ta in ('dict_ci', 'dict_is') and tb in ('char', 'char1', 'int'):
                        rt = 'int' if ta == 'dict_ci' else 'str'
                        return f'match dict_get {a} {b} with None => None | Some {x} => {k(x, rt)} end'
                    if ta in ('list_term', 'list_int') and tb == 'int':
                        return f'match py_index {a} {b} with None => None | Some {x} => {k(x, "term" if ta == "list_term" else "int")} end'
                    fail(e, f'subscript of {ta} by {tb}')
                return self.cx(e.slice, env, ki)
            return self.cx(e.value, env, kv)
        if isinstance(e, ast.Call):
            f = e.func
            if self.callee(f) is not None and (self.callee(f) in self.inline_defs or self.callee(f) in self.funcs) and not isinstance(f, ast.Name):
                e = ast.copy_location(ast.Call(func=ast.Name(id=self.callee(f), ctx=ast.Load()), args=e.args, keywords=e.keywords), e)
                f = e.func
            if isinstance(f, ast.Name):
                nm = f.id
                if nm == 'pow' and len(e.args) == 2:
                    return self.cx(e.args[0], env, lambda a, ta: self.cx(e.args[1], env, lambda b, tb:
                                   k(f'({a} ^ {b})', 'int') if (ta, tb) == ('int', 'int') else fail(e, 'pow of non-integers')))
                if nm == 'sum' and len(e.args) == 1 and isinstance(e.args[0], (ast.GeneratorExp, ast.ListComp)) and not e.keywords:
                    # sum(E for [i,] x in [enumerate(]xs[)])  =  acc = 0; for ...: acc += E
                    g = e.args[0]
                    if len(g.generators) != 1 or g.generators[0].ifs or g.generators[0].is_async:
                        fail(e, 'sum over a comprehension with several loops / a condition')
                    gen = g.generators[0]
                    it, idx = gen.iter, None
                    if isinstance(it, ast.Call) and isinstance(it.func, ast.Name) and it.func.id == 'enumerate' and len(it.args) == 1 and not it.keywords:
                        if not (isinstance(gen.target, ast.Tuple) and len(gen.target.elts) == 2 and all(isinstance(x, ast.Name) for x in gen.target.elts)):
                            fail(e, 'enumerate without (index, element) target')
                        idx, elem, it = gen.target.elts[0].id, gen.target.elts[1].id, it.args[0]
                    elif isinstance(gen.target, ast.Name):
                        elem = gen.target.id
                    else:
                        fail(e, 'unsupported comprehension target')

                    def ksum(xs, tx):
                        et = {'str': 'char', 'list_int': 'int'}.get(tx)
                        if et is None:
                            fail(e, f'sum over a {tx}')
                        benv = {**env, elem: (cname(elem), et)}
                        if idx is not None:
                            benv[idx] = (cname(idx), 'int')
                        body = self.cx(g.elt, benv, lambda a, ta: f'Some (CNext, (v_acc + {a}))' if ta == 'int' else fail(e, f'sum of {ta}'))
                        x = self.tmp()
                        if idx is not None:
                            loop = f'py_for_enum (fun {cname(idx)} {cname(elem)} v_acc =>\n{body}) 0 {xs} 0'
                        else:
                            loop = f'py_for (fun {cname(elem)} v_acc =>\n{body}) {xs} 0'
                        return f'match {loop} with None => None | Some {x} => {k(x, "int")} end'
                    return self.cx(it, env, ksum)
                if nm == 'len' and len(e.args) == 1:
                    return self.cx(e.args[0], env, lambda a, ta: k(f'(py_len {a})', 'int'))
                if nm in ('list', 'str', 'repr') and len(e.args) == 1 and nm == 'list':
                    return self.cx(e.args[0], env, k)
                if nm == 'reversed' and len(e.args) == 1:
                    return self.cx(e.args[0], env, lambda a, ta: k(f'(rev {a})', ta))
                if nm == 'isinstance' and len(e.args) == 2 and isinstance(e.args[1], ast.Name) and e.args[1].id == 'FloatingStatement':
                    return self.cx(e.args[0], env, lambda a, ta: k(f'(gs_is_floating {a})', 'bool') if ta == 'fstmt'
                                   else fail(e, 'isinstance on a non-statement'))
                if nm == 'dict' and len(e.args) == 1 and isinstance(e.args[0], ast.Call) and isinstance(e.args[0].func, ast.Name) \
                        and e.args[0].func.id == 'enumerate' and len(e.args[0].args) == 1:
                    en = e.args[0]
                    start = [kw.value for kw in en.keywords if kw.arg == 'start']
                    if len(start) != len(en.keywords) or len(start) > 1:
                        fail(e, 'enumerate with unsupported keywords')
                    b = start[0].value if start and isinstance(start[0], ast.Constant) and isinstance(start[0].value, int) else (0 if not start else None)
                    if b is None:
                        fail(e, 'enumerate start that is not an integer literal')
                    return self.cx(en.args[0], env, lambda a, ta: k(f'(py_dict_enum {b} {a})', 'dict_is') if ta == 'list_str'
                                   else fail(e, f'dict(enumerate(..)) over a {ta}'))
                if nm in self.records:
                    fields = self.records[nm]
                    argmap = dict(zip(fields, e.args))
                    for kw in e.keywords:
                        if kw.arg not in fields or kw.arg in argmap:
                            fail(e, 'record constructor with an unknown / repeated field')
                        argmap[kw.arg] = kw.value
                    if len(argmap) != len(fields):
                        fail(e, 'record constructor without all its fields')
                    return self.cx(ast.copy_location(ast.Tuple(elts=[argmap[fl] for fl in fields], ctx=ast.Load()), e), env,
                                   lambda a, ta: k(a, 'tuple:' + nm))
                if nm in self.inline_defs:
                    fd = self.inline_defs[nm]
                    names = [a.arg for a in fd.args.args if a.arg not in ('self', 'cls')]
                    if len(names) != len(e.args) or e.keywords:
                        fail(e, 'call of a nested helper with other than its positional parameters')

                    def args(i, env_fn):
                        if i == len(e.args):
                            self.ret_stack.append(k)
                            try:
                                return self.block(list(fd.body), env_fn, lambda e2: fail(fd, 'helper can end without return'), None)
                            finally:
                                self.ret_stack.pop()
                        params = [a for a in fd.args.args if a.arg not in ('self', 'cls')]
                        ann = ast.unparse(params[i].annotation) if params[i].annotation is not None else None
                        if self.key_of(e.args[i], env) == 'statement':
                            return args(i + 1, {**env_fn, names[i]: (None, 'obj:statement')})
                        if ann not in self.PTYPES or self.PTYPES[ann][1] == 'dict_is':
                            fail(fd, f'helper parameter {names[i]} with unsupported annotation {ann}')
                        return self.cx(e.args[i], env, lambda a, ta: args(i + 1, {**env_fn, names[i]: (a, self.PTYPES[ann][1])}))
                    return args(0, dict(self.base_env))
                if nm in self.funcs:
                    fi = self.funcs[nm]
                    if fi['mutated']:
                        fail(e, 'call of a parameter-mutating function outside an assignment')

                    def args(i, acc):
                        if i == len(e.args):
                            x = self.tmp()
                            return f'match {fi["coq"]} {" ".join(acc)} with None => None | Some {x} => {k(x, fi["ret"])} end'
                        return self.cx(e.args[i], env, lambda a, ta: args(i + 1, acc + [a]))
                    return args(0, [])
                fail(e, 'call of an unknown function')
            if isinstance(f, ast.Attribute):
                if f.attr == 'join' and len(e.args) == 1 and isinstance(f.value, ast.Constant) and f.value.value == '':
                    return self.cx(e.args[0], env, lambda a, ta: k(a, 'str') if ta == 'list_char'
                                   else fail(e, f"''.join of a {ta}"))
                if f.attr == 'find' and len(e.args) == 1 and not e.keywords:
                    return self.cx(f.value, env, lambda a, ta: self.cx(e.args[0], env, lambda c, tc:
                                   k(f'(py_find {c} {a})', 'find_int') if ta == 'str' and tc == 'char1' else fail(e, f'find of {tc} in {ta}')))
                if f.attr == 'isspace' and not e.args:
                    return self.cx(f.value, env, lambda a, ta: k(f'(is_space {a})', 'bool') if ta == 'char'
                                   else fail(e, 'isspace on a non-character'))
                if f.attr == 'get_metavariables' and not e.args and self.key_of(f.value, env) == 'statement':
                    return k('ctx_metavars', 'set_str')
            fail(e, 'unsupported call')
        if isinstance(e, ast.Tuple):
            def go(i, acc):
                if i == len(e.elts):
                    return k('(' + ', '.join(acc) + ')', 'tuple')
                return self.cx(e.elts[i], env, lambda a, ta: go(i + 1, acc + [a]))
            return go(0, [])
        if isinstance(e, ast.List) and not e.elts:
            return k('[]', 'list_any')
        if isinstance(e, (ast.GeneratorExp, ast.ListComp)):
            # (elt for x in xs if cond)  =  the loop that appends elt when cond holds
            if len(e.generators) != 1 or e.generators[0].is_async or len(e.generators[0].ifs) > 1 or not isinstance(e.generators[0].target, ast.Name):
                fail(e, 'comprehension with several loops / conditions / a pattern target')
            g = e.generators[0]

            def kit(xs, tx):
                et = {'str': 'char', 'stmts': 'fstmt', 'list_int': 'int', 'list_str': 'str'}.get(tx)
                if et is None:
                    fail(e, f'comprehension over a {tx}')
                x = cname(g.target.id)
                env2 = {**env, g.target.id: (x, et)}
                elt, telt = self.pure_atom(e.elt, env2)
                rt = {'char': 'list_char', 'str': 'list_str', 'int': 'list_int'}.get(telt)
                if rt is None:
                    fail(e, f'comprehension producing {telt}')
                if g.ifs:
                    c, tc = self.pure_atom(g.ifs[0], env2)
                    if tc != 'bool':
                        fail(e, 'comprehension condition that is not a boolean')
                    return k(f'(py_genexp (fun {x} => if {c} then Some {elt} else None) {xs})', rt)
                return k(f'(py_genexp (fun {x} => Some {elt}) {xs})', rt)
            key = self.key_of(g.iter)
            if key == 'self.parsed.statements':
                return kit('ctx_statements', 'stmts')
            return self.cx(g.iter, env, kit)
        fail(e, 'unsupported expression')

    def cond(self, e, env, k):
        """truth value of e"""
        def kk(a, t):
            if t == 'bool':
                return k(a)
            if t == 'str':
                return k(f'(negb (is_nil {a}))')
            fail(e, f'truth value of a {t}')
        return self.cx(e, env, kk)

    # ---------------------------------------------------------------------------------------- statements
    def assigned(self, stmts, env):
        out = []

        def add(n):
            if n is not None and n not in out:
                out.append(n)
        for s in stmts:
            for n in ast.walk(s):
                if isinstance(n, (ast.Assign, ast.AugAssign, ast.AnnAssign)):
                    tg = n.targets if isinstance(n, ast.Assign) else [n.target]
                    for t in tg:
                        for tt in (t.elts if isinstance(t, ast.Tuple) else [t]):
                            if isinstance(tt, ast.Starred):
                                tt = tt.value
                            if isinstance(tt, ast.Subscript):
                                add(self.key_of(tt.value))
                            else:
                                add(self.key_of(tt))
                    v = n.value
                    if isinstance(v, ast.Call) and self.callee(v.func) in self.funcs:
                        for p in self.funcs[self.callee(v.func)]['mutated']:
                            add(self.key_of(v.args[p]))
                if isinstance(n, ast.Call) and isinstance(n.func, ast.Attribute):
                    if n.func.attr == 'append':
                        add(self.key_of(n.func.value))
                    if n.func.attr == 'load' and 'stack.top' in env:
                        add('stack.top')
                    if n.func.attr in ('save', 'load') and 'trace' in env:
                        add('trace')
                if isinstance(n, ast.For):
                    fail(n, 'nested loop')
                if isinstance(n, ast.Call) and self.callee(n.func) in self.inline_defs and self.callee(n.func) not in getattr(self, '_seen_inl', ()):
                    self._seen_inl = getattr(self, '_seen_inl', ()) + (self.callee(n.func),)
                    try:
                        for v in self.assigned(list(self.inline_defs[self.callee(n.func)].body), env):
                            add(v)
                    finally:
                        self._seen_inl = self._seen_inl[:-1]
        return out

    def pack(self, svars, idx, env):
        parts = [(f'(Some {env[v][0]})' if v == idx else env[v][0]) for v in svars]
        return 'tt' if not parts else parts[0] if len(parts) == 1 else '(' + ', '.join(parts) + ')'

    def block(self, stmts, env, k_end, loop):
        stmts = rewrite_get_none(stmts)
        if not stmts:
            return k_end(env)
        s, rest = stmts[0], stmts[1:]

        def cont(env2):
            return self.block(rest, env2, k_end, loop)

        def bind(name, atom, t, env0):
            # a local is its definition: no `let` is emitted, the (pure) term is substituted at the uses
            env2 = dict(env0)
            env2[name] = (atom, t)
            return cont(env2)

        if isinstance(s, ast.Expr) and isinstance(s.value, ast.Constant):
            return cont(env)                                   # docstring
        if isinstance(s, ast.Pass):
            return cont(env)
        if isinstance(s, (ast.Assign, ast.AnnAssign)):
            if isinstance(s, ast.AnnAssign):
                if s.value is None:
                    fail(s, 'annotation without value')
                targets, value = [s.target], s.value
            else:
                targets, value = s.targets, s.value
            if len(targets) != 1:
                fail(s, 'multiple assignment')
            t = targets[0]
            # X = Proof(a, b): two pseudo-variables X.labels, X.applied_lemmas
            if isinstance(value, ast.Call) and isinstance(value.func, ast.Name) and value.func.id in self.records and isinstance(t, ast.Name):
                # X = Record(a, b): one pseudo-variable X.<field> per field
                fields = self.records[value.func.id]
                argmap = dict(zip(fields, value.args))
                for kw in value.keywords:
                    if kw.arg not in fields or kw.arg in argmap:
                        fail(s, 'record constructor with an unknown / repeated field')
                    argmap[kw.arg] = kw.value
                if len(argmap) != len(fields) or len(value.args) > len(fields):
                    fail(s, 'record constructor without exactly its fields')

                def flds(i, env2):
                    if i == len(fields):
                        return cont({**env2, t.id: (None, 'record')})
                    return self.cx(argmap[fields[i]], env, lambda a, ta: flds(i + 1, {
                        **env2, t.id + '.' + fields[i]: (a, {'list_any': 'list_int' if fields[i] == 'applied_lemmas' else 'list_term'}.get(ta, ta))}))
                return flds(0, dict(env))
            # call of a user function (possibly mutating a dict argument), result to a name or a pair of names
            if isinstance(value, ast.Call) and self.callee(value.func) in self.funcs:
                fi = self.funcs[self.callee(value.func)]

                def args(i, acc):
                    if i == len(value.args):
                        env2 = dict(env)
                        pats = []
                        for p in fi['mutated']:
                            key = self.key_of(value.args[p])
                            if key is None or key not in env:
                                fail(s, 'mutated argument is not a variable')
                            pats.append(cname(key))
                            env2[key] = (cname(key), env[key][1])
                        if isinstance(t, ast.Name) and fi['ret'] == 'tuple' and fi.get('ret_fields'):
                            # the result is a record read by attribute: X.<field>
                            names = [t.id + '.' + fl for fl in fi['ret_fields']]
                            for nm2, ty in zip(names, fi['ret_types']):
                                env2[nm2] = (cname(nm2), ty)
                            env2[t.id] = (None, 'record')
                            pats.append('(' + ', '.join(cname(x) for x in names) + ')')
                        elif isinstance(t, ast.Name):
                            env2[t.id] = (cname(t.id), fi['ret'])
                            pats.append(cname(t.id))
                        elif isinstance(t, ast.Tuple) and all(isinstance(x, ast.Name) for x in t.elts) and fi['ret'] == 'tuple':
                            if len(t.elts) != len(fi['ret_types']):
                                fail(s, 'tuple arity')
                            for x, ty in zip(t.elts, fi['ret_types']):
                                env2[x.id] = (cname(x.id), ty)
                            pats.append('(' + ', '.join(cname(x.id) for x in t.elts) + ')')
                        else:
                            fail(s, 'unsupported target of a call')
                        pat = pats[0] if len(pats) == 1 else '(' + ', '.join(pats) + ')'
                        return f'match {fi["coq"]} {" ".join(acc)} with None => None | Some {pat} =>\n{cont(env2)} end'
                    return self.cx(value.args[i], env, lambda a, ta: args(i + 1, acc + [a]))
                return args(0, [])
            if isinstance(t, ast.Name):
                if isinstance(value, ast.Dict) and not value.keys:
                    return bind(t.id, '[]', 'dict_is', env)
                if isinstance(value, ast.List) and not value.elts and isinstance(s, ast.AnnAssign):
                    ann = ast.unparse(s.annotation)
                    lt = {'list[int]': 'list_int', 'list[str]': 'list_str'}.get(ann, 'list_term')
                    return bind(t.id, '[]', lt, env)
                return self.cx(value, env, lambda a, ta: bind(t.id, a, {'char1': 'str1', 'list_any': 'list_term'}.get(ta, ta), env)
                               if ta != 'char1' else bind(t.id, f'[{a}]', 'str', env))
            if isinstance(t, ast.Tuple) and len(t.elts) == 2 and isinstance(t.elts[1], ast.Name) and isinstance(t.elts[0], ast.Starred) \
                    and isinstance(t.elts[0].value, ast.Name):
                # *init, last = xs : the last element and what precedes it
                r, h = t.elts[0].value.id, t.elts[1].id

                def kk2(a, ta):
                    if ta != 'str':
                        fail(s, 'init/last unpacking of a non-string')
                    rv = cname(r) + '_rev'
                    env2 = {**env, h: (cname(h), 'char'), r: (f'(rev {rv})', 'str')}
                    return f'match (rev {a}) with [] => None | {cname(h)} :: {rv} =>\n{cont(env2)} end'
                return self.cx(value, env, kk2)
            if isinstance(t, ast.Tuple) and len(t.elts) == 2 and isinstance(t.elts[0], ast.Name) and isinstance(t.elts[1], ast.Starred) \
                    and isinstance(t.elts[1].value, ast.Name):
                h, r = t.elts[0].id, t.elts[1].value.id

                def kk(a, ta):
                    if ta != 'str':
                        fail(s, 'head/rest unpacking of a non-string')
                    env2 = {**env, h: (cname(h), 'char'), r: (cname(r), 'str')}
                    return f'match {a} with [] => None | {cname(h)} :: {cname(r)} =>\n{cont(env2)} end'
                return self.cx(value, env, kk)
            if isinstance(t, ast.Subscript) and not isinstance(t.slice, ast.Slice):
                key = self.key_of(t.value)
                if key is None or key not in env or env[key][1] != 'dict_is':
                    fail(s, 'store into something that is not an int->str dict variable')
                return self.cx(t.slice, env, lambda kx, tk: self.cx(value, env, lambda v, tv: (
                    bind(key, f'(dict_set {env[key][0]} {kx} {v})', 'dict_is', env) if tk == 'int' and tv == 'str'
                    else fail(s, f'dict store of {tk} -> {tv}'))))
            fail(s, 'unsupported assignment target')
        if isinstance(s, ast.AugAssign):
            key = self.key_of(s.target)
            if not isinstance(s.op, (ast.Add, ast.Mult)) or key is None or key not in env:
                fail(s, 'unsupported augmented assignment')
            cn, t0 = env[key]

            def kk(a, ta):
                if isinstance(s.op, ast.Mult):
                    if t0 == 'int' and ta == 'int':
                        return bind(key, f'({cn} * {a})', 'int', env)
                    fail(s, f'*= of {ta} to {t0}')
                if t0 == 'int' and ta == 'int':
                    return bind(key, f'({cn} + {a})', 'int', env)
                if t0 == 'str' and ta in ('char', 'char1'):
                    return bind(key, f'({cn} ++ [{a}])', 'str', env)
                if t0 == 'str' and ta == 'str':
                    return bind(key, f'({cn} ++ {a})', 'str', env)
                fail(s, f'+= of {ta} to {t0}')
            return self.cx(s.value, env, kk)
        if isinstance(s, ast.Expr) and isinstance(s.value, ast.Call) and self.callee(s.value.func) in self.inline_defs:
            fd = self.inline_defs[self.callee(s.value.func)]
            c = s.value
            params = [a for a in fd.args.args if a.arg not in ('self', 'cls')]
            if len(params) != len(c.args) or c.keywords:
                fail(s, 'call of a nested helper with other than its positional parameters')
            pnames = {a.arg for a in params}

            depth = len(self.proc_stack)

            def after(e2):
                # variables of the caller that the helper rebinds (closure variables it appends to / stores into) keep their new value;
                # what follows is the caller's code: no longer inside the helper
                saved = self.proc_stack
                self.proc_stack = saved[:depth]
                try:
                    return cont({**env, **{n: e2[n] for n in env if n in e2 and n not in pnames}})
                finally:
                    self.proc_stack = saved

            def pargs(i, env_fn):
                if i == len(params):
                    self.proc_stack.append(after)
                    try:
                        return self.block(list(fd.body), env_fn, after, None)
                    finally:
                        self.proc_stack.pop()
                ann = ast.unparse(params[i].annotation) if params[i].annotation is not None else None
                if ann not in self.PTYPES or self.PTYPES[ann][1] == 'dict_is':
                    fail(fd, f'helper parameter {params[i].arg} with unsupported annotation {ann}')
                return self.cx(c.args[i], env, lambda a, ta: pargs(i + 1, {**env_fn, params[i].arg: (a, self.PTYPES[ann][1])}))
            return pargs(0, dict(env))
        if isinstance(s, ast.Expr) and isinstance(s.value, ast.Call) and isinstance(s.value.func, ast.Attribute):
            c = s.value
            recv = c.func.value
            if c.func.attr == 'append' and len(c.args) == 1:
                key = self.key_of(recv)
                if key is None or key not in env or env[key][1] not in ('list_int', 'list_term'):
                    fail(s, 'append to something that is not a list variable')
                want = 'int' if env[key][1] == 'list_int' else 'term'
                return self.cx(c.args[0], env, lambda a, ta: bind(key, f'({env[key][0]} ++ [{a}])', env[key][1], env)
                               if ta == want else fail(s, f'append of {ta} to {env[key][1]}'))
            # interpreter().save(name, term) / interpreter().load(name, term): replay fragment only
            is_interp = (isinstance(recv, ast.Call) and isinstance(recv.func, ast.Name) and recv.func.id == 'interpreter' and not recv.args) \
                or (isinstance(recv, ast.Name) and recv.id in self.interp_names)
            if c.func.attr in ('save', 'load') and is_interp and 'trace' in env and len(c.args) == 2:
                ev = 'GSave' if c.func.attr == 'save' else 'GLoad'

                def kk(a, ta):
                    if ta != 'term':
                        fail(s, 'save/load of a non-term')
                    env2 = dict(env)
                    txt = f'let v_trace := ({env["trace"][0]} ++ [{ev} {a}]) in\n'
                    env2['trace'] = ('v_trace', 'trace')
                    if ev == 'GLoad':
                        txt += f'let v_stack__top := Some {a} in\n'
                        env2['stack.top'] = ('v_stack__top', 'opt_term')
                    return txt + self.block(rest, env2, k_end, loop)
                # the first argument (a name for pretty printing) is str(<the same expression>): it can raise the same way
                nm = c.args[0]
                if not (isinstance(nm, ast.Call) and isinstance(nm.func, ast.Name) and nm.func.id == 'str' and len(nm.args) == 1):
                    fail(s, 'save/load whose name is not str(...)')
                return self.cx(nm.args[0], env, lambda _a, _t: self.cx(c.args[1], env, kk))
            fail(s, 'unsupported call statement')
        if isinstance(s, ast.Expr) and isinstance(s.value, ast.Name) and s.value.id == '__LABEL_STEP__':
            # everything the loop body does for a hypothesis/label step, abstracted: term v_step_term is left on top
            env2 = dict(env)
            txt = f'let v_trace := ({env["trace"][0]} ++ [GLabel v_step_term]) in\nlet v_stack__top := Some v_step_term in\n'
            env2['trace'] = ('v_trace', 'trace')
            env2['stack.top'] = ('v_stack__top', 'opt_term')
            return txt + self.block(rest, env2, k_end, loop)
        if isinstance(s, ast.If):
            if isinstance(s.test, ast.Compare) and len(s.test.ops) == 1 and isinstance(s.test.ops[0], (ast.NotEq, ast.NotIn)) and s.orelse:
                # `if a != b: A else: B`  =  `if a == b: B else: A`   (only when there is an else branch: the head of the replay loop
                # is `if lemma not in labels: ...; continue`)
                pos = ast.Eq() if isinstance(s.test.ops[0], ast.NotEq) else ast.In()
                t2 = ast.copy_location(ast.Compare(left=s.test.left, ops=[pos], comparators=s.test.comparators), s.test)
                return self.block([ast.copy_location(ast.If(test=t2, body=list(s.orelse), orelse=list(s.body)), s)] + rest, env, k_end, loop)
            if isinstance(s.test, ast.UnaryOp) and isinstance(s.test.op, ast.Not):
                # `if not c: A else: B`  =  `if c: B else: A`
                return self.block([ast.copy_location(ast.If(test=s.test.operand, body=list(s.orelse) or [ast.Pass()],
                                                            orelse=list(s.body)), s)] + rest, env, k_end, loop)
            return self.cond(s.test, env, lambda c: f'if {c} then\n{self.block(list(s.body) + rest, env, k_end, loop)}\n'
                                                    f'else\n{self.block(list(s.orelse) + rest, env, k_end, loop)}')
        if isinstance(s, ast.Assert):
            return self.cond(s.test, env, lambda c: f'if {c} then\n{cont(env)}\nelse None')
        if isinstance(s, ast.Continue):
            if loop is None:
                fail(s, 'continue outside a loop')
            return f'Some (CNext, {self.pack(loop[0], loop[1], env)})'
        if isinstance(s, ast.Break):
            if loop is None:
                fail(s, 'break outside a loop')
            return f'Some (CBreak, {self.pack(loop[0], loop[1], env)})'
        if isinstance(s, ast.Return):
            if s.value is None and loop is None and self.proc_stack:
                return self.proc_stack[-1](env)
            if loop is not None or s.value is None:
                fail(s, 'return inside a loop / without value')
            if self.ret_stack:
                kret = self.ret_stack[-1]

                def leave(a, ta):
                    # what follows the return is the code AFTER the call site: it is no longer inside the inlined helper
                    saved = self.ret_stack
                    self.ret_stack = saved[:-1]
                    try:
                        return kret(a, ta)
                    finally:
                        self.ret_stack = saved
                return self.cx(s.value, env, leave)
            return self.cx(s.value, env, lambda a, ta: self.ret(a, ta, env))
        if isinstance(s, ast.For):
            return self.loop(s, env, cont)
        fail(s, 'unsupported statement')

    def ret(self, a, ta, env):
        mut = [env[p][0] for p in self.cur_mutated]
        if ta.startswith('tuple:'):
            self.cur_ret_fields = self.records[ta[6:]]
            ta = 'tuple'
        self.cur_ret.append(ta)
        if mut:
            return 'Some (' + ', '.join(mut + [a]) + ')'
        return f'Some {a}'

    def loop(self, s, env, cont):
        if s.orelse:
            fail(s, 'for ... else')
        it, idx = s.iter, None
        if isinstance(it, ast.Call) and isinstance(it.func, ast.Name) and it.func.id == 'enumerate' and len(it.args) == 1:
            if not (isinstance(s.target, ast.Tuple) and len(s.target.elts) == 2 and all(isinstance(x, ast.Name) for x in s.target.elts)):
                fail(s, 'enumerate without (index, element) target')
            idx, elem, it = s.target.elts[0].id, s.target.elts[1].id, it.args[0]
        elif isinstance(s.target, ast.Name):
            elem = s.target.id
        else:
            fail(s, 'unsupported loop target')
        body = list(s.body)

        def kit(xs, tx):
            et = {'str': 'char', 'stmts': 'fstmt', 'list_int': 'int', 'steps': 'int'}.get(tx)
            if et is None:
                fail(s, f'iteration over a {tx}' + (' (a set has no defined order)' if tx == 'set_str' else ''))
            svars = self.assigned(body, env)
            if idx is not None:
                if idx in env and env[idx][1] != 'opt_int':
                    fail(s, 'loop index reuses a variable')
                svars = [idx] + [v for v in svars if v != idx]
            # a variable first assigned inside the body is local to one iteration (reading it after the loop is an unknown
            # name -> fail closed); only variables that exist before the loop are carried from one iteration to the next
            svars = [v for v in svars if v == idx or v in env]
            # canonical order of the state tuple: the order in which the variables were first defined before the loop
            order = {v: i for i, v in enumerate(env)}
            svars = sorted(svars, key=lambda v: (-1 if v == idx else order[v]))
            benv = dict(env)
            en = cname(elem)
            benv[elem] = (en, et)
            if tx == 'steps':
                benv[elem] = ('(fst v_step)', 'int')
                benv['step_term'] = ('v_step_term', 'term')
                en = 'v_step'
            pat_parts = [('_' if v == idx else cname(v)) for v in svars]
            for v in svars:
                if v != idx:
                    benv[v] = (cname(v), env[v][1])
            pat = 'tt' if not pat_parts else pat_parts[0] if len(pat_parts) == 1 else "'(" + ', '.join(pat_parts) + ')'
            ienv = dict(benv)
            if idx is not None:
                ienv[idx] = (cname(idx), 'int')
            end = lambda e2: f'Some (CNext, {self.pack(svars, idx, e2)})'  # noqa: E731
            btxt = self.block(body, ienv, end, (svars, idx))
            pre = 'let v_step_term := snd v_step in\n' if tx == 'steps' else ''
            if idx is not None:
                fn = f'(fun {cname(idx)} {en} {pat if not pat.startswith(chr(39)) else "st"} =>\n' + \
                     (f'let {pat} := st in\n' if pat.startswith("'") else '') + pre + btxt + ')'
                call = f'py_for_enum {fn} 0 {xs}'
            else:
                fn = f'(fun {en} {pat if not pat.startswith(chr(39)) else "st"} =>\n' + \
                     (f'let {pat} := st in\n' if pat.startswith("'") else '') + pre + btxt + ')'
                call = f'py_for {fn} {xs}'
            init_parts = [('None' if v == idx else env[v][0]) for v in svars]
            init = 'tt' if not init_parts else init_parts[0] if len(init_parts) == 1 else '(' + ', '.join(init_parts) + ')'
            aenv = dict(env)
            out_parts = []
            for v in svars:
                if v == idx:
                    aenv[v] = (cname(v), 'opt_int')
                    out_parts.append(cname(v))
                else:
                    aenv[v] = (cname(v), env[v][1])
                    out_parts.append(cname(v))
            opat = '_' if not out_parts else out_parts[0] if len(out_parts) == 1 else '(' + ', '.join(out_parts) + ')'
            return f'match {call} {init} with None => None | Some {opat} =>\n{cont(aenv)} end'
        # iterable
        key = self.key_of(it)
        if key == 'self.parsed.statements':
            return kit('ctx_statements', 'stmts')
        if key in ('exported_proof.applied_lemmas',) and 'trace' in env:
            return kit('ctx_steps', 'steps')
        return self.cx(it, env, kit)

    # ---------------------------------------------------------------------------------------- functions
    PTYPES = {'str': ('str', 'str'), 'str | None': ('str', 'str'), 'dict[int, str]': ('list (N * str)', 'dict_is'), 'int': ('N', 'int')}

    def function(self, fd, coq, extra_env=None, body=None):
        params, env = [], dict(extra_env or {})
        for a in fd.args.args:
            if a.arg == 'self':
                continue
            ann = ast.unparse(a.annotation) if a.annotation is not None else None
            if ann not in self.PTYPES:
                fail(fd, f'parameter {a.arg} with unsupported annotation {ann}')
            ct, t = self.PTYPES[ann]
            params.append(f'({cname(a.arg)} : {ct})')
            env[a.arg] = (cname(a.arg), t)
        stmts = list(fd.body) if body is None else body
        # which parameters does the body store into (dict passed by reference)?
        mut = []
        names = [a.arg for a in fd.args.args if a.arg != 'self']
        for n in ast.walk(ast.Module(body=stmts, type_ignores=[])):
            if isinstance(n, ast.Assign):
                for t in n.targets:
                    if isinstance(t, ast.Subscript) and isinstance(t.value, ast.Name) and t.value.id in names and t.value.id not in mut:
                        mut.append(t.value.id)
        self.cur_mutated, self.cur_ret, self.cur_ret_fields = mut, [], None
        txt = self.block(stmts, env, lambda e2: fail(fd, 'function can end without return'), None)
        rets = set(self.cur_ret)
        if len(rets) != 1:
            fail(fd, f'return types {rets}')
        self.funcs[fd.name] = dict(coq=coq, mutated=[names.index(m) for m in mut], ret=rets.pop(), ret_fields=self.cur_ret_fields)
        return f'Definition {coq} {" ".join(params)} :=\n{txt}.\n'


def rewrite_get_none(stmts):
    """x = D.get(K); if x is None: A else: B   ==   if K not in D: A else: x = D[K]; B
    (valid for a dict whose values are never None — the translator only knows dicts of strings / integers —, D and K being the
    same expressions in two adjacent statements).  When A always leaves (ends with continue / break / return / raise) the else
    branch is what follows the if."""
    out, i = [], 0
    stmts = list(stmts)
    while i < len(stmts):
        s = stmts[i]
        nxt = stmts[i + 1] if i + 1 < len(stmts) else None
        if isinstance(s, ast.Assign) and len(s.targets) == 1 and isinstance(s.targets[0], ast.Name) and isinstance(s.value, ast.Call) \
                and isinstance(s.value.func, ast.Attribute) and s.value.func.attr == 'get' and len(s.value.args) == 1 and not s.value.keywords \
                and isinstance(nxt, ast.If) and isinstance(nxt.test, ast.Compare) and len(nxt.test.ops) == 1 \
                and isinstance(nxt.test.ops[0], (ast.Is, ast.IsNot)) and isinstance(nxt.test.left, ast.Name) \
                and nxt.test.left.id == s.targets[0].id and isinstance(nxt.test.comparators[0], ast.Constant) \
                and nxt.test.comparators[0].value is None:
            d, key, x = s.value.func.value, s.value.args[0], s.targets[0]
            absent, present = (nxt.body, nxt.orelse) if isinstance(nxt.test.ops[0], ast.Is) else (nxt.orelse, nxt.body)
            lookup = ast.copy_location(ast.Assign(targets=[x], value=ast.Subscript(value=d, slice=key, ctx=ast.Load()), lineno=s.lineno), s)
            test = ast.copy_location(ast.Compare(left=key, ops=[ast.NotIn()], comparators=[d]), nxt.test)
            absent, present = list(absent), list(present)
            if absent and isinstance(absent[-1], (ast.Continue, ast.Break, ast.Return, ast.Raise)):
                out.append(ast.copy_location(ast.If(test=test, body=absent, orelse=[]), nxt))
                out.append(lookup)
                out.extend(present)
            else:
                out.append(ast.copy_location(ast.If(test=test, body=absent or [ast.Pass()], orelse=[lookup] + present), nxt))
            i += 2
            continue
        out.append(s)
        i += 1
    return out


def find_method(tree, cls, name):
    for n in ast.walk(tree):
        if isinstance(n, ast.ClassDef) and n.name == cls:
            for m in n.body:
                if isinstance(m, ast.FunctionDef) and m.name == name:
                    return m
    raise SystemExit(f'mmdecode translator: {cls}.{name} not found')


def indent(txt):
    out, d = [], 1
    for line in txt.split('\n'):
        out.append('  ' * d + line)
    return '\n'.join(out)


def generate(repo):
    import sys
    sys.setrecursionlimit(max(sys.getrecursionlimit(), 20000))     # the compiler is written in continuation-passing style
    pkg = os.path.join(repo, 'generation', 'src', 'proof_generation', 'metamath')
    conv = ast.parse(open(os.path.join(pkg, 'converter', 'converter.py')).read())
    trans = ast.parse(open(os.path.join(pkg, 'translate.py')).read())
    T = Tr()
    src_root = os.path.join(repo, 'generation', 'src')
    T.module_tree, T.module_path, T.src_root = conv, os.path.join(pkg, 'converter', 'converter.py'), src_root
    ip = find_method(conv, 'MetamathConverter', '_import_proof')
    if [a.arg for a in ip.args.args] != ['self', 'statement'] or ip.args.kwonlyargs or ip.args.vararg or ip.args.kwarg:
        fail(ip, '_import_proof has other parameters than (self, statement)')
    out = ['(** GENERATED by translators/mmdecode.py from metamath/converter/converter.py (_import_proof) and metamath/translate.py',
           '    (head of the replay loop of exec_proof) — do not edit; regenerated on every run of ./check C15. *)',
           'From Coq Require Import NArith List Bool.', 'From Pi2 Require Import MM15.Codec MM15.GenPrelude.',
           'Import ListNotations.', 'Open Scope N_scope.', '']
    tail = []
    nested = {}

    def const_table(node, value):
        """[(ord, value)] of a constant digit table, or None: a dict literal {'A': 1, ...} or the comprehension
        {letter: value for value, letter in enumerate('ABC...', start=k)} (folded here: it is literal data)"""
        if isinstance(value, ast.Dict) and value.keys:
            items = []
            for kx, vx in zip(value.keys, value.values):
                if not (isinstance(kx, ast.Constant) and isinstance(kx.value, str) and len(kx.value) == 1
                        and isinstance(vx, ast.Constant) and isinstance(vx.value, int) and not isinstance(vx.value, bool) and vx.value >= 0):
                    fail(node, 'digit table entry that is not one character -> natural number')
                items.append((ord(kx.value), vx.value))
            return items
        if isinstance(value, ast.DictComp) and len(value.generators) == 1 and not value.generators[0].ifs:
            g = value.generators[0]
            it = g.iter
            if isinstance(g.target, ast.Tuple) and len(g.target.elts) == 2 and all(isinstance(x, ast.Name) for x in g.target.elts) \
                    and isinstance(it, ast.Call) and isinstance(it.func, ast.Name) and it.func.id == 'enumerate' and len(it.args) == 1 \
                    and isinstance(it.args[0], ast.Constant) and isinstance(it.args[0].value, str) \
                    and isinstance(value.key, ast.Name) and isinstance(value.value, ast.Name) \
                    and value.key.id == g.target.elts[1].id and value.value.id == g.target.elts[0].id:
                start = 0
                for kw in it.keywords:
                    if kw.arg == 'start' and isinstance(kw.value, ast.Constant) and isinstance(kw.value.value, int):
                        start = kw.value.value
                    else:
                        fail(node, 'enumerate with unsupported keyword')
                letters = it.args[0].value
                if len(set(letters)) != len(letters):
                    fail(node, 'digit table with a repeated letter')
                return [(ord(c), start + i) for i, c in enumerate(letters)]
        return None

    def never_mutated(tree, name, where):
        for n in ast.walk(tree):
            if isinstance(n, (ast.Assign, ast.AugAssign, ast.AnnAssign, ast.Delete)):
                tg = n.targets if isinstance(n, (ast.Assign, ast.Delete)) else [n.target]
                for t in tg:
                    if isinstance(t, ast.Subscript) and isinstance(t.value, ast.Name) and t.value.id == name:
                        fail(n, f'constant table {name} is stored into')
            if isinstance(n, ast.Call) and isinstance(n.func, ast.Attribute) and isinstance(n.func.value, ast.Name) and n.func.value.id == name \
                    and n.func.attr in ('update', 'pop', 'popitem', 'clear', 'setdefault', '__setitem__', '__delitem__'):
                fail(n, f'constant table {name} is mutated')
            if isinstance(n, ast.Global) and name in n.names:
                fail(n, f'constant table {name} is declared global')
        binds = [n for n in ast.walk(where) if isinstance(n, (ast.Assign, ast.AnnAssign))
                 and any(isinstance(t, ast.Name) and t.id == name for t in (n.targets if isinstance(n, ast.Assign) else [n.target]))]
        if len(binds) != 1:
            fail(where, f'constant table {name} is bound {len(binds)} times')

    # module-level constants (a module-level dict that is never mutated is a constant, not state)
    for s in conv.body:
        if isinstance(s, (ast.Assign, ast.AnnAssign)):
            tg = s.targets[0] if isinstance(s, ast.Assign) and len(s.targets) == 1 else s.target if isinstance(s, ast.AnnAssign) else None
            if isinstance(tg, ast.Name) and s.value is not None:
                items = const_table(s, s.value)
                if items is not None:
                    never_mutated(conv, tg.id, conv)
                    T.consts[tg.id] = items
    for s in ip.body:
        if isinstance(s, ast.Expr) and isinstance(s.value, ast.Constant):
            continue
        if isinstance(s, ast.Assign) and len(s.targets) == 1 and isinstance(s.targets[0], ast.Name) and not tail \
                and const_table(s, s.value) is not None:
            never_mutated(ip, s.targets[0].id, ip)
            T.consts[s.targets[0].id] = const_table(s, s.value)
            continue
        if isinstance(s, ast.FunctionDef) and not tail:
            nested[s.name] = s
            continue
        tail.append(s)
    # ---- which function plays which role is decided by what the functions DO, not by their names or where they live:
    #      candidates = nested functions of _import_proof, methods of the class, module-level functions
    cls_node = next(n for n in ast.walk(conv) if isinstance(n, ast.ClassDef) and n.name == 'MetamathConverter')
    cands = {}
    for n in conv.body:
        if isinstance(n, ast.FunctionDef):
            cands[n.name] = n
    for n in cls_node.body:
        if isinstance(n, ast.FunctionDef) and n.name != '_import_proof':
            cands[n.name] = n
    cands.update(nested)

    def calls(fd):
        return {T.callee(c.func) for c in ast.walk(fd) if isinstance(c, ast.Call) and T.callee(c.func) in cands}

    # reachable from _import_proof
    reach, todo = set(), [ip]
    while todo:
        for nm in calls(todo.pop()):
            if nm not in reach:
                reach.add(nm)
                todo.append(cands[nm])

    def stores_into_dict_param(fd):
        ps = {a.arg for a in fd.args.args if a.annotation is not None and ast.unparse(a.annotation).startswith('dict[')}
        return any(isinstance(n, ast.Assign) and any(isinstance(t, ast.Subscript) and isinstance(t.value, ast.Name) and t.value.id in ps
                                                     for t in n.targets) for n in ast.walk(fd))

    def subscripts_table(fd):
        return any(isinstance(n, ast.Subscript) and isinstance(n.value, ast.Name) and n.value.id in T.consts
                   and isinstance(n.ctx, ast.Load) for n in ast.walk(fd))

    def one(what, names):
        if len(names) != 1:
            raise SystemExit(f'mmdecode translator: expected exactly one function that {what}, found {sorted(names)}')
        return next(iter(names))
    r_parse = one('stores labels into a dict parameter', {n for n in reach if stores_into_dict_param(cands[n])})
    r_convert = one('looks letters up in the digit tables', {n for n in reach if subscripts_table(cands[n])})
    r_split = one('calls the label-block parser', {n for n in reach if r_parse in calls(cands[n])})
    roles = {r_convert: 'gen_convert_to_number', r_parse: 'gen_parse_lemmas', r_split: 'gen_split_proof'}
    # record classes of the module (NamedTuple with annotated fields) are tuples read by attribute
    for n in conv.body:
        if isinstance(n, ast.ClassDef) and any((isinstance(bs, ast.Name) and bs.id == 'NamedTuple') for bs in n.bases):
            T.records[n.name] = [st.target.id for st in n.body if isinstance(st, ast.AnnAssign) and isinstance(st.target, ast.Name)]
    # every other reachable function is inlined at its call sites (a helper = its body with the parameters substituted)
    for nm in reach:
        fd = cands[nm]
        if nm not in roles:
            deco = [ast.unparse(d) for d in fd.decorator_list]
            if fd.args.kwonlyargs or fd.args.vararg or fd.args.kwarg or fd.args.defaults or any(d != 'staticmethod' for d in deco):
                fail(fd, 'helper with defaults / decorators / variadic parameters')
            T.inline_defs[nm] = fd
    for nm in roles:
        deco = [ast.unparse(d) for d in cands[nm].decorator_list]
        if any(d != 'staticmethod' for d in deco):
            fail(cands[nm], 'decorated function')
    T.base_env = {'statement.proof': ('v_statement_proof', 'str')}
    defs_pos = len(out)
    out += ['Section Ctx.', '(** the database statements split_proof walks and the set statement.get_metavariables() (membership only) *)',
            'Variable ctx_statements : list gstmt.', 'Variable ctx_metavars : list str.', '']
    # order: callees first
    out.append(T.function(cands[r_convert], 'gen_convert_to_number'))
    out.append(T.function(cands[r_parse], 'gen_parse_lemmas'))
    out.append(T.function(cands[r_split], 'gen_split_proof'))
    T.funcs[r_split]['ret_types'] = ['dict_is', 'str']
    # tail of _import_proof: statement.proof is the only thing it reads from the statement
    fake = ast.FunctionDef(name='_import_proof_tail', args=ast.arguments(posonlyargs=[], args=[], kwonlyargs=[], kw_defaults=[], defaults=[]),
                           body=tail, decorator_list=[], lineno=ip.lineno)
    env0 = {'statement.proof': ('v_statement_proof', 'str')}
    # `return result` returns the Proof object = (labels, applied_lemmas)
    class RetFix(ast.NodeTransformer):
        def visit_Return(self, node):
            v = node.value
            if isinstance(v, ast.Call) and isinstance(v.func, ast.Name) and v.func.id == 'Proof' and len(v.args) == 2 and not v.keywords:
                return ast.copy_location(ast.Return(value=ast.Tuple(elts=list(v.args), ctx=ast.Load())), node)
            if isinstance(node.value, ast.Name) and node.value.id == 'result':
                return ast.copy_location(ast.Return(value=ast.Tuple(elts=[
                    ast.Attribute(value=ast.Name(id='result', ctx=ast.Load()), attr='labels', ctx=ast.Load()),
                    ast.Attribute(value=ast.Name(id='result', ctx=ast.Load()), attr='applied_lemmas', ctx=ast.Load())], ctx=ast.Load())), node)
            return node
    tail = [RetFix().visit(s) for s in tail]
    txt = T.function(fake, 'gen_import_proof', extra_env=env0, body=tail)
    out.append(txt.replace('Definition gen_import_proof  :=', 'Definition gen_import_proof (v_statement_proof : str) :='))
    out += ['End Ctx.', '']
    if sorted(T.tables.values()) != ['gen_lsdigit', 'gen_msdigit']:
        raise SystemExit(f'mmdecode translator: expected two digit tables, found {sorted(T.tables)}')
    out[defs_pos:defs_pos] = T.table_defs

    # ---- translate.py exec_proof: head of the replay loop ------------------------------------------------------------
    ep = next((n for n in trans.body if isinstance(n, ast.FunctionDef) and n.name == 'exec_proof'), None)
    if ep is None:
        raise SystemExit('mmdecode translator: exec_proof not found')
    pre, loop = [], None
    for s in ep.body:
        if isinstance(s, ast.AnnAssign) and isinstance(s.target, ast.Name) and s.target.id == 'mm_memory':
            pre.append(s)
        elif isinstance(s, ast.Assign) and isinstance(s.targets[0], ast.Name) and s.targets[0].id == 'memory_offset':
            pre.append(s)
        elif isinstance(s, ast.For) and T.key_of(s.iter) == 'exported_proof.applied_lemmas':
            loop = s
            break
    if loop is None or len(pre) != 2:
        raise SystemExit('mmdecode translator: exec_proof: mm_memory / memory_offset / replay loop not found')
    loop.body = rewrite_get_none(loop.body)
    head = loop.body[0]
    if not (isinstance(head, ast.If) and not head.orelse and isinstance(head.body[-1], ast.Continue)):
        fail(head, 'the replay loop does not start with `if <number not a label>: ...; continue`')
    # every later statement of the body must not touch mm_memory / memory_offset (it is abstracted to a label step)
    for s in loop.body[1:]:
        for n in ast.walk(s):
            if isinstance(n, ast.Name) and n.id in ('mm_memory', 'memory_offset'):
                fail(n, 'mm_memory/memory_offset used outside the head of the replay loop')
    newloop = ast.For(target=loop.target, iter=loop.iter, body=[head, ast.Expr(value=ast.Name(id='__LABEL_STEP__', ctx=ast.Load()))],
                      orelse=[], lineno=loop.lineno)
    ret = ast.Return(value=ast.Name(id='trace', ctx=ast.Load()))
    fake = ast.FunctionDef(name='exec_proof_head', args=ast.arguments(posonlyargs=[], args=[], kwonlyargs=[], kw_defaults=[], defaults=[]),
                           body=pre + [newloop, ret], decorator_list=[], lineno=ep.lineno)
    env0 = {'exported_proof.labels': ('ctx_labels', 'dict_is'), 'trace': ('v_trace', 'trace'), 'stack.top': ('v_stack__top', 'opt_term')}
    T2 = Tr()
    T2.fresh = 1000
    T2.interp_names = {a.arg for a in ep.args.args if a.arg in ('interp', 'interpreter')}
    T2.module_tree, T2.module_path, T2.src_root = trans, os.path.join(pkg, 'translate.py'), src_root
    # nested handlers of exec_proof called from the head of the loop are inlined; a handler that touches the marks may be called
    # from the head only
    enested = {n.name: n for n in ep.body if isinstance(n, ast.FunctionDef)}
    head_calls = {T2.callee(c.func) for c in ast.walk(head) if isinstance(c, ast.Call) and T2.callee(c.func) in enested}
    for nm, fd in enested.items():
        touches = any(isinstance(n, ast.Name) and n.id in ('mm_memory', 'memory_offset') for n in ast.walk(fd))
        if nm in head_calls:
            if fd.args.kwonlyargs or fd.args.vararg or fd.args.kwarg or fd.args.defaults or fd.decorator_list:
                fail(fd, 'nested handler with defaults / decorators / variadic parameters')
            T2.inline_defs[nm] = fd
        elif touches:
            fail(fd, 'a handler outside the head of the replay loop uses mm_memory/memory_offset')
    txt = T2.function(fake, 'gen_replay', extra_env=env0, body=pre + [newloop, ret])
    txt = txt.replace('Definition gen_replay  :=\n', 'Definition gen_replay : option (list (gev term)) :=\nlet v_trace := [] in\nlet v_stack__top := @None term in\n')
    out += ['(** translate.py exec_proof: what a number denotes during replay.  [ctx_labels] = exported_proof.labels, [ctx_steps] = the',
            '    decoded steps, each paired with the term a hypothesis/label step would leave on top of the stack. *)',
            'Inductive gev (A : Type) := GSave (p : A) | GLoad (p : A) | GLabel (t : A).',
            'Arguments GSave {A}. Arguments GLoad {A}. Arguments GLabel {A}.',
            'Section Replay.', 'Variable term : Type.', 'Variable term_eqb : term -> term -> bool.',
            'Variable ctx_labels : list (N * str).', 'Variable ctx_steps : list (N * term).', '', txt, 'End Replay.', '']
    return '\n'.join(out)


if __name__ == '__main__':
    import sys
    print(generate(sys.argv[1] if len(sys.argv) > 1 else '/repo'))

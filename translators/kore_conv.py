"""Fail-closed translator (Python `ast` -> Gallina) for the functions in which C20's logic lives:

  k/kore_convertion/language_semantics.py   KSort.aml_symbol, KSymbol.aml_symbol, KSymbol.app,
        ConvertionScope.SORT_PARAM_METAVAR / resolve_metavar / lookup_metavar / resolve_sort_param_metavar,
        LanguageSemantics._convert_sort / _convert_pattern / convert_substitutions
  proof.py                                  ProofExp.add_axiom / add_axioms / add_assumptions
  k/execution_proof_generation.py           ExecutionProofExp.current_configuration / collect_functional_axioms /
        add_assumptions_for_rewrite_step / rewrite_event / from_proof_hints

Output: coq/Gen/KoreConv.v (vocabulary: coq/K/GenPrims.v).  Translation is statement by statement and expression
by expression: locals keep their names (prefix v_), statement order is kept, every guard / comparison / constant /
dict or list operation is emitted from the AST node.  Mutated objects (`scope`, `self`) are threaded: a call that
mutates the scope rebinds `v_scope`.  A Python exception is `None`.  Anything outside the recognised subset raises
SystemExit naming the node (fail closed).  Recursion of `_convert_pattern` is on explicit fuel.

NOT translated (primitives of GenPrims.v / hand model, tied differentially only): the notation definitions of
proofs/kore.py and definedness.py (kore_rewrites ... functional), Pattern.instantiate / == / match_single
(`inst`, `kpat_eqb`, `match_rewrites`), kl.deconstruct_nary_application, LanguageSemantics.get_symbol/get_sort/
resolve_to_ksymbol and the module structure, ProofExp.load_axiom / dynamic_inst / add_proof_expression,
from_kore_definition, get_proof_hints.
"""
from __future__ import annotations

import ast
import os
import sys

OUT = 'KoreConv.v'


def die(where, node, why):
    src = ast.unparse(node) if isinstance(node, ast.AST) else str(node)
    raise SystemExit(f'kore_conv: {where}: line {getattr(node, "lineno", "?")}: {why}: `{src[:140]}`')


# pyk classes -> (constructor, field types)
KORE = {
    'Rewrites': ('GRewrites', ['sort', 'gkore', 'gkore']), 'And': ('GAnd', ['sort', 'gkores']),
    'Or': ('GOr', ['sort', 'gkores']), 'In': ('GIn', ['sort', 'sort', 'gkore', 'gkore']),
    'Not': ('GNot', ['sort', 'gkore']), 'Next': ('GNext', ['sort', 'gkore']),
    'Implies': ('GImplies', ['sort', 'gkore', 'gkore']), 'Ceil': ('GCeil', ['sort', 'sort', 'gkore']),
    'Floor': ('GFloor', ['sort', 'sort', 'gkore']), 'Iff': ('GIff', ['sort', 'gkore', 'gkore']),
    'Equals': ('GEquals', ['sort', 'sort', 'gkore', 'gkore']), 'App': ('GApp', ['str', 'sorts', 'gkores']),
    'EVar': ('GEVar', ['str', 'sort']), 'SVar': ('GSVar', ['str', 'sort']), 'Top': ('GTop', ['sort']),
    'Bottom': ('GBottom', ['sort']), 'DV': ('GDV', ['sort', 'kstring']),
    'Exists': ('GExists', ['sort', 'gkore', 'gkore']), 'Forall': ('GForall', ['sort', 'gkore', 'gkore']),
    'Mu': ('GMu', ['gkore', 'gkore']), 'Nu': ('GNu', ['gkore', 'gkore']),
}
# kl.<name>(args) -> Gallina notation function (hand model K/Kore.v), arity
NOTATIONS = {'kore_rewrites': 3, 'kore_and': 3, 'kore_or': 3, 'kore_in': 4, 'kore_not': 2, 'kore_next': 2,
             'kore_implies': 3, 'kore_ceil': 3, 'kore_floor': 3, 'kore_iff': 3, 'kore_equals': 4, 'kore_top': 1,
             'kore_bottom': 1, 'kore_dv': 2}
COQTYPE = {'sort': 'ksort', 'gkore': 'gkore', 'gkores': 'list gkore', 'sorts': 'list ksort', 'str': 'string',
           'kpat': 'kpat', 'kpats': 'list kpat', 'gscope': 'gscope', 'gsem': 'gsem', 'N': 'N', 'ksymbol': 'ksymbol',
           'ksortdecl': 'string', 'gexec': 'gexec', 'krule': 'krule', 'ndict': 'list (N * kpat)',
           'sdictk': 'list (string * gkore)', 'sig': 'sig', 'hints': 'list hint', 'kstring': 'string',
           'gnotation': 'gnotation', 'pmodule': 'pmodule', 'proofterm': '(kpat * list (N * kpat))',
           'convaxioms': 'list (string * kpat)', 'bool': 'bool'}
# (type, attribute) -> (coq function applied to the object, result type)
ATTRS = {
    ('sort', 'name'): ('sort_name', 'str'), ('kpat', 'name'): ('metavar_name', 'N'),
    ('ksortdecl', 'name'): ('', 'str'), ('kstring', 'value'): ('', 'str'),
    ('ksymbol', 'name'): ('ks_name', 'str'), ('ksymbol', 'is_functional'): ('ks_functional', 'bool'),
    ('ksymbol', 'sort_params'): ('ks_nparams', 'natlen'), ('ksymbol', 'input_sorts'): ('ks_nargs', 'natlen'),
    ('ksymbol', 'is_cell'): (None, 'ignored'),
    ('gscope', '_metavars'): ('g_metavars', 'sdict'), ('gscope', '_sort_param_metavars'): ('g_sortparams', 'sdict'),
    ('krule', 'pattern'): ('r_pat', 'kpat'), ('gexec', '_curr_config'): ('x_cur', 'kpat'),
    ('gexec', '_axioms'): ('x_axioms', 'kpats'), ('gexec', '_claims'): ('x_claims', 'kpats'),
    ('hint', 'configuration_before'): ('h_before', 'kpat'), ('hint', 'axiom'): ('h_rule', 'krule'),
    ('hint', 'substitutions'): ('h_subst', 'ndict'), ('convaxiom', 'pattern'): ('snd', 'kpat'),
}
SETTERS = {('gscope', '_metavars'): 'set_metavars', ('gscope', '_sort_param_metavars'): 'set_sortparams',
           ('gexec', '_curr_config'): 'set_cur', ('gexec', '_axioms'): 'set_axioms', ('gexec', '_claims'): 'set_claims'}


class Fn:
    """one translated function: where it is, how it is called, what it returns"""

    def __init__(self, file, cls, name, coq, params, ret, state=None, fuel=False, rec=False, extra=()):
        self.file, self.cls, self.name, self.coq = file, cls, name, coq
        self.params = params          # [(python name, type)] in Python order (self included)
        self.ret = ret                # type of the returned value ('unit' = None)
        self.state = state            # python name of the threaded (mutated) object, or None
        self.fuel, self.rec, self.extra = fuel, rec, list(extra)   # extra: implicit leading parameters


LS = 'k/kore_convertion/language_semantics.py'
EP = 'k/execution_proof_generation.py'
FUNCS = [
    Fn(LS, 'KSort', 'aml_symbol', 'gen_KSort_aml_symbol', [('self', 'ksortdecl')], 'kpat'),
    Fn(LS, 'KSymbol', 'aml_symbol', 'gen_KSymbol_aml_symbol', [('self', 'ksymbol')], 'kpat'),
    Fn(LS, 'KSymbol', 'app', 'gen_KSymbol_app', [('self', 'ksymbol')], 'gnotation'),
    Fn(LS, 'ConvertionScope', 'resolve_metavar', 'gen_resolve_metavar', [('self', 'gscope'), ('name', 'str')], 'kpat', state='self'),
    Fn(LS, 'ConvertionScope', 'lookup_metavar', 'gen_lookup_metavar', [('self', 'gscope'), ('name', 'str')], 'kpat', state='self'),
    Fn(LS, 'ConvertionScope', 'resolve_sort_param_metavar', 'gen_resolve_sort_param_metavar', [('self', 'gscope'), ('name', 'str')], 'kpat', state='self'),
    Fn(LS, 'LanguageSemantics', '_convert_sort', 'gen__convert_sort', [('self', 'gsem'), ('scope', 'gscope'), ('sort', 'sort')], 'kpat', state='scope'),
    Fn(LS, 'LanguageSemantics', '_convert_pattern', 'gen__convert_pattern', [('self', 'gsem'), ('scope', 'gscope'), ('pattern', 'gkore')], 'kpat', state='scope', fuel=True, rec=True),
    Fn(LS, 'LanguageSemantics', 'convert_substitutions', 'gen_convert_substitutions', [('self', 'gsem'), ('subst', 'sdictk'), ('axiom_ordinal', 'N')], 'ndict', state='scope', fuel=True),
    Fn('proof.py', 'ProofExp', 'add_axiom', 'gen_add_axiom', [('self', 'gexec'), ('axiom', 'kpat')], 'unit', state='self'),
    Fn('proof.py', 'ProofExp', 'add_axioms', 'gen_add_axioms', [('self', 'gexec'), ('axioms', 'kpats')], 'unit', state='self'),
    Fn('proof.py', 'ProofExp', 'add_assumptions', 'gen_add_assumptions', [('self', 'gexec'), ('axioms', 'kpats')], 'unit', state='self'),
    Fn(EP, 'ExecutionProofExp', 'current_configuration', 'gen_current_configuration', [('self', 'gexec')], 'kpat'),
    Fn(EP, 'ExecutionProofExp', 'collect_functional_axioms', 'gen_collect_functional_axioms', [('language_semantics', 'sig'), ('substitutions', 'ndict')], 'convaxioms'),
    Fn(EP, 'ExecutionProofExp', 'add_assumptions_for_rewrite_step', 'gen_add_assumptions_for_rewrite_step', [('self', 'gexec'), ('rule', 'krule'), ('substitutions', 'ndict')], 'unit', state='self', extra=[('language_semantics', 'sig')]),
    Fn(EP, 'ExecutionProofExp', 'rewrite_event', 'gen_rewrite_event', [('self', 'gexec'), ('rule', 'krule'), ('substitution', 'ndict')], 'proofterm', state='self', extra=[('language_semantics', 'sig')]),
    Fn(EP, 'ExecutionProofExp', 'from_proof_hints', 'gen_from_proof_hints', [('hints', 'hints'), ('language_semantics', 'sig')], 'pmodule'),
]
BYNAME = {f.name: f for f in FUNCS}


def v(name):
    return 'v_' + name


class Ctx:
    def __init__(self, fn):
        self.fn = fn
        self.types = {}
        self.binds = []
        self.n = 0
        self.where = f'{fn.cls}.{fn.name}'
        self.pure = not fn.state and fn.name in ('aml_symbol', 'app', 'current_configuration')

    def fresh(self):
        self.n += 1
        return f't{self.n}'

    def ret_wrap(self, val):
        f = self.fn
        if self.pure:
            return val
        if f.state:
            return f'Some ({v(f.state)}, {val})' if f.ret != 'unit' else f'Some {v(f.state)}'
        return f'Some {val}'


def wrap_binds(binds, body):
    for kind, pat, expr in reversed(binds):
        body = f'match {expr} with None => None | Some {pat} => {body} end'
    return body


# ------------------------------------------------------------------------------------------------ expressions

def call_fn(f, ctx, args_coq):
    """application of a translated function; extra (implicit) parameters first, fuel after them"""
    pre = [v(n) for n, _ in f.extra]
    if f.fuel:
        pre.append('fuel')
    return '(' + ' '.join([f.coq] + pre + args_coq) + ')'


def tr_expr(e, ctx):
    """-> (coq, type); partial / mutating sub-expressions are bound in ctx.binds (in evaluation order)"""
    w = ctx.where
    if isinstance(e, ast.Name):
        if e.id not in ctx.types:
            die(w, e, 'unknown name')
        return v(e.id), ctx.types[e.id]
    if isinstance(e, ast.Constant):
        if isinstance(e.value, str):
            if '"' in e.value:
                die(w, e, 'string constant with a quote')
            return f'"{e.value}"%string', 'str'
        if isinstance(e.value, bool) or not isinstance(e.value, int):
            die(w, e, 'constant')
        return f'{e.value}%N', 'N'
    if isinstance(e, ast.Dict) and not e.keys:
        return '[]', 'ndict'
    if isinstance(e, ast.List) and not e.elts:
        return '[]', 'emptylist'
    if isinstance(e, ast.Attribute):
        # class constant / module-level things first
        if isinstance(e.value, ast.Name) and e.value.id == 'self' and e.attr == 'SORT_PARAM_METAVAR':
            return 'gen_SORT_PARAM_METAVAR', 'N'
        if isinstance(e.value, ast.Name) and e.value.id == 'self' and e.attr == 'language_semantics':
            return v('language_semantics'), 'sig'
        if dotted(e) == 'kl.kore_kseq':
            return 'NotKseq', 'gnotation'
        if isinstance(e.value, ast.Name) and e.value.id == 'AxiomType':
            return f'"{e.attr}"%string', 'str'
        o, t = tr_expr(e.value, ctx)
        # translated properties
        for f in FUNCS:
            if f.name == e.attr and len(f.params) == 1 and f.params[0][1] == t and not f.state:
                return call_fn(f, ctx, [o]), f.ret
        if (t, e.attr) == ('gkore', 'sort'):
            x = ctx.fresh()
            ctx.binds.append(('p', x, f'gvar_sort {o}'))
            return x, 'sort'
        if (t, e.attr) not in ATTRS:
            die(w, e, f'attribute of a {t}')
        fn, rt = ATTRS[(t, e.attr)]
        if fn is None:
            return '_ignored_', rt
        return (f'({fn} {o})' if fn else o), rt
    if isinstance(e, ast.BinOp) and isinstance(e.op, ast.Add):
        a, ta = tr_expr(e.left, ctx)
        b, tb = tr_expr(e.right, ctx)
        if ta == tb == 'str':
            return f'({a} ++ {b})%string', 'str'
        if ta == tb == 'kpats':
            return f'({a} ++ {b})', 'kpats'
        if ta == tb == 'N':
            return f'({a} + {b})%N', 'N'
        die(w, e, f'+ on {ta}, {tb}')
    if isinstance(e, ast.Subscript):
        o, t = tr_expr(e.value, ctx)
        if t == 'tup3' and isinstance(e.slice, ast.Constant) and e.slice.value in (0, 1, 2):
            return ['(fst (fst %s))', '(snd (fst %s))', '(snd %s)'][e.slice.value] % o, 'kpat'
        if t == 'gkores' and isinstance(e.slice, ast.Constant) and isinstance(e.slice.value, int) and e.slice.value >= 0:
            x = ctx.fresh()
            ctx.binds.append(('p', x, f'nth_error {o} {e.slice.value}'))
            return x, 'gkore'
        k, tk = tr_expr(e.slice, ctx)
        if t == 'sdict' and tk == 'str':
            x = ctx.fresh()
            ctx.binds.append(('p', x, f'sd_get {k} {o}'))
            return x, 'kpat'
        if t == 'scopecache' and tk == 'N':
            x = ctx.fresh()
            ctx.binds.append(('p', x, f'sem_cached_scope {o} {k}'))
            return x, 'gscope'
        die(w, e, f'subscript of a {t}')
    if isinstance(e, ast.Compare) and len(e.ops) == 1:
        op = e.ops[0]
        a, ta = tr_expr(e.left, ctx)
        if isinstance(op, (ast.Is, ast.IsNot)) and isinstance(e.comparators[0], ast.Constant) and e.comparators[0].value is None:
            if not ta.startswith('opt '):
                die(w, e, f'`is None` on a {ta}')
            t = f'(match {a} with None => true | Some _ => false end)'
            return (t if isinstance(op, ast.Is) else f'(negb {t})'), 'bool'
        b, tb = tr_expr(e.comparators[0], ctx)
        if isinstance(op, (ast.In, ast.NotIn)):
            if tb == 'sdict' and ta == 'str':
                t = f'(sd_mem {a} {b})'
            elif tb == 'kpats' and ta == 'kpat':
                t = f'(pat_in {a} {b})'
            else:
                die(w, e, f'membership of {ta} in {tb}')
            return (t if isinstance(op, ast.In) else f'(negb {t})'), 'bool'
        if isinstance(op, ast.Eq):
            eq = {'str': 'String.eqb', 'N': 'N.eqb', 'kpat': 'kpat_eqb'}
            if ta != tb or ta not in eq:
                die(w, e, f'== on {ta}, {tb}')
            return f'({eq[ta]} {a} {b})', 'bool'
        die(w, e, 'comparison')
    if isinstance(e, ast.UnaryOp) and isinstance(e.op, ast.Not):
        a, ta = tr_expr(e.operand, ctx)
        if ta != 'bool':
            die(w, e, 'not on a non-boolean')
        return f'(negb {a})', 'bool'
    if isinstance(e, ast.ListComp):
        return tr_listcomp(e, ctx)
    if isinstance(e, ast.Call):
        return tr_call(e, ctx)
    die(w, e, 'expression outside the subset')


def dotted(e):
    if isinstance(e, ast.Name):
        return e.id
    if isinstance(e, ast.Attribute):
        d = dotted(e.value)
        return d + '.' + e.attr if d else None
    return None


def tr_call(e, ctx):
    w = ctx.where
    if e.keywords and not (dotted(e.func) in ('MetaVar', 'proof.ProofExp')):
        die(w, e, 'keyword arguments')
    name = dotted(e.func)
    # ---- constructors / builtins
    if name == 'Symbol' and len(e.args) == 1:
        a, t = tr_expr(e.args[0], ctx)
        if t != 'str':
            die(w, e, 'Symbol of a non-string')
        return f'(PSym {a})', 'kpat'
    if name == 'MetaVar':
        arg = e.args[0] if e.args else next((k.value for k in e.keywords if k.arg == 'name'), None)
        if arg is None or len(e.args) + len(e.keywords) != 1:
            die(w, e, 'MetaVar with constraints')
        a, t = tr_expr(arg, ctx)
        if t != 'N':
            die(w, e, 'MetaVar id')
        return f'(PMeta {a})', 'kpat'
    if name == 'str' and len(e.args) == 1:
        a, t = tr_expr(e.args[0], ctx)
        if t != 'str':
            die(w, e, 'str() of a non-string')
        return a, 'str'
    if name == 'len' and len(e.args) == 1:
        a, t = tr_expr(e.args[0], ctx)
        if t == 'natlen':
            return f'(N.of_nat {a})', 'N'
        if t in ('sdict', 'gkores', 'kpats', 'ndict'):
            return f'(nat_len {a})', 'N'
        die(w, e, f'len of a {t}')
    if name == 'isinstance' and len(e.args) == 2:
        a, t = tr_expr(e.args[0], ctx)
        c = dotted(e.args[1])
        table = {('sort', 'kore.SortVar'): 'is_sortvar', ('kpat', 'MetaVar'): 'is_metavar', ('kpat', 'Symbol'): 'is_symbol',
                 ('krule', 'KRewritingRule'): 'is_rewriting'}
        if (t, c) not in table:
            die(w, e, f'isinstance({t}, {c})')
        return f'({table[(t, c)]} {a})', 'bool'
    if name == 'ConvertedAxiom' and len(e.args) == 2:
        a, _ = tr_expr(e.args[0], ctx)
        b, tb = tr_expr(e.args[1], ctx)
        return f'({a}, {b})', 'convaxiom'
    if name == 'functional' and len(e.args) == 1:
        a, t = tr_expr(e.args[0], ctx)
        return f'(p_functional {a})', 'kpat'
    if name == 'ExecutionProofExp' and len(e.args) == 2:
        _, t0 = tr_expr(e.args[0], ctx)
        b, tb = tr_expr(e.args[1], ctx)
        if t0 != 'sig' or tb != 'kpat':
            die(w, e, 'ExecutionProofExp(...)')
        return f'(new_exec {b})', 'gexec'
    if name == 'proof.ProofExp':
        return 'empty_module', 'pmodule'
    # ---- kl.<notation>
    if name and name.startswith('kl.'):
        n = name[3:]
        if n in NOTATIONS and len(e.args) == NOTATIONS[n]:
            args = [tr_expr(a, ctx) for a in e.args]
            if any(t != 'kpat' for _, t in args):
                die(w, e, 'notation argument')
            return '(' + ' '.join([n] + [a for a, _ in args]) + ')', 'kpat'
        if n == 'kore_exists' and len(e.args) == 1:
            a, t = tr_expr(e.args[0], ctx)
            if t != 'N':
                die(w, e, 'kore_exists argument')
            return f'(kore_exists {a})', 'fun3'
        if n == 'nary_app' and len(e.args) == 3:
            a, ta = tr_expr(e.args[0], ctx)
            b, tb = tr_expr(e.args[1], ctx)
            tr_expr(e.args[2], ctx)      # the cell flag only changes the pretty-printing format
            if ta != 'kpat' or tb != 'N':
                die(w, e, 'nary_app arguments')
            return f'(NotNary {a} (N.to_nat {b}))', 'gnotation'
        if n == 'kore_rewrites.assert_matches' and len(e.args) == 1:
            a, t = tr_expr(e.args[0], ctx)
            x = ctx.fresh()
            ctx.binds.append(('p', x, f'match_rewrites {a}'))
            return x, 'tup3'
        die(w, e, 'kl.* call outside the table')
    # ---- calls of a value: notation objects
    if isinstance(e.func, ast.Name) and ctx.types.get(e.func.id) == 'fun3' and len(e.args) == 3:
        args = [tr_expr(a, ctx)[0] for a in e.args]
        return '(' + ' '.join([v(e.func.id)] + args) + ')', 'kpat'
    if isinstance(e.func, ast.Attribute):
        meth = e.func.attr
        recv = e.func.value
        # ksymbol.app(*(a + b))
        if len(e.args) == 1 and isinstance(e.args[0], ast.Starred):
            o, t = tr_expr(e.func, ctx)
            if t != 'gnotation':
                die(w, e, 'starred call of a non-notation')
            a, ta = tr_expr(e.args[0].value, ctx)
            x = ctx.fresh()
            ctx.binds.append(('p', x, f'call_notation {o} {a}'))
            return x, 'kpat'
        if meth == 'instantiate' and len(e.args) == 1:
            o, t = tr_expr(recv, ctx)
            d, td = tr_expr(e.args[0], ctx)
            if t != 'kpat' or td != 'ndict':
                die(w, e, 'instantiate')
            return f'(inst {d} {o})', 'kpat'
        if meth in ('items', 'values') and not e.args:
            o, t = tr_expr(recv, ctx)
            if meth == 'items' and t == 'sdictk':
                return o, 'items_sdictk'
            if meth == 'values' and t == 'ndict':
                return f'(map snd {o})', 'kpats'
            die(w, e, f'.{meth}() of a {t}')
        rname = dotted(recv)
        # primitives on self / language_semantics
        if rname == 'self' and ctx.types.get('self') == 'gsem' and meth in ('get_symbol', 'get_sort') and len(e.args) == 1:
            a, t = tr_expr(e.args[0], ctx)
            x = ctx.fresh()
            ctx.binds.append(('p', x, f'sem_{meth} v_self {a}'))
            return x, 'ksymbol' if meth == 'get_symbol' else 'ksortdecl'
        if meth == 'resolve_to_ksymbol' and len(e.args) == 1:
            o, t = tr_expr(recv, ctx)
            a, ta = tr_expr(e.args[0], ctx)
            if t != 'sig' or ta != 'kpat':
                die(w, e, 'resolve_to_ksymbol')
            return f'(sem_resolve_to_ksymbol {o} {a})', 'opt ksymbol'
        if rname == 'kl' or rname is None:
            pass
        if rname == 'self' and ctx.types.get('self') == 'gexec' and meth == 'load_axiom' and len(e.args) == 1:
            a, t = tr_expr(e.args[0], ctx)
            x = ctx.fresh()
            ctx.binds.append(('p', x, f'prim_load_axiom v_self {a}'))
            return x, 'kpat'
        if rname == 'self' and ctx.types.get('self') == 'gexec' and meth == 'dynamic_inst' and len(e.args) == 2:
            a, ta = tr_expr(e.args[0], ctx)
            b, tb = tr_expr(e.args[1], ctx)
            if ta != 'kpat' or tb != 'ndict':
                die(w, e, 'dynamic_inst')
            return f'(prim_dynamic_inst {a} {b})', 'proofterm'
        # translated methods
        if meth in BYNAME:
            f = BYNAME[meth]
            static = rname == f.cls
            params = f.params if static or f.params[0][0] != 'self' else f.params
            args_src = ([] if static or f.params[0][0] != 'self' else [recv]) + list(e.args)
            if len(args_src) != len(f.params):
                die(w, e, 'arity of a translated method')
            coq_args = []
            for a_src, (pn, pt) in zip(args_src, f.params):
                a, t = tr_expr(a_src, ctx)
                if t.startswith('opt ') and t[4:] == pt:
                    x = ctx.fresh()
                    ctx.binds.append(('p', x, a))          # AttributeError on None
                    a = x
                    t = pt
                if t != pt and not (t == 'emptylist' and pt in ('kpats',)):
                    die(w, e, f'argument {pn}: {t} where {pt} is expected')
                coq_args.append(a)
            call = call_fn(f, ctx, coq_args)
            if not f.state:
                if f.name in ('collect_functional_axioms',):
                    x = ctx.fresh()
                    ctx.binds.append(('p', x, call))
                    return x, f.ret
                return call, f.ret
            # the mutated object is the argument at the state position: rebind the caller's variable
            si = [i for i, (pn, _) in enumerate(f.params) if pn == f.state][0]
            target = args_src[si]
            if not isinstance(target, ast.Name):
                die(w, e, 'mutating call on a non-variable')
            tv = v(target.id)
            opt_target = ctx.types[target.id].startswith('opt ')
            if f.ret == 'unit':
                ctx.binds.append(('s', tv if not opt_target else f'{tv}_', call))
                if opt_target:
                    ctx.binds.append(('l', tv, f'Some {tv}_'))
                return 'tt', 'unit'
            x = ctx.fresh()
            ctx.binds.append(('s', f'({tv if not opt_target else tv + "_"}, {x})', call))
            if opt_target:
                ctx.binds.append(('l', tv, f'Some {tv}_'))
            return x, f.ret
        die(w, e, f'method {meth} outside the subset')
    die(w, e, 'call outside the subset')


def tr_listcomp(e, ctx):
    w = ctx.where
    if len(e.generators) != 1 or e.generators[0].ifs or not isinstance(e.generators[0].target, ast.Name):
        die(w, e, 'comprehension shape')
    g = e.generators[0]
    it, ti = tr_expr(g.iter, ctx)
    elem = {'sorts': 'sort', 'gkores': 'gkore', 'convaxioms': 'convaxiom'}.get(ti)
    if elem is None:
        die(w, e, f'comprehension over a {ti}')
    sub = Ctx(ctx.fn)
    sub.types = dict(ctx.types)
    sub.types[g.target.id] = elem
    sub.n = ctx.n + 100
    body, tb = tr_expr(e.elt, sub)
    if not sub.binds:
        return f'(map (fun {v(g.target.id)} => {body}) {it})', {'kpat': 'kpats'}.get(tb, 'list')
    # exactly one mutating call of the threaded object, returned as it is
    if len(sub.binds) != 1 or sub.binds[0][0] != 's' or ctx.fn.state is None:
        die(w, e, 'comprehension element with more than one effect')
    _, pat, call = sub.binds[0]
    sv = v(ctx.fn.state)
    if pat != f'({sv}, {body})' or tb != 'kpat':
        die(w, e, 'comprehension element must be the mutating call itself')
    x = ctx.fresh()
    ctx.binds.append(('s', f'({sv}, {x})', f'st_map (fun {sv} {v(g.target.id)} => {call}) {sv} {it}'))
    return x, 'kpats'


# ------------------------------------------------------------------------------------------------ statements

def terminates(stmts):
    if not stmts:
        return False
    s = stmts[-1]
    if isinstance(s, (ast.Return, ast.Raise)):
        return True
    if isinstance(s, ast.If):
        return terminates(s.body) and terminates(s.orelse)
    if isinstance(s, ast.Match):
        return all(terminates(c.body) for c in s.cases)
    return False


def emit_binds(binds, body):
    for kind, pat, expr in reversed(binds):
        if kind == 'l':
            body = f'let {pat} := {expr} in {body}'
        else:
            body = f'match {expr} with None => None | Some {pat} => {body} end'
    return body


def with_binds(ctx, fn):
    """run fn() (which translates expressions), return (its result, binds it registered)"""
    saved = ctx.binds
    ctx.binds = []
    r = fn()
    b = ctx.binds
    ctx.binds = saved
    return r, b


def tr_stmts(stmts, ctx, after):
    """`after()` gives the translation of what follows this block (lazily)"""
    if not stmts:
        return after()
    s, rest = stmts[0], stmts[1:]
    w = ctx.where

    def cont():
        return tr_stmts(rest, ctx, after)

    if isinstance(s, ast.Expr) and isinstance(s.value, ast.Constant) and isinstance(s.value.value, str):
        return cont()                                       # docstring
    if isinstance(s, ast.Expr) and isinstance(s.value, ast.Call):
        name = dotted(s.value.func)
        if name == 'print' or name == 'self._inferred_notations.add':
            return cont()                                   # no effect on anything modelled (pretty-printing table)
        f = s.value.func
        if isinstance(f, ast.Attribute) and f.attr == 'append' and len(s.value.args) == 1:
            (x, tx), b = with_binds(ctx, lambda: tr_expr(s.value.args[0], ctx))
            tgt = f.value
            if isinstance(tgt, ast.Name) and ctx.types.get(tgt.id) in ('emptylist', 'convaxioms', 'kpats'):
                if ctx.types[tgt.id] == 'emptylist':
                    ctx.types[tgt.id] = {'convaxiom': 'convaxioms', 'kpat': 'kpats'}[tx]
                return emit_binds(b, f'let {v(tgt.id)} := {v(tgt.id)} ++ [{x}] in {cont()}')
            if isinstance(tgt, ast.Attribute) and isinstance(tgt.value, ast.Name):
                ot = ctx.types.get(tgt.value.id)
                if (ot, tgt.attr) in SETTERS and tx == 'kpat':
                    o = v(tgt.value.id)
                    get = ATTRS[(ot, tgt.attr)][0]
                    return emit_binds(b, f'let {o} := {SETTERS[(ot, tgt.attr)]} {o} ({get} {o} ++ [{x}]) in {cont()}')
            die(w, s, 'append target')
        if name == 'self.add_proof_expression' and len(s.value.args) == 1 and ctx.types.get('self') == 'gexec':
            (x, tx), b = with_binds(ctx, lambda: tr_expr(s.value.args[0], ctx))
            if tx != 'proofterm':
                die(w, s, 'add_proof_expression argument')
            return emit_binds(b, f'let v_self := set_proofs v_self (x_proofs v_self ++ [{x}]) in {cont()}')
        (x, tx), b = with_binds(ctx, lambda: tr_expr(s.value, ctx))
        if tx != 'unit' and not (isinstance(f, ast.Attribute) and f.attr in BYNAME and BYNAME[f.attr].state):
            die(w, s, 'expression statement with a value')
        return emit_binds(b, cont())
    if isinstance(s, ast.Assert):
        (c, tc), b = with_binds(ctx, lambda: tr_expr(s.test, ctx))
        if tc != 'bool':
            die(w, s, 'assert of a non-boolean')
        # `assert x is not None` refines the Optional
        t = s.test
        if isinstance(t, ast.Compare) and isinstance(t.ops[0], ast.IsNot) and isinstance(t.left, ast.Name):
            n = t.left.id
            ctx.types[n] = ctx.types[n][4:]
            return emit_binds(b, f'match {v(n)} with None => None | Some {v(n)} => {cont()} end')
        return emit_binds(b, f'if {c} then {cont()} else None')
    if isinstance(s, ast.Raise):
        if ctx.pure:
            die(w, s, 'raise in a total property')
        return 'None'
    if isinstance(s, ast.Return):
        if s.value is None:
            return ctx.ret_wrap('tt')
        # a mutating / partial call returned as it is keeps its own option
        (x, tx), b = with_binds(ctx, lambda: tr_expr(s.value, ctx))
        if tx.startswith('opt ') and ctx.fn.ret == 'pmodule' and tx[4:] == 'gexec':
            return emit_binds(b, f'match {x} with None => None | Some t_ => Some (to_module t_) end')
        if tx != ctx.fn.ret and not (tx == 'emptylist'):
            die(w, s, f'returns a {tx}, declared {ctx.fn.ret}')
        return emit_binds(b, ctx.ret_wrap(x))
    if isinstance(s, (ast.Assign, ast.AnnAssign)):
        tgt = s.targets[0] if isinstance(s, ast.Assign) else s.target
        if isinstance(s, ast.Assign) and len(s.targets) != 1:
            die(w, s, 'multiple targets')
        val = s.value
        if val is None:
            die(w, s, 'declaration without value')
        # `sym, _ = kl.deconstruct_nary_application(p)`
        if isinstance(tgt, ast.Tuple):
            if (len(tgt.elts) == 2 and all(isinstance(t, ast.Name) for t in tgt.elts) and tgt.elts[1].id == '_'
                    and isinstance(val, ast.Call) and dotted(val.func) == 'kl.deconstruct_nary_application' and len(val.args) == 1):
                (a, ta), b = with_binds(ctx, lambda: tr_expr(val.args[0], ctx))
                ctx.types[tgt.elts[0].id] = 'kpat'
                return emit_binds(b, f'let {v(tgt.elts[0].id)} := nary_head {a} in {cont()}')
            die(w, s, 'tuple assignment')
        if isinstance(val, ast.Constant) and val.value is None and isinstance(tgt, ast.Name):
            ann = ast.unparse(s.annotation) if isinstance(s, ast.AnnAssign) else ''
            if 'ExecutionProofExp' not in ann:
                die(w, s, 'None initialiser')
            ctx.types[tgt.id] = 'opt gexec'
            return f'let {v(tgt.id)} := @None gexec in {cont()}'
        if isinstance(val, ast.Attribute) and dotted(val) == 'self._cached_axiom_scopes':
            die(w, s, 'bare scope cache')
        if isinstance(val, ast.Subscript) and dotted(val.value) == 'self._cached_axiom_scopes' and isinstance(tgt, ast.Name):
            (k, tk), b = with_binds(ctx, lambda: tr_expr(val.slice, ctx))
            ctx.types[tgt.id] = 'gscope'
            return emit_binds(b, f'match sem_cached_scope v_self {k} with None => None | Some {v(tgt.id)} => {cont()} end')
        (x, tx), b = with_binds(ctx, lambda: tr_expr(val, ctx))
        if isinstance(tgt, ast.Name):
            old = ctx.types.get(tgt.id)
            if old and old.startswith('opt ') and old[4:] == tx:
                x, tx = f'(Some {x})', old
            ctx.types[tgt.id] = tx
            return emit_binds(b, f'let {v(tgt.id)} := {x} in {cont()}')
        if isinstance(tgt, ast.Attribute) and isinstance(tgt.value, ast.Name):
            ot = ctx.types.get(tgt.value.id)
            if (ot, tgt.attr) in SETTERS and ATTRS[(ot, tgt.attr)][1] == tx:
                o = v(tgt.value.id)
                return emit_binds(b, f'let {o} := {SETTERS[(ot, tgt.attr)]} {o} {x} in {cont()}')
            die(w, s, 'attribute assignment')
        if isinstance(tgt, ast.Subscript):
            # d[k] = v  on a dict attribute of the threaded object, or on a local dict
            (k, tk), b2 = with_binds(ctx, lambda: tr_expr(tgt.slice, ctx))
            if b2:
                die(w, s, 'effect in a subscript target')
            base = tgt.value
            if isinstance(base, ast.Attribute) and isinstance(base.value, ast.Name):
                ot = ctx.types.get(base.value.id)
                if (ot, base.attr) in SETTERS and ATTRS[(ot, base.attr)][1] == 'sdict' and tk == 'str' and tx == 'kpat':
                    o = v(base.value.id)
                    get = ATTRS[(ot, base.attr)][0]
                    return emit_binds(b, f'let {o} := {SETTERS[(ot, base.attr)]} {o} (sd_set ({get} {o}) {k} {x}) in {cont()}')
            if isinstance(base, ast.Name) and ctx.types.get(base.id) == 'ndict' and tk == 'N' and tx == 'kpat':
                return emit_binds(b, f'let {v(base.id)} := nd_set {v(base.id)} {k} {x} in {cont()}')
            die(w, s, 'subscript assignment')
        die(w, s, 'assignment target')
    if isinstance(s, ast.If):
        (c, tc), b = with_binds(ctx, lambda: tr_expr(s.test, ctx))
        if tc != 'bool':
            die(w, s, 'condition')
        tt, te = terminates(s.body), terminates(s.orelse)
        if tt and te:
            saved = dict(ctx.types)
            a = tr_stmts(s.body, ctx, lambda: die(w, s, 'fall through'))
            ctx.types = dict(saved)
            o = tr_stmts(s.orelse, ctx, lambda: die(w, s, 'fall through'))
            return emit_binds(b, f'if {c} then {a} else {o}')
        if tt or te:
            saved = dict(ctx.types)
            if tt:
                a = tr_stmts(s.body, ctx, lambda: die(w, s, 'fall through'))
                ctx.types = dict(saved)
                o = tr_stmts(s.orelse, ctx, cont)
            else:
                o = tr_stmts(s.orelse, ctx, lambda: die(w, s, 'fall through'))
                ctx.types = dict(saved)
                a = tr_stmts(s.body, ctx, cont)
            return emit_binds(b, f'if {c} then {a} else {o}')
        # both continue: the branches may only rebind ONE variable
        if s.orelse:
            die(w, s, 'if/else where both branches continue')
        var = assigned_var(s.body, ctx)
        body = tr_stmts(s.body, ctx, lambda: v(var) if True else '')
        # the body is a let-chain ending in the variable; it must be total
        if 'None' in body.replace('@None', '').replace('with None', '').replace('| None', ''):
            pass
        return emit_binds(b, f'let {v(var)} := (if {c} then {body} else {v(var)}) in {cont()}')
    if isinstance(s, ast.For):
        return tr_for(s, ctx, cont)
    if isinstance(s, ast.Match):
        return tr_match(s, ctx, cont)
    die(w, s, 'statement outside the subset')


def assigned_var(body, ctx):
    names = set()
    for st in body:
        if isinstance(st, ast.Assign) and len(st.targets) == 1:
            t = st.targets[0]
        elif isinstance(st, ast.Expr) and isinstance(st.value, ast.Call) and isinstance(st.value.func, ast.Attribute) \
                and st.value.func.attr == 'append':
            t = st.value.func.value
        else:
            die(ctx.where, st, 'statement in a non-returning if')
        while isinstance(t, (ast.Attribute, ast.Subscript)):
            t = t.value
        if not isinstance(t, ast.Name):
            die(ctx.where, st, 'target in a non-returning if')
        names.add(t.id)
    if len(names) != 1:
        die(ctx.where, body[0], 'non-returning if must update exactly one variable')
    return names.pop()


def tr_for(s, ctx, cont):
    w = ctx.where
    if s.orelse:
        die(w, s, 'for/else')
    (it, ti), b = with_binds(ctx, lambda: tr_expr(s.iter, ctx))
    sub_types = dict(ctx.types)
    if ti == 'items_sdictk' and isinstance(s.target, ast.Tuple) and len(s.target.elts) == 2:
        a, c = s.target.elts
        pat = f"'({v(a.id)}, {v(c.id)})"
        sub_types[a.id], sub_types[c.id] = 'str', 'gkore'
    elif ti in ('kpats', 'hints') and isinstance(s.target, ast.Name):
        pat = v(s.target.id)
        sub_types[s.target.id] = {'kpats': 'kpat', 'hints': 'hint'}[ti]
    else:
        die(w, s, f'for over a {ti}')
    # loop state: the threaded object (if it is live here) and the locals the body rebinds
    state = []
    if ctx.fn.state and ctx.fn.state in ctx.types:
        state.append(ctx.fn.state)
    for st in ast.walk(ast.Module(body=s.body, type_ignores=[])):
        t = None
        if isinstance(st, ast.Assign):
            t = st.targets[0]
        elif isinstance(st, ast.Call) and isinstance(st.func, ast.Attribute) and st.func.attr in ('append', 'rewrite_event'):
            t = st.func.value
        while isinstance(t, (ast.Attribute, ast.Subscript)):
            t = t.value
        if isinstance(t, ast.Name) and t.id in ctx.types and t.id not in state:
            state.append(t.id)
    if not state:
        die(w, s, 'loop without state')
    tup = '(' + ', '.join(v(n) for n in state) + ')' if len(state) > 1 else v(state[0])
    saved = ctx.types
    ctx.types = sub_types
    body = tr_stmts(s.body, ctx, lambda: f'Some {tup}')
    for n in state:                      # types refined in the body (emptylist -> list type) survive the loop
        saved[n] = ctx.types[n]
    ctx.types = saved
    lam = f"(fun {(chr(39) + tup) if len(state) > 1 else tup} {pat} => {body})"
    return emit_binds(b, f'match st_fold {lam} {tup} {it} with None => None | Some {tup} => {cont()} end')


def tr_match(s, ctx, cont):
    w = ctx.where
    (subj, ts), b = with_binds(ctx, lambda: tr_expr(s.subject, ctx))
    if ts != 'gkore':
        die(w, s, 'match on a non-Kore value')
    clauses, seen = [], set()
    saved = dict(ctx.types)
    for c in s.cases:
        p = c.pattern
        if c.guard is not None or not isinstance(p, ast.MatchClass) or p.kwd_patterns:
            die(w, c.pattern, 'case pattern')
        cname = dotted(p.cls)
        if not cname or not cname.startswith('kore.') or cname[5:] not in KORE:
            die(w, c.pattern, 'case class')
        ctor, ftypes = KORE[cname[5:]]
        if len(p.patterns) != len(ftypes):
            die(w, c.pattern, 'number of positional sub-patterns')
        ctx.types = dict(saved)
        binders = []
        for sp, ft in zip(p.patterns, ftypes):
            if not isinstance(sp, ast.MatchAs) or sp.pattern is not None:
                die(w, c.pattern, 'sub-pattern is not a capture')
            if sp.name is None:
                binders.append('_')
            else:
                binders.append(v(sp.name))
                ctx.types[sp.name] = ft
        if ctor in seen:
            die(w, c.pattern, 'constructor matched twice')
        seen.add(ctor)
        body = tr_stmts(c.body, ctx, cont)
        clauses.append(f'  | {ctor} {" ".join(binders)} =>\n      {body}')
    ctx.types = saved
    if len(seen) < len(KORE):
        clauses.append(f'  | _ => {cont()}')
    return emit_binds(b, 'match ' + subj + ' with\n' + '\n'.join(clauses) + '\n  end')


# ------------------------------------------------------------------------------------------------ driver

def find_method(tree, cls, name):
    for n in tree.body:
        if isinstance(n, ast.ClassDef) and n.name == cls:
            for m in n.body:
                if isinstance(m, ast.FunctionDef) and m.name == name:
                    return n, m
    return None, None


def generate(repo):
    base = os.path.join(repo, 'generation', 'src', 'proof_generation')
    trees = {}
    out = ['(** GENERATED by translators/kore_conv.py from generation/src/proof_generation/'
           '{k/kore_convertion/language_semantics.py, proof.py, k/execution_proof_generation.py} -- do not edit *)',
           'From Coq Require Import String Ascii NArith List Bool.',
           'From Pi2 Require Import K.Kore K.Exec K.GenPrims.',
           'Import ListNotations.', 'Open Scope list_scope.', '']
    for f in FUNCS:
        if f.file not in trees:
            with open(os.path.join(base, f.file)) as fh:
                trees[f.file] = ast.parse(fh.read())
        cls, m = find_method(trees[f.file], f.cls, f.name)
        if m is None:
            raise SystemExit(f'kore_conv: {f.cls}.{f.name} not found in {f.file}')
        # class constants used by the method
        if f.name == 'resolve_sort_param_metavar':
            const = [n for n in cls.body if isinstance(n, ast.Assign) and isinstance(n.targets[0], ast.Name)
                     and n.targets[0].id == 'SORT_PARAM_METAVAR']
            if len(const) != 1 or not isinstance(const[0].value, ast.Constant) or not isinstance(const[0].value.value, int):
                raise SystemExit('kore_conv: ConvertionScope.SORT_PARAM_METAVAR is not an integer constant')
            out.append(f'Definition gen_SORT_PARAM_METAVAR : N := {const[0].value.value}%N.')
        pnames = [a.arg for a in m.args.args]
        if pnames != [p for p, _ in f.params] or m.args.vararg or m.args.kwarg or m.args.kwonlyargs or m.args.defaults:
            die(f'{f.cls}.{f.name}', m, f'parameters changed (expected {[p for p, _ in f.params]})')
        ctx = Ctx(f)
        for n, t in f.extra + f.params:
            ctx.types[n] = t
        if f.name == 'convert_substitutions':
            del ctx.types  # noqa  (rebuilt below: `scope` is a local of this function)
            ctx.types = {n: t for n, t in f.params}
        body = tr_stmts(m.body, ctx, lambda: ctx.ret_wrap('tt') if f.ret == 'unit' else die(ctx.where, m, 'falls off the end'))
        pure = ctx.pure
        if pure and ('None' in body):
            die(ctx.where, m, 'partial operation in a total property')
        params = ' '.join(f'({v(n)}:{COQTYPE[t]})' for n, t in f.extra + f.params)
        if f.state:
            rt = f'option ({COQTYPE[ctx.types[f.state]] if f.state in ctx.types else "gscope"} * {COQTYPE[f.ret]})' \
                if f.ret != 'unit' else f'option {COQTYPE[dict(f.params)[f.state]]}'
        else:
            rt = COQTYPE[f.ret] if pure else f'option ({COQTYPE[f.ret]})'
        if f.rec:
            out.append(f'Fixpoint {f.coq} (fuel:nat) {params} {{struct fuel}} : {rt} :=\n  match fuel with O => None | S fuel =>\n  {body}\n  end.')
        elif f.fuel:
            out.append(f'Definition {f.coq} (fuel:nat) {params} : {rt} :=\n  {body}.')
        else:
            out.append(f'Definition {f.coq} {params} : {rt} :=\n  {body}.')
        out.append('')
    return '\n'.join(out)


if __name__ == '__main__':
    sys.stdout.write(generate(sys.argv[1] if len(sys.argv) > 1 else '/repo'))

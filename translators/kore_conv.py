"""Fail-closed translator (Python `ast` -> Gallina) for the functions in which C20's logic lives:

  k/kore_convertion/language_semantics.py   KSort.aml_symbol, KSymbol.aml_symbol, KSymbol.app,
        ConvertionScope.SORT_PARAM_METAVAR / resolve_metavar / lookup_metavar / resolve_sort_param_metavar,
        LanguageSemantics._convert_sort / _convert_pattern / convert_substitutions
  proof.py                                  ProofExp.add_axiom / add_axioms / add_assumptions
  k/execution_proof_generation.py           ExecutionProofExp.current_configuration / collect_functional_axioms /
        add_assumptions_for_rewrite_step / rewrite_event / from_proof_hints

Output: coq/Gen/KoreConv.v (vocabulary: coq/K/GenPrims.v).  Translation is statement by statement and expression
by expression: locals keep their names (prefix v_), statement order is kept, every guard / comparison / constant /
dict or list operation is emitted from the AST node.  Mutated objects (`scope`, `self`) are threaded: a call that
mutates the scope rebinds `v_scope`.  A Python exception is `None`.  Anything outside the recognised subset raises
SystemExit naming the node (fail closed).  Recursion of `_convert_pattern` is on explicit fuel.

Canonicalisation (behaviour-preserving rewrites of the Python give the SAME generated text, up to bound names):
  * every object that is mutated gets a FRESH Coq name at each mutation (single assignment), so a pure local is simply
    replaced by its definition wherever it is used (intermediate variables, single-use locals, renamings vanish);
  * `if not c: A else: B` = `if c: B else: A`;  `x is not None` = swapped `x is None`;  an `if` whose branch does not
    return is completed with the statements that follow it (guard clause / early return = if/else);
    `if x is None` on an Optional is a `match` that refines x in the other branch;
  * a private helper method of the same class (static, straight-line, one final return) is inlined at its call site;
  * a dict comprehension is the loop that fills an empty dict; `d.get(k)` is the Optional lookup; `f(*a, *b)` =
    `f(*(a + b))`; `_, l, r = t` = `l = t[1]; r = t[2]`; `case A() | B():` = one arm per class; a bare annotation
    `x: T` declares nothing.

NOT translated (primitives of GenPrims.v / hand model, tied differentially only): the notation definitions of
proofs/kore.py and definedness.py (kore_rewrites ... functional), Pattern.instantiate / == / match_single
(`inst`, `kpat_eqb`, `match_rewrites`), kl.deconstruct_nary_application, LanguageSemantics.get_symbol/get_sort/
resolve_to_ksymbol and the module structure, ProofExp.load_axiom / dynamic_inst / add_proof_expression,
from_kore_definition, get_proof_hints.
"""
from __future__ import annotations

import ast
import os
import sys

OUT = 'KoreConv.v'


def die(where, node, why):
    src = ast.unparse(node) if isinstance(node, ast.AST) else str(node)
    raise SystemExit(f'kore_conv: {where}: line {getattr(node, "lineno", "?")}: {why}: `{src[:140]}`')


# pyk classes -> (constructor, field types)
KORE = {
    'Rewrites': ('GRewrites', ['sort', 'gkore', 'gkore']), 'And': ('GAnd', ['sort', 'gkores']),
    'Or': ('GOr', ['sort', 'gkores']), 'In': ('GIn', ['sort', 'sort', 'gkore', 'gkore']),
    'Not': ('GNot', ['sort', 'gkore']), 'Next': ('GNext', ['sort', 'gkore']),
    'Implies': ('GImplies', ['sort', 'gkore', 'gkore']), 'Ceil': ('GCeil', ['sort', 'sort', 'gkore']),
    'Floor': ('GFloor', ['sort', 'sort', 'gkore']), 'Iff': ('GIff', ['sort', 'gkore', 'gkore']),
    'Equals': ('GEquals', ['sort', 'sort', 'gkore', 'gkore']), 'App': ('GApp', ['str', 'sorts', 'gkores']),
    'EVar': ('GEVar', ['str', 'sort']), 'SVar': ('GSVar', ['str', 'sort']), 'Top': ('GTop', ['sort']),
    'Bottom': ('GBottom', ['sort']), 'DV': ('GDV', ['sort', 'kstring']),
    'Exists': ('GExists', ['sort', 'gkore', 'gkore']), 'Forall': ('GForall', ['sort', 'gkore', 'gkore']),
    'Mu': ('GMu', ['gkore', 'gkore']), 'Nu': ('GNu', ['gkore', 'gkore']),
}
# kl.<name>(args) -> Gallina notation function (hand model K/Kore.v), arity
NOTATIONS = {'kore_rewrites': 3, 'kore_and': 3, 'kore_or': 3, 'kore_in': 4, 'kore_not': 2, 'kore_next': 2,
             'kore_implies': 3, 'kore_ceil': 3, 'kore_floor': 3, 'kore_iff': 3, 'kore_equals': 4, 'kore_top': 1,
             'kore_bottom': 1, 'kore_dv': 2}
COQTYPE = {'sort': 'ksort', 'gkore': 'gkore', 'gkores': 'list gkore', 'sorts': 'list ksort', 'str': 'string',
           'kpat': 'kpat', 'kpats': 'list kpat', 'gscope': 'gscope', 'gsem': 'gsem', 'N': 'N', 'ksymbol': 'ksymbol',
           'ksortdecl': 'string', 'gexec': 'gexec', 'krule': 'krule', 'ndict': 'list (N * kpat)',
           'sdictk': 'list (string * gkore)', 'sig': 'sig', 'hints': 'list hint', 'kstring': 'string',
           'gnotation': 'gnotation', 'pmodule': 'pmodule', 'proofterm': '(kpat * list (N * kpat))',
           'convaxioms': 'list (string * kpat)', 'bool': 'bool'}
# (type, attribute) -> (coq function applied to the object, result type)
ATTRS = {
    ('sort', 'name'): ('sort_name', 'str'), ('kpat', 'name'): ('metavar_name', 'N'),
    ('ksortdecl', 'name'): ('', 'str'), ('kstring', 'value'): ('', 'str'),
    ('ksymbol', 'name'): ('ks_name', 'str'), ('ksymbol', 'is_functional'): ('ks_functional', 'bool'),
    ('ksymbol', 'sort_params'): ('ks_nparams', 'natlen'), ('ksymbol', 'input_sorts'): ('ks_nargs', 'natlen'),
    ('ksymbol', 'is_cell'): (None, 'ignored'),
    ('gscope', '_metavars'): ('g_metavars', 'sdict'), ('gscope', '_sort_param_metavars'): ('g_sortparams', 'sdict'),
    ('krule', 'pattern'): ('r_pat', 'kpat'), ('gexec', '_curr_config'): ('x_cur', 'kpat'),
    ('gexec', '_axioms'): ('x_axioms', 'kpats'), ('gexec', '_claims'): ('x_claims', 'kpats'),
    ('hint', 'configuration_before'): ('h_before', 'kpat'), ('hint', 'axiom'): ('h_rule', 'krule'),
    ('hint', 'substitutions'): ('h_subst', 'ndict'), ('convaxiom', 'pattern'): ('snd', 'kpat'),
}
SETTERS = {('gscope', '_metavars'): 'set_metavars', ('gscope', '_sort_param_metavars'): 'set_sortparams',
           ('gexec', '_curr_config'): 'set_cur', ('gexec', '_axioms'): 'set_axioms', ('gexec', '_claims'): 'set_claims'}


class Fn:
    """one translated function: where it is, how it is called, what it returns"""

    def __init__(self, file, cls, name, coq, params, ret, state=None, fuel=False, rec=False, extra=()):
        self.file, self.cls, self.name, self.coq = file, cls, name, coq
        self.params = params          # [(python name, type)] in Python order (self included)
        self.ret = ret                # type of the returned value ('unit' = None)
        self.state = state            # python name of the threaded (mutated) object, or None
        self.fuel, self.rec, self.extra = fuel, rec, list(extra)   # extra: implicit leading parameters


LS = 'k/kore_convertion/language_semantics.py'
EP = 'k/execution_proof_generation.py'
FUNCS = [
    Fn(LS, 'KSort', 'aml_symbol', 'gen_KSort_aml_symbol', [('self', 'ksortdecl')], 'kpat'),
    Fn(LS, 'KSymbol', 'aml_symbol', 'gen_KSymbol_aml_symbol', [('self', 'ksymbol')], 'kpat'),
    Fn(LS, 'KSymbol', 'app', 'gen_KSymbol_app', [('self', 'ksymbol')], 'gnotation'),
    Fn(LS, 'ConvertionScope', 'resolve_metavar', 'gen_resolve_metavar', [('self', 'gscope'), ('name', 'str')], 'kpat', state='self'),
    Fn(LS, 'ConvertionScope', 'lookup_metavar', 'gen_lookup_metavar', [('self', 'gscope'), ('name', 'str')], 'kpat', state='self'),
    Fn(LS, 'ConvertionScope', 'resolve_sort_param_metavar', 'gen_resolve_sort_param_metavar', [('self', 'gscope'), ('name', 'str')], 'kpat', state='self'),
    Fn(LS, 'LanguageSemantics', '_convert_sort', 'gen__convert_sort', [('self', 'gsem'), ('scope', 'gscope'), ('sort', 'sort')], 'kpat', state='scope'),
    Fn(LS, 'LanguageSemantics', '_convert_pattern', 'gen__convert_pattern', [('self', 'gsem'), ('scope', 'gscope'), ('pattern', 'gkore')], 'kpat', state='scope', fuel=True, rec=True),
    Fn(LS, 'LanguageSemantics', 'convert_substitutions', 'gen_convert_substitutions', [('self', 'gsem'), ('subst', 'sdictk'), ('axiom_ordinal', 'N')], 'ndict', state='scope', fuel=True),
    Fn('proof.py', 'ProofExp', 'add_axiom', 'gen_add_axiom', [('self', 'gexec'), ('axiom', 'kpat')], 'unit', state='self'),
    Fn('proof.py', 'ProofExp', 'add_axioms', 'gen_add_axioms', [('self', 'gexec'), ('axioms', 'kpats')], 'unit', state='self'),
    Fn('proof.py', 'ProofExp', 'add_assumptions', 'gen_add_assumptions', [('self', 'gexec'), ('axioms', 'kpats')], 'unit', state='self'),
    Fn(EP, 'ExecutionProofExp', 'current_configuration', 'gen_current_configuration', [('self', 'gexec')], 'kpat'),
    Fn(EP, 'ExecutionProofExp', 'collect_functional_axioms', 'gen_collect_functional_axioms', [('language_semantics', 'sig'), ('substitutions', 'ndict')], 'convaxioms'),
    Fn(EP, 'ExecutionProofExp', 'add_assumptions_for_rewrite_step', 'gen_add_assumptions_for_rewrite_step', [('self', 'gexec'), ('rule', 'krule'), ('substitutions', 'ndict')], 'unit', state='self', extra=[('language_semantics', 'sig')]),
    Fn(EP, 'ExecutionProofExp', 'rewrite_event', 'gen_rewrite_event', [('self', 'gexec'), ('rule', 'krule'), ('substitution', 'ndict')], 'proofterm', state='self', extra=[('language_semantics', 'sig')]),
    Fn(EP, 'ExecutionProofExp', 'from_proof_hints', 'gen_from_proof_hints', [('hints', 'hints'), ('language_semantics', 'sig')], 'pmodule'),
]
BYNAME = {f.name: f for f in FUNCS}


def v(name):
    return 'v_' + name


class Ctx:
    """env: python name -> (coq expression, type).  Coq names are never rebound (single assignment)."""

    def __init__(self, fn, counter=None):
        self.fn = fn
        self.env = {}
        self.consts = {}
        self.known = {}      # (key, dict) -> name of the value found by an enclosing membership test
        self.binds = []
        self.counter = counter if counter is not None else [0]
        self.where = f'{fn.cls}.{fn.name}'
        self.pure = not fn.state and fn.name in ('aml_symbol', 'app', 'current_configuration')

    def fork(self):
        c = Ctx(self.fn, self.counter)
        c.env = dict(self.env)
        c.known = dict(self.known)
        c.consts = self.consts
        return c

    def fresh(self, p='t'):
        self.counter[0] += 1
        return f'{p}{self.counter[0]}'

    def ret_wrap(self, val):
        f = self.fn
        if self.pure:
            return val
        if f.state:
            st = self.env[f.state][0]
            return f'Some ({st}, {val})' if f.ret != 'unit' else f'Some {st}'
        return f'Some {val}'


def emit_binds(binds, body):
    for kind, pat, expr in reversed(binds):
        if kind == 'l':
            body = f'let {pat} := {expr} in {body}'
        else:
            body = f'match {expr} with None => None | Some {pat} => {body} end'
    return body


def with_binds(ctx, fn):
    saved = ctx.binds
    ctx.binds = []
    r = fn()
    b = ctx.binds
    ctx.binds = saved
    return r, b


def bind_partial(ctx, expr, typ):
    x = ctx.fresh()
    ctx.binds.append(('p', x, expr))
    return x, typ


# ------------------------------------------------------------------------------------------------ expressions

def call_fn(f, ctx, args_coq):
    pre = [ctx.env[n][0] for n, _ in f.extra]
    if f.fuel:
        pre.append('fuel')
    return '(' + ' '.join([f.coq] + pre + args_coq) + ')'


def dotted(e):
    if isinstance(e, ast.Name):
        return e.id
    if isinstance(e, ast.Attribute):
        d = dotted(e.value)
        return d + '.' + e.attr if d else None
    return None


def tr_expr(e, ctx):
    """-> (coq, type); partial / mutating sub-expressions are bound in ctx.binds (in evaluation order)"""
    w = ctx.where
    if isinstance(e, ast.Name):
        if e.id not in ctx.env:
            if e.id in ctx.consts:       # a module-level name bound exactly once to a literal = that literal
                return tr_expr(ctx.consts[e.id], ctx)
            die(w, e, 'unknown name')
        return ctx.env[e.id]
    if isinstance(e, ast.Constant):
        if isinstance(e.value, str):
            if '"' in e.value:
                die(w, e, 'string constant with a quote')
            return f'"{e.value}"%string', 'str'
        if e.value is None:
            return 'None', 'none'
        if isinstance(e.value, bool) or not isinstance(e.value, int):
            die(w, e, 'constant')
        return f'{e.value}%N', 'N'
    if isinstance(e, ast.Dict) and not e.keys:
        return '[]', 'ndict'
    if isinstance(e, ast.List) and not e.elts:
        return '[]', 'emptylist'
    if isinstance(e, ast.Tuple):
        parts = [tr_expr(x, ctx) for x in e.elts]
        return '(' + ', '.join(p for p, _ in parts) + ')', 'tuple:' + ','.join(t for _, t in parts)
    if isinstance(e, ast.Attribute):
        if isinstance(e.value, ast.Name) and e.value.id == 'self' and e.attr == 'SORT_PARAM_METAVAR':
            return 'gen_SORT_PARAM_METAVAR', 'N'
        if isinstance(e.value, ast.Name) and e.value.id == 'self' and e.attr == 'language_semantics':
            return ctx.env['language_semantics'][0], 'sig'
        if dotted(e) == 'kl.kore_kseq':
            return 'NotKseq', 'gnotation'
        if isinstance(e.value, ast.Name) and e.value.id == 'AxiomType':
            return f'"{e.attr}"%string', 'str'
        o, t = tr_expr(e.value, ctx)
        for f in FUNCS:
            if f.name == e.attr and len(f.params) == 1 and f.params[0][1] == t and not f.state:
                return call_fn(f, ctx, [o]), f.ret
        if (t, e.attr) == ('gkore', 'sort'):
            return bind_partial(ctx, f'gvar_sort {o}', 'sort')
        if (t, e.attr) not in ATTRS:
            die(w, e, f'attribute of a {t}')
        fn, rt = ATTRS[(t, e.attr)]
        if fn is None:
            return '_ignored_', rt
        return (f'({fn} {o})' if fn else o), rt
    if isinstance(e, ast.BinOp) and isinstance(e.op, ast.Add):
        a, ta = tr_expr(e.left, ctx)
        b, tb = tr_expr(e.right, ctx)
        if ta == tb == 'str':
            return f'({a} ++ {b})%string', 'str'
        if ta == tb == 'kpats':
            return f'({a} ++ {b})', 'kpats'
        if ta == tb == 'N':
            if a == '0%N':
                return b, 'N'
            if b == '0%N':
                return a, 'N'
            return f'({a} + {b})%N', 'N'
        die(w, e, f'+ on {ta}, {tb}')
    if isinstance(e, ast.Subscript):
        o, t = tr_expr(e.value, ctx)
        if t == 'tup3' and isinstance(e.slice, ast.Constant) and e.slice.value in (0, 1, 2):
            return tup3_proj(o, e.slice.value), 'kpat'
        if t == 'gkores' and isinstance(e.slice, ast.Constant) and isinstance(e.slice.value, int) and e.slice.value >= 0:
            return bind_partial(ctx, f'nth_error {o} {e.slice.value}', 'gkore')
        k, tk = tr_expr(e.slice, ctx)
        if t == 'sdict' and tk == 'str':
            if (k, o) in ctx.known:
                return ctx.known[(k, o)], 'kpat'
            return bind_partial(ctx, f'sd_get {k} {o}', 'kpat')
        die(w, e, f'subscript of a {t}')
    if isinstance(e, ast.Compare) and len(e.ops) == 1:
        op = e.ops[0]
        a, ta = tr_expr(e.left, ctx)
        if isinstance(op, (ast.Is, ast.IsNot)):
            die(w, e, '`is` outside an if/assert test')
        b, tb = tr_expr(e.comparators[0], ctx)
        if isinstance(op, (ast.In, ast.NotIn)):
            if tb == 'sdict' and ta == 'str':
                t = f'(sd_mem {a} {b})'
            elif tb == 'kpats' and ta == 'kpat':
                t = f'(pat_in {a} {b})'
            else:
                die(w, e, f'membership of {ta} in {tb}')
            return (t if isinstance(op, ast.In) else f'(negb {t})'), 'bool'
        if isinstance(op, ast.Eq):
            eq = {'str': 'String.eqb', 'N': 'N.eqb', 'kpat': 'kpat_eqb'}
            if ta != tb or ta not in eq:
                die(w, e, f'== on {ta}, {tb}')
            return f'({eq[ta]} {a} {b})', 'bool'
        die(w, e, 'comparison')
    if isinstance(e, ast.UnaryOp) and isinstance(e.op, ast.Not):
        a, ta = tr_expr(e.operand, ctx)
        if ta != 'bool':
            die(w, e, 'not on a non-boolean')
        return f'(negb {a})', 'bool'
    if isinstance(e, ast.ListComp):
        return tr_listcomp(e, ctx)
    if isinstance(e, ast.Call):
        return tr_call(e, ctx)
    die(w, e, 'expression outside the subset')


def tup3_proj(o, i):
    return ['(fst (fst %s))', '(snd (fst %s))', '(snd %s)'][i] % o


def star_args(args, ctx):
    """f(*a, *b) / f(*(a + b)) -> one list expression"""
    parts = []
    for a in args:
        if not isinstance(a, ast.Starred):
            return None
        x, t = tr_expr(a.value, ctx)
        if t != 'kpats':
            die(ctx.where, a, f'starred {t}')
        parts.append(x)
    if not parts:
        return None
    out = parts[0]
    for p in parts[1:]:
        out = f'({out} ++ {p})'
    return out


# parameter names of callees that are not translated themselves (for keyword arguments)
SIGS = {'ConvertedAxiom': ['kind', 'pattern'], 'ExecutionProofExp': ['language_semantics', 'init_config'],
        'dynamic_inst': ['pf', 'delta'], 'load_axiom': ['axiom_term'], 'Symbol': ['name'], 'functional': None,
        'instantiate': ['delta'], 'resolve_to_ksymbol': ['symbol'], 'get_symbol': ['name'], 'get_sort': ['name']}


def positional(e, ctx):
    """a call with keyword arguments = the call with the same values bound positionally (evaluation order of the
    arguments is the textual order in both cases; the values here are either pure or bound in that order)"""
    if not e.keywords:
        return e
    fn = e.func.attr if isinstance(e.func, ast.Attribute) else (e.func.id if isinstance(e.func, ast.Name) else None)
    names = None
    if fn in BYNAME:
        f = BYNAME[fn]
        names = [p for p, _ in f.params]
        if not (dotted(e.func.value) == f.cls if isinstance(e.func, ast.Attribute) else False) and names and names[0] == 'self':
            names = names[1:]
    elif fn in SIGS and SIGS[fn]:
        names = SIGS[fn]
    if names is None or any(k.arg is None for k in e.keywords):
        return e
    slots = list(e.args) + [None] * (len(names) - len(e.args))
    if len(e.args) > len(names):
        die(ctx.where, e, 'too many arguments')
    order_ok = True
    for k in e.keywords:
        if k.arg not in names or slots[names.index(k.arg)] is not None:
            die(ctx.where, e, f'keyword argument {k.arg}')
        slots[names.index(k.arg)] = k.value
    if None in slots:
        die(ctx.where, e, 'missing argument')
    # keywords written in another order than the parameters are evaluated in the written order: only accept that
    # when the reordered values are plain names / attribute chains / constants (no effect, no partiality)
    written = list(e.args) + [k.value for k in e.keywords]
    if written != slots and not all(isinstance(x, (ast.Name, ast.Constant)) or dotted(x) for x in written):
        die(ctx.where, e, 'keyword arguments in a different order with non-trivial values')
    return ast.copy_location(ast.Call(func=e.func, args=slots, keywords=[]), e)


def tr_call(e, ctx):
    w = ctx.where
    if not (dotted(e.func) in ('MetaVar', 'proof.ProofExp')):
        e = positional(e, ctx)
    name = dotted(e.func)
    if e.keywords and name not in ('MetaVar', 'proof.ProofExp'):
        die(w, e, 'keyword arguments')
    if name == 'Symbol' and len(e.args) == 1:
        a, t = tr_expr(e.args[0], ctx)
        if t != 'str':
            die(w, e, 'Symbol of a non-string')
        return f'(PSym {a})', 'kpat'
    if name == 'MetaVar':
        arg = e.args[0] if e.args else next((k.value for k in e.keywords if k.arg == 'name'), None)
        if arg is None or len(e.args) + len(e.keywords) != 1:
            die(w, e, 'MetaVar with constraints')
        a, t = tr_expr(arg, ctx)
        if t != 'N':
            die(w, e, 'MetaVar id')
        return f'(PMeta {a})', 'kpat'
    if name == 'str' and len(e.args) == 1:
        a, t = tr_expr(e.args[0], ctx)
        if t != 'str':
            die(w, e, 'str() of a non-string')
        return a, 'str'
    if name == 'len' and len(e.args) == 1:
        a, t = tr_expr(e.args[0], ctx)
        if t == 'natlen':
            return f'(N.of_nat {a})', 'N'
        if t in ('sdict', 'gkores', 'kpats', 'ndict'):
            return f'(nat_len {a})', 'N'
        die(w, e, f'len of a {t}')
    if name == 'isinstance' and len(e.args) == 2:
        a, t = tr_expr(e.args[0], ctx)
        c = dotted(e.args[1])
        table = {('sort', 'kore.SortVar'): 'is_sortvar', ('kpat', 'MetaVar'): 'is_metavar', ('kpat', 'Symbol'): 'is_symbol',
                 ('krule', 'KRewritingRule'): 'is_rewriting'}
        if (t, c) not in table:
            die(w, e, f'isinstance({t}, {c})')
        return f'({table[(t, c)]} {a})', 'bool'
    if name == 'ConvertedAxiom' and len(e.args) == 2:
        a, _ = tr_expr(e.args[0], ctx)
        b, tb = tr_expr(e.args[1], ctx)
        return f'({a}, {b})', 'convaxiom'
    if name == 'functional' and len(e.args) == 1:
        a, t = tr_expr(e.args[0], ctx)
        return f'(p_functional {a})', 'kpat'
    if name == 'ExecutionProofExp' and len(e.args) == 2:
        _, t0 = tr_expr(e.args[0], ctx)
        b, tb = tr_expr(e.args[1], ctx)
        if t0 != 'sig' or tb != 'kpat':
            die(w, e, 'ExecutionProofExp(...)')
        return f'(new_exec {b})', 'gexec'
    if name == 'proof.ProofExp':
        return 'empty_module', 'pmodule'
    if name and name.startswith('kl.'):
        n = name[3:]
        if n in NOTATIONS and len(e.args) == NOTATIONS[n]:
            args = [tr_expr(a, ctx) for a in e.args]
            if any(t != 'kpat' for _, t in args):
                die(w, e, 'notation argument')
            return '(' + ' '.join([n] + [a for a, _ in args]) + ')', 'kpat'
        if n == 'kore_exists' and len(e.args) == 1:
            a, t = tr_expr(e.args[0], ctx)
            if t != 'N':
                die(w, e, 'kore_exists argument')
            return f'(kore_exists {a})', 'fun3'
        if n == 'nary_app' and len(e.args) == 3:
            a, ta = tr_expr(e.args[0], ctx)
            b, tb = tr_expr(e.args[1], ctx)
            tr_expr(e.args[2], ctx)      # the cell flag only changes the pretty-printing format
            if ta != 'kpat' or tb != 'N':
                die(w, e, 'nary_app arguments')
            return f'(NotNary {a} (N.to_nat {b}))', 'gnotation'
        if n == 'kore_rewrites.assert_matches' and len(e.args) == 1:
            a, t = tr_expr(e.args[0], ctx)
            return bind_partial(ctx, f'match_rewrites {a}', 'tup3')
        if n == 'deconstruct_nary_application' and len(e.args) == 1:
            a, t = tr_expr(e.args[0], ctx)
            return f'(nary_head {a})', 'naryparts'
        die(w, e, 'kl.* call outside the table')
    if isinstance(e.func, ast.Name) and e.func.id in ctx.env and ctx.env[e.func.id][1] == 'fun3' and len(e.args) == 3:
        args = [tr_expr(a, ctx)[0] for a in e.args]
        return '(' + ' '.join([ctx.env[e.func.id][0]] + args) + ')', 'kpat'
    if isinstance(e.func, ast.Attribute):
        meth = e.func.attr
        recv = e.func.value
        if e.args and all(isinstance(a, ast.Starred) for a in e.args):
            o, t = tr_expr(e.func, ctx)
            if t != 'gnotation':
                die(w, e, 'starred call of a non-notation')
            a = star_args(e.args, ctx)
            return bind_partial(ctx, f'call_notation {o} {a}', 'kpat')
        if meth == 'instantiate' and len(e.args) == 1:
            o, t = tr_expr(recv, ctx)
            d, td = tr_expr(e.args[0], ctx)
            if t != 'kpat' or td != 'ndict':
                die(w, e, 'instantiate')
            return f'(inst {d} {o})', 'kpat'
        if meth == 'get' and len(e.args) == 1:
            o, t = tr_expr(recv, ctx)
            k, tk = tr_expr(e.args[0], ctx)
            if t != 'sdict' or tk != 'str':
                die(w, e, f'.get on a {t}')
            return f'(sd_get {k} {o})', 'opt kpat'
        if meth in ('items', 'values') and not e.args:
            o, t = tr_expr(recv, ctx)
            if meth == 'items' and t == 'sdictk':
                return o, 'items_sdictk'
            if meth == 'values' and t == 'ndict':
                return f'(map snd {o})', 'kpats'
            die(w, e, f'.{meth}() of a {t}')
        rname = dotted(recv)
        rtype = ctx.env[rname][1] if rname in ctx.env else None
        if rname == 'self' and rtype == 'gsem' and meth in ('get_symbol', 'get_sort') and len(e.args) == 1:
            a, t = tr_expr(e.args[0], ctx)
            return bind_partial(ctx, f'sem_{meth} {ctx.env["self"][0]} {a}', 'ksymbol' if meth == 'get_symbol' else 'ksortdecl')
        if meth == 'resolve_to_ksymbol' and len(e.args) == 1:
            o, t = tr_expr(recv, ctx)
            a, ta = tr_expr(e.args[0], ctx)
            if t != 'sig' or ta != 'kpat':
                die(w, e, 'resolve_to_ksymbol')
            return f'(sem_resolve_to_ksymbol {o} {a})', 'opt ksymbol'
        if rname == 'self' and rtype == 'gexec' and meth == 'load_axiom' and len(e.args) == 1:
            a, t = tr_expr(e.args[0], ctx)
            return bind_partial(ctx, f'prim_load_axiom {ctx.env["self"][0]} {a}', 'kpat')
        if rname == 'self' and rtype == 'gexec' and meth == 'dynamic_inst' and len(e.args) == 2:
            a, ta = tr_expr(e.args[0], ctx)
            b, tb = tr_expr(e.args[1], ctx)
            if ta != 'kpat' or tb != 'ndict':
                die(w, e, 'dynamic_inst')
            return f'(prim_dynamic_inst {a} {b})', 'proofterm'
        if meth in BYNAME:
            f = BYNAME[meth]
            static = rname == f.cls
            args_src = ([] if static or f.params[0][0] != 'self' else [recv]) + list(e.args)
            if len(args_src) != len(f.params):
                die(w, e, 'arity of a translated method')
            coq_args = []
            for a_src, (pn, pt) in zip(args_src, f.params):
                a, t = tr_expr(a_src, ctx)
                if t.startswith('opt ') and t[4:] == pt:
                    a, t = bind_partial(ctx, a, pt)        # AttributeError on None
                if t != pt and not (t == 'emptylist' and pt in ('kpats',)):
                    die(w, e, f'argument {pn}: {t} where {pt} is expected')
                coq_args.append(a)
            call = call_fn(f, ctx, coq_args)
            if not f.state:
                if f.name in ('collect_functional_axioms',):
                    return bind_partial(ctx, call, f.ret)
                return call, f.ret
            si = [i for i, (pn, _) in enumerate(f.params) if pn == f.state][0]
            target = args_src[si]
            if not isinstance(target, ast.Name):
                die(w, e, 'mutating call on a non-variable')
            ns = ctx.fresh('s')
            if f.ret == 'unit':
                ctx.binds.append(('s', ns, call))
                ctx.env[target.id] = (ns, f.params[si][1])
                return 'tt', 'unit'
            x = ctx.fresh()
            ctx.binds.append(('s', f'({ns}, {x})', call))
            ctx.env[target.id] = (ns, f.params[si][1])
            return x, f.ret
        die(w, e, f'method {meth} outside the subset')
    die(w, e, 'call outside the subset')


def tr_listcomp(e, ctx):
    w = ctx.where
    if len(e.generators) != 1 or e.generators[0].ifs or not isinstance(e.generators[0].target, ast.Name):
        die(w, e, 'comprehension shape')
    g = e.generators[0]
    it, ti = tr_expr(g.iter, ctx)
    elem = {'sorts': 'sort', 'gkores': 'gkore', 'convaxioms': 'convaxiom'}.get(ti)
    if elem is None:
        die(w, e, f'comprehension over a {ti}')
    sub = ctx.fork()
    xv = ctx.fresh('x')
    sub.env[g.target.id] = (xv, elem)
    st = ctx.fn.state
    if st and st in ctx.env:
        sv = ctx.fresh('s')
        sub.env[st] = (sv, ctx.env[st][1])
    body, tb = tr_expr(e.elt, sub)
    if not sub.binds:
        return f'(map (fun {xv} => {body}) {it})', {'kpat': 'kpats'}.get(tb, 'list')
    if len(sub.binds) != 1 or sub.binds[0][0] != 's' or not st:
        die(w, e, 'comprehension element with more than one effect')
    _, pat, call = sub.binds[0]
    if pat != f'({sub.env[st][0]}, {body})' or tb != 'kpat':
        die(w, e, 'comprehension element must be the mutating call itself')
    ns, x = ctx.fresh('s'), ctx.fresh()
    ctx.binds.append(('s', f'({ns}, {x})', f'st_map (fun {sv} {xv} => {call}) {ctx.env[st][0]} {it}'))
    ctx.env[st] = (ns, ctx.env[st][1])
    return x, 'kpats'


# ------------------------------------------------------------------------------------------------ AST pre-passes

class Renamer(ast.NodeTransformer):
    def __init__(self, m):
        self.m = m

    def visit_Name(self, n):
        return ast.copy_location(ast.Name(id=self.m.get(n.id, n.id), ctx=n.ctx), n)


def find_helper_call(node, helpers):
    """the helper call that is a direct operand of a statement (value of an assignment, argument of .append, returned)"""
    cands = []
    if isinstance(node, (ast.Assign, ast.AnnAssign, ast.Return)) and node.value is not None:
        cands.append(node.value)
    if isinstance(node, ast.Expr) and isinstance(node.value, ast.Call):
        c = node.value
        cands.append(c)
        if isinstance(c.func, ast.Attribute) and c.func.attr == 'append' and len(c.args) == 1:
            cands.append(c.args[0])
    for c in cands:
        if isinstance(c, ast.Call) and isinstance(c.func, ast.Attribute) and isinstance(c.func.value, ast.Name) \
                and (c.func.value.id, c.func.attr) in helpers:
            return c
    return None


def stored_names(stmts):
    out = set()
    for st in stmts:
        for n in ast.walk(st):
            if isinstance(n, ast.Name) and isinstance(n.ctx, ast.Store):
                out.add(n.id)
            if isinstance(n, ast.MatchAs) and n.name:
                out.add(n.name)
    return out


def inline_helpers(stmts, helpers, where, counter):
    """Replace a call of a private helper of the same class by the helper's statements.
    `T = h(args)` / `x.append(h(args))` / expression statement: the helper must be straight-line code with one final
    return (its value replaces the call).  `return h(args)` (tail call): ANY body -- its returns are the caller's.
    Parameters whose argument is a plain variable are that variable (no copy: a mutated object stays shared); the
    helper must not assign to them.  `self` of a non-static helper is the caller's `self`.  Locals are renamed apart."""
    import copy
    out = []
    for s in stmts:
        for field in ('body', 'orelse'):
            if hasattr(s, field) and isinstance(getattr(s, field), list) and not isinstance(s, ast.Match):
                setattr(s, field, inline_helpers(getattr(s, field), helpers, where, counter))
        if isinstance(s, ast.Match):
            for c in s.cases:
                c.body = inline_helpers(c.body, helpers, where, counter)
        call = find_helper_call(s, helpers)
        if call is None:
            for n in ast.walk(s):
                if isinstance(n, ast.Call) and isinstance(n.func, ast.Attribute) and isinstance(n.func.value, ast.Name) \
                        and (n.func.value.id, n.func.attr) in helpers and not isinstance(s, (ast.For, ast.If, ast.Match)):
                    die(where, n, 'helper call in a position that cannot be inlined')
            out.append(s)
            continue
        h = helpers[(call.func.value.id, call.func.attr)]
        hparams = list(h.args.args)
        if call.func.value.id == 'self':
            if not hparams or hparams[0].arg != 'self':
                die(where, call, 'helper called on self has no self parameter')
            hparams = hparams[1:]
        if call.keywords or len(call.args) != len(hparams) or h.args.vararg or h.args.kwarg or h.args.defaults or h.args.kwonlyargs:
            die(where, call, 'helper call shape')
        body = [st for st in h.body if not (isinstance(st, ast.Expr) and isinstance(st.value, ast.Constant))]
        tail = isinstance(s, ast.Return) and s.value is call
        if not tail and (not body or not isinstance(body[-1], ast.Return) or body[-1].value is None
                         or any(isinstance(n, (ast.Return, ast.For, ast.While, ast.If, ast.Match, ast.Try, ast.With))
                                for st in body[:-1] for n in ast.walk(st))):
            die(where, h, 'helper used for its value is not straight-line code with one final return')
        if any(isinstance(n, (ast.Global, ast.Nonlocal, ast.Lambda, ast.FunctionDef, ast.Yield, ast.YieldFrom)) for st in body for n in ast.walk(st)):
            die(where, h, 'helper body outside the subset')
        counter[0] += 1
        pre = f'h{counter[0]}_'
        stored = stored_names(body)
        ren = {}
        for p_, a in zip(hparams, call.args):
            if isinstance(a, ast.Name):
                if p_.arg in stored:
                    die(where, h, f'helper assigns to its parameter {p_.arg}')
                ren[p_.arg] = a.id                       # the parameter IS the caller's variable
            else:
                ren[p_.arg] = pre + p_.arg
                out.append(ast.copy_location(ast.Assign(targets=[ast.Name(id=pre + p_.arg, ctx=ast.Store())], value=a), s))
        for n in stored:
            if n != '_' and n not in ren:
                ren[n] = pre + n
        ren.pop('self', None)

        class Ren(ast.NodeTransformer):
            def visit_Name(self, n):
                return ast.copy_location(ast.Name(id=ren.get(n.id, n.id), ctx=n.ctx), n)

            def visit_MatchAs(self, n):
                self.generic_visit(n)
                if n.name:
                    n.name = ren.get(n.name, n.name)
                return n
        if tail:
            out.extend(ast.fix_missing_locations(Ren().visit(copy.deepcopy(st))) for st in body)
            continue
        for st in body[:-1]:
            out.append(ast.fix_missing_locations(Ren().visit(copy.deepcopy(st))))
        ret = Ren().visit(copy.deepcopy(body[-1].value))

        class Repl(ast.NodeTransformer):
            def visit_Call(self, n):
                return ret if n is call else self.generic_visit(n)
        out.append(ast.fix_missing_locations(Repl().visit(s)))
    return out


def desugar(stmts, counter):
    """dict comprehension -> loop filling an empty dict"""
    out = []
    for s in stmts:
        for field in ('body', 'orelse'):
            if hasattr(s, field) and isinstance(getattr(s, field), list) and not isinstance(s, ast.Match):
                setattr(s, field, desugar(getattr(s, field), counter))
        if isinstance(s, ast.Match):
            for c in s.cases:
                c.body = desugar(c.body, counter)
        val = s.value if isinstance(s, (ast.Return, ast.Assign, ast.AnnAssign)) else None
        if isinstance(val, ast.DictComp) and len(val.generators) == 1 and not val.generators[0].ifs:
            counter[0] += 1
            acc = f'dc{counter[0]}_acc'
            g = val.generators[0]
            out.append(ast.copy_location(ast.Assign(targets=[ast.Name(id=acc, ctx=ast.Store())], value=ast.Dict(keys=[], values=[])), s))
            store = ast.Assign(targets=[ast.Subscript(value=ast.Name(id=acc, ctx=ast.Load()), slice=val.key, ctx=ast.Store())], value=val.value)
            out.append(ast.fix_missing_locations(ast.copy_location(ast.For(target=g.target, iter=g.iter, body=[store], orelse=[]), s)))
            s.value = ast.Name(id=acc, ctx=ast.Load())
            out.append(ast.fix_missing_locations(s))
        else:
            out.append(s)
    return out


# ------------------------------------------------------------------------------------------------ statements

def terminates(stmts):
    if not stmts:
        return False
    s = stmts[-1]
    if isinstance(s, (ast.Return, ast.Raise)):
        return True
    if isinstance(s, ast.If):
        return terminates(s.body) and terminates(s.orelse)
    if isinstance(s, ast.Match):
        return all(terminates(c.body) for c in s.cases)
    return False


def assign_name(ctx, name, x, tx, s):
    """python `name = <pure value>`: the name now stands for the expression"""
    old = ctx.env.get(name)
    ctx.env[name] = (x, tx)


def tr_stmts(stmts, ctx, after):
    """`after(ctx)` gives the translation of what follows this block, in the context reached"""
    if not stmts:
        return after(ctx)
    s, rest = stmts[0], stmts[1:]
    w = ctx.where

    def cont(c=None):
        return tr_stmts(rest, c or ctx, after)

    if isinstance(s, ast.Expr) and isinstance(s.value, ast.Constant) and isinstance(s.value.value, str):
        return cont()
    if isinstance(s, ast.AnnAssign) and s.value is None:
        return cont()                                       # bare declaration `x: T`
    if isinstance(s, ast.Expr) and isinstance(s.value, ast.Call):
        name = dotted(s.value.func)
        if name == 'print' or name == 'self._inferred_notations.add':
            return cont()
        f = s.value.func
        if isinstance(f, ast.Attribute) and f.attr == 'append' and len(s.value.args) == 1:
            (x, tx), b = with_binds(ctx, lambda: tr_expr(s.value.args[0], ctx))
            tgt = f.value
            if isinstance(tgt, ast.Name) and tgt.id in ctx.env and ctx.env[tgt.id][1] in ('emptylist', 'convaxioms', 'kpats'):
                o, ot = ctx.env[tgt.id]
                nt = {'convaxiom': 'convaxioms', 'kpat': 'kpats'}.get(tx)
                if nt is None or (ot != 'emptylist' and ot != nt):
                    die(w, s, 'append of a wrong element')
                ctx.env[tgt.id] = (f'({o} ++ [{x}])', nt)
                return emit_binds(b, cont())
            if isinstance(tgt, ast.Attribute) and isinstance(tgt.value, ast.Name) and tgt.value.id in ctx.env:
                o, ot = ctx.env[tgt.value.id]
                if (ot, tgt.attr) in SETTERS and tx == 'kpat':
                    get = ATTRS[(ot, tgt.attr)][0]
                    ns = ctx.fresh('s')
                    ctx.env[tgt.value.id] = (ns, ot)
                    return emit_binds(b, f'let {ns} := {SETTERS[(ot, tgt.attr)]} {o} ({get} {o} ++ [{x}]) in {cont()}')
            die(w, s, 'append target')
        if name == 'self.add_proof_expression' and len(s.value.args) == 1 and ctx.env.get('self', ('', ''))[1] == 'gexec':
            (x, tx), b = with_binds(ctx, lambda: tr_expr(s.value.args[0], ctx))
            if tx != 'proofterm':
                die(w, s, 'add_proof_expression argument')
            o = ctx.env['self'][0]
            ns = ctx.fresh('s')
            ctx.env['self'] = (ns, 'gexec')
            return emit_binds(b, f'let {ns} := set_proofs {o} (x_proofs {o} ++ [{x}]) in {cont()}')
        (x, tx), b = with_binds(ctx, lambda: tr_expr(s.value, ctx))
        if tx != 'unit' and not (isinstance(f, ast.Attribute) and f.attr in BYNAME and BYNAME[f.attr].state):
            die(w, s, 'expression statement with a value')
        return emit_binds(b, cont())
    if isinstance(s, ast.Assert):
        return tr_test(s.test, ctx, s, lambda c: cont(c), lambda c: 'None')
    if isinstance(s, ast.Raise):
        if ctx.pure:
            die(w, s, 'raise in a total property')
        return 'None'
    if isinstance(s, ast.Return):
        if s.value is None:
            return ctx.ret_wrap('tt')
        (x, tx), b = with_binds(ctx, lambda: tr_expr(s.value, ctx))
        if tx == 'gexec' and ctx.fn.ret == 'pmodule':
            x, tx = f'(to_module {x})', 'pmodule'
        if tx != ctx.fn.ret and not (tx == 'emptylist'):
            die(w, s, f'returns a {tx}, declared {ctx.fn.ret}')
        return emit_binds(b, ctx.ret_wrap(x))
    if isinstance(s, (ast.Assign, ast.AnnAssign)):
        tgt = s.targets[0] if isinstance(s, ast.Assign) else s.target
        if isinstance(s, ast.Assign) and len(s.targets) != 1:
            die(w, s, 'multiple targets')
        val = s.value
        if isinstance(val, ast.Subscript) and dotted(val.value) == 'self._cached_axiom_scopes' and isinstance(tgt, ast.Name):
            (k, tk), b = with_binds(ctx, lambda: tr_expr(val.slice, ctx))
            ns = ctx.fresh('s')
            ctx.env[tgt.id] = (ns, 'gscope')
            return emit_binds(b, f'match sem_cached_scope {ctx.env["self"][0]} {k} with None => None | Some {ns} => {cont()} end')
        if isinstance(val, ast.Constant) and val.value is None and isinstance(tgt, ast.Name):
            ann = ast.unparse(s.annotation) if isinstance(s, ast.AnnAssign) else ''
            if 'ExecutionProofExp' not in ann:
                die(w, s, 'None initialiser')
            ctx.env[tgt.id] = ('(@None gexec)', 'opt gexec')
            return cont()
        key_first = isinstance(tgt, ast.Subscript) and getattr(s, '_key_first', False)
        if key_first:        # a dict comprehension evaluates the key before the value
            (k, tk), b2 = with_binds(ctx, lambda: tr_expr(tgt.slice, ctx))
        (x, tx), b = with_binds(ctx, lambda: tr_expr(val, ctx))
        if isinstance(tgt, ast.Tuple):
            names = [t.id if isinstance(t, ast.Name) else None for t in tgt.elts]
            if None in names:
                die(w, s, 'tuple target')
            if tx == 'tup3' and len(names) == 3:
                for i, n in enumerate(names):
                    if n != '_':
                        ctx.env[n] = (tup3_proj(x, i), 'kpat')
                return emit_binds(b, cont())
            if tx == 'naryparts' and len(names) == 2 and names[1] == '_':
                ctx.env[names[0]] = (x, 'kpat')
                return emit_binds(b, cont())
            if tx.startswith('tuple:') and isinstance(val, ast.Tuple) and len(val.elts) == len(names):
                if b:
                    die(w, s, 'tuple assignment whose elements have effects')
                parts, b3 = with_binds(ctx, lambda: [tr_expr(el, ctx) for el in val.elts])
                if b3:
                    die(w, s, 'tuple assignment whose elements have effects')
                for n, (px, pt) in zip(names, parts):
                    if n != '_':
                        ctx.env[n] = (px, pt)
                return emit_binds(b, cont())
            die(w, s, f'tuple assignment from a {tx}')
        if isinstance(tgt, ast.Name):
            assign_name(ctx, tgt.id, x, tx, s)
            return emit_binds(b, cont())
        if isinstance(tgt, ast.Attribute) and isinstance(tgt.value, ast.Name) and tgt.value.id in ctx.env:
            o, ot = ctx.env[tgt.value.id]
            if (ot, tgt.attr) in SETTERS and ATTRS[(ot, tgt.attr)][1] == tx:
                ns = ctx.fresh('s')
                ctx.env[tgt.value.id] = (ns, ot)
                return emit_binds(b, f'let {ns} := {SETTERS[(ot, tgt.attr)]} {o} {x} in {cont()}')
            die(w, s, 'attribute assignment')
        if isinstance(tgt, ast.Subscript):
            if not key_first:    # `d[k] = v`: the value first, then the subscript of the target
                (k, tk), b2 = with_binds(ctx, lambda: tr_expr(tgt.slice, ctx))
            base = tgt.value
            allb = b2 + b if key_first else b + b2
            if isinstance(base, ast.Attribute) and isinstance(base.value, ast.Name) and base.value.id in ctx.env:
                o, ot = ctx.env[base.value.id]
                if (ot, base.attr) in SETTERS and ATTRS[(ot, base.attr)][1] == 'sdict' and tk == 'str' and tx == 'kpat':
                    get = ATTRS[(ot, base.attr)][0]
                    ns = ctx.fresh('s')
                    ctx.env[base.value.id] = (ns, ot)
                    return emit_binds(allb, f'let {ns} := {SETTERS[(ot, base.attr)]} {o} (sd_set ({get} {o}) {k} {x}) in {cont()}')
            if isinstance(base, ast.Name) and base.id in ctx.env and ctx.env[base.id][1] == 'ndict' and tk == 'N' and tx == 'kpat':
                ctx.env[base.id] = (f'(nd_set {ctx.env[base.id][0]} {k} {x})', 'ndict')
                return emit_binds(allb, cont())
            die(w, s, 'subscript assignment')
        die(w, s, 'assignment target')
    if isinstance(s, ast.If):
        def branch(stmts_):
            def go(c):
                if terminates(stmts_):
                    return tr_stmts(stmts_, c, lambda c2: die(w, s, 'fall through'))
                return tr_stmts(stmts_, c, lambda c2: cont(c2))
            return go
        return tr_test(s.test, ctx, s, branch(s.body), branch(s.orelse))
    if isinstance(s, ast.For):
        return tr_for(s, ctx, cont)
    if isinstance(s, ast.Match):
        return tr_match(s, ctx, cont)
    die(w, s, 'statement outside the subset')


def tr_test(test, ctx, node, then_k, else_k):
    """canonical conditional: negations are removed by swapping the branches; a test of an Optional against None is a
    match that refines the variable"""
    w = ctx.where
    while isinstance(test, ast.UnaryOp) and isinstance(test.op, ast.Not):
        test = test.operand
        then_k, else_k = else_k, then_k
    if isinstance(test, ast.Compare) and len(test.ops) == 1 and isinstance(test.ops[0], (ast.NotIn, ast.IsNot)):
        test = ast.Compare(left=test.left, ops=[ast.In() if isinstance(test.ops[0], ast.NotIn) else ast.Is()],
                           comparators=test.comparators)
        then_k, else_k = else_k, then_k
    if isinstance(test, ast.Compare) and isinstance(test.ops[0], ast.Is):
        if not (isinstance(test.comparators[0], ast.Constant) and test.comparators[0].value is None and isinstance(test.left, ast.Name)):
            die(w, node, '`is` test')
        n = test.left.id
        x, t = ctx.env.get(n, (None, ''))
        if not t.startswith('opt '):
            die(w, node, f'`is None` on a {t}')
        c1, c2 = ctx.fork(), ctx.fork()
        nv = ctx.fresh('o')
        c2.env[n] = (nv, t[4:])
        a = then_k(c1)
        o = else_k(c2)
        return f'match {x} with None => {a} | Some {nv} => {o} end'
    if isinstance(test, ast.Compare) and len(test.ops) == 1 and isinstance(test.ops[0], ast.In):
        # `k in d` on a str-keyed dict = the Optional lookup; `d[k]` in the positive branch is the value found
        (k, tk), bk = with_binds(ctx, lambda: tr_expr(test.left, ctx))
        (d, td), bd = with_binds(ctx, lambda: tr_expr(test.comparators[0], ctx))
        if td == 'sdict' and tk == 'str' and not bk and not bd:
            c1, c2 = ctx.fork(), ctx.fork()
            nv = ctx.fresh('o')
            c1.known[(k, d)] = nv
            a = then_k(c1)
            o = else_k(c2)
            return f'match (sd_get {k} {d}) with None => {o} | Some {nv} => {a} end'
    (c, tc), b = with_binds(ctx, lambda: tr_expr(test, ctx))
    if tc != 'bool':
        die(w, node, 'condition is not a boolean')
    c1, c2 = ctx.fork(), ctx.fork()
    a = then_k(c1)
    o = else_k(c2)
    return emit_binds(b, f'if {c} then {a} else {o}')


def tr_for(s, ctx, cont):
    w = ctx.where
    if s.orelse:
        die(w, s, 'for/else')
    (it, ti), b = with_binds(ctx, lambda: tr_expr(s.iter, ctx))
    sub = ctx.fork()
    if ti == 'items_sdictk' and isinstance(s.target, ast.Tuple) and len(s.target.elts) == 2 \
            and all(isinstance(t, ast.Name) for t in s.target.elts):
        xa, xb = ctx.fresh('x'), ctx.fresh('x')
        pat = f"'({xa}, {xb})"
        sub.env[s.target.elts[0].id], sub.env[s.target.elts[1].id] = (xa, 'str'), (xb, 'gkore')
    elif ti in ('kpats', 'hints') and isinstance(s.target, ast.Name):
        pat = ctx.fresh('x')
        sub.env[s.target.id] = (pat, {'kpats': 'kpat', 'hints': 'hint'}[ti])
    else:
        die(w, s, f'for over a {ti}')
    # loop state: the threaded object (if live) and the locals the body rebinds, in a canonical order
    state = []
    if ctx.fn.state and ctx.fn.state in ctx.env:
        state.append(ctx.fn.state)
    for st in ast.walk(ast.Module(body=s.body, type_ignores=[])):
        t = None
        if isinstance(st, ast.Assign):
            t = st.targets[0]
        elif isinstance(st, ast.Call) and isinstance(st.func, ast.Attribute) and st.func.attr == 'append':
            t = st.func.value
        elif isinstance(st, ast.Call) and isinstance(st.func, ast.Attribute) and st.func.attr in BYNAME and BYNAME[st.func.attr].state:
            # the object a translated method mutates is the argument at its state position
            f_ = BYNAME[st.func.attr]
            static_ = dotted(st.func.value) == f_.cls
            srcs = ([] if static_ or f_.params[0][0] != 'self' else [st.func.value]) + list(st.args)
            si_ = [i for i, (pn, _) in enumerate(f_.params) if pn == f_.state][0]
            t = srcs[si_] if si_ < len(srcs) else None
        while isinstance(t, (ast.Attribute, ast.Subscript)):
            t = t.value
        if isinstance(t, ast.Name) and t.id in ctx.env and t.id not in state:
            state.append(t.id)
    if not state:
        die(w, s, 'loop without state')
    ltypes = {n: ctx.env[n][1] for n in state}
    names = {n: ctx.fresh('a') for n in state}
    for n in state:
        sub.env[n] = (names[n], ltypes[n])

    def pack(c):
        vals = []
        for n in state:
            x, t = c.env[n]
            lt = ltypes[n]
            if lt == 'emptylist' and t != 'emptylist':
                ltypes[n] = lt = t
            if lt.startswith('opt ') and t == lt[4:]:
                x = f'(Some {x})'
            elif t != lt and t != 'emptylist':
                die(w, s, f'loop variable {n} changes type: {lt} -> {t}')
            vals.append(x)
        return '(' + ', '.join(vals) + ')' if len(vals) > 1 else vals[0]

    body = tr_stmts(s.body, sub, lambda c: f'Some {pack(c)}')
    tup_in = '(' + ', '.join(names[n] for n in state) + ')' if len(state) > 1 else names[state[0]]
    init = '(' + ', '.join(ctx.env[n][0] for n in state) + ')' if len(state) > 1 else ctx.env[state[0]][0]
    outs = {n: ctx.fresh('r') for n in state}
    tup_out = '(' + ', '.join(outs[n] for n in state) + ')' if len(state) > 1 else outs[state[0]]
    for n in state:
        ctx.env[n] = (outs[n], ltypes[n])
    lam = f"(fun {(chr(39) + tup_in) if len(state) > 1 else tup_in} {pat} => {body})"
    return emit_binds(b, f'match st_fold {lam} {init} {it} with None => None | Some {tup_out} => {cont()} end')


def tr_match(s, ctx, cont):
    w = ctx.where
    (subj, ts), b = with_binds(ctx, lambda: tr_expr(s.subject, ctx))
    if ts != 'gkore':
        die(w, s, 'match on a non-Kore value')
    clauses, seen = {}, set()
    for c in s.cases:
        if c.guard is not None:
            die(w, c.pattern, 'guarded case')
        alts = c.pattern.patterns if isinstance(c.pattern, ast.MatchOr) else [c.pattern]
        for p in alts:
            if not isinstance(p, ast.MatchClass) or p.kwd_patterns:
                die(w, p, 'case pattern')
            cname = dotted(p.cls)
            if not cname or not cname.startswith('kore.') or cname[5:] not in KORE:
                die(w, p, 'case class')
            ctor, ftypes = KORE[cname[5:]]
            pats = p.patterns if p.patterns else [ast.MatchAs(pattern=None, name=None)] * len(ftypes)
            if len(pats) != len(ftypes):
                die(w, p, 'number of positional sub-patterns')
            sub = ctx.fork()
            binders = []
            for sp, ft in zip(pats, ftypes):
                if not isinstance(sp, ast.MatchAs) or sp.pattern is not None:
                    die(w, p, 'sub-pattern is not a capture')
                x = ctx.fresh('x')          # wildcards get a (unused) name too: the text does not depend on them
                binders.append(x)
                if sp.name is not None:
                    sub.env[sp.name] = (x, ft)
            if ctor in seen:
                continue                                    # an earlier arm wins
            seen.add(ctor)
            body = tr_stmts(c.body, sub, lambda c2: cont(c2))
            clauses[ctor] = f'  | {ctor} {" ".join(binders)} =>\n      {body}'
    order = [KORE[k][0] for k in KORE]
    text = [clauses[c] for c in order if c in clauses]          # arms in a fixed (constructor) order
    if len(seen) < len(KORE):
        text.append(f'  | _ => {cont(ctx.fork())}')
    return emit_binds(b, 'match ' + subj + ' with\n' + '\n'.join(text) + '\n  end')


# ------------------------------------------------------------------------------------------------ driver

def component_helpers(cls, tree, where):
    """A private component object built in __init__ (`self.F = _K(args)`, never reassigned) whose fields are only set in
    _K.__init__: a call `self.F.m(args)` is the body of _K.m with `self.a` read as the constructor argument (fields bound
    to a parameter and never rebound) or, for a container field exposed by a read-only property `P` of the owner
    (`return self.F.a`), as `self.P`.  Returns (set of F, helpers for the inliner)."""
    import copy
    classes = {n.name: n for n in tree.body if isinstance(n, ast.ClassDef)}
    init = next((m for m in cls.body if isinstance(m, ast.FunctionDef) and m.name == '__init__'), None)
    if init is None:
        return set(), {}
    stores = {}
    for m in cls.body:
        for n in ast.walk(m):
            if isinstance(n, ast.Attribute) and isinstance(n.ctx, ast.Store) and isinstance(n.value, ast.Name) and n.value.id == 'self':
                stores[n.attr] = stores.get(n.attr, 0) + 1
    props = {}
    for m in cls.body:
        if isinstance(m, ast.FunctionDef) and [dotted(d) for d in m.decorator_list] == ['property']:
            body = [st for st in m.body if not (isinstance(st, ast.Expr) and isinstance(st.value, ast.Constant))]
            if len(body) == 1 and isinstance(body[0], ast.Return):
                d = dotted(body[0].value) if body[0].value is not None else None
                if d and d.count('.') == 2 and d.startswith('self.'):
                    props[tuple(d.split('.')[1:])] = m.name
    comps, helpers = set(), {}
    for st in init.body:
        if not (isinstance(st, ast.Assign) and len(st.targets) == 1 and dotted(st.targets[0]) and dotted(st.targets[0]).startswith('self.')
                and dotted(st.targets[0]).count('.') == 1 and isinstance(st.value, ast.Call) and isinstance(st.value.func, ast.Name)):
            continue
        F, K = st.targets[0].attr, classes.get(st.value.func.id)
        if K is None or not K.name.startswith('_') or stores.get(F, 0) != 1:
            continue
        kinit = next((m for m in K.body if isinstance(m, ast.FunctionDef) and m.name == '__init__'), None)
        if kinit is None or kinit.args.vararg or kinit.args.kwarg or kinit.args.kwonlyargs:
            continue
        pnames = [a.arg for a in kinit.args.args][1:]
        defaults = dict(zip(pnames[len(pnames) - len(kinit.args.defaults):], kinit.args.defaults))
        bound = dict(zip(pnames, st.value.args))
        for k in st.value.keywords:
            if k.arg is None or k.arg not in pnames or k.arg in bound:
                die(where, st, 'component constructor arguments')
            bound[k.arg] = k.value
        for pn in pnames:
            if pn not in bound:
                if pn not in defaults:
                    die(where, st, 'component constructor arguments')
                bound[pn] = defaults[pn]
        if not all(isinstance(x, ast.Constant) or (dotted(x) or '').startswith('self.') for x in bound.values()):
            continue
        fields, ok = {}, True
        for st2 in kinit.body:
            if isinstance(st2, ast.Expr) and isinstance(st2.value, ast.Constant):
                continue
            tgt = st2.targets[0] if isinstance(st2, ast.Assign) and len(st2.targets) == 1 else (st2.target if isinstance(st2, ast.AnnAssign) else None)
            val = getattr(st2, 'value', None)
            if tgt is None or not (isinstance(tgt, ast.Attribute) and isinstance(tgt.value, ast.Name) and tgt.value.id == 'self') or val is None:
                ok = False
                break
            if isinstance(val, ast.Name) and val.id in bound:
                fields[tgt.attr] = ('arg', bound[val.id])
            elif isinstance(val, ast.Dict) and not val.keys:
                fields[tgt.attr] = ('container', None)
            else:
                ok = False
                break
        if not ok:
            continue
        rebound = set()
        for m in K.body:
            if isinstance(m, ast.FunctionDef) and m.name != '__init__':
                for n in ast.walk(m):
                    if isinstance(n, ast.Attribute) and isinstance(n.ctx, ast.Store) and isinstance(n.value, ast.Name) and n.value.id == 'self':
                        rebound.add(n.attr)
        comps.add(F)
        for m in K.body:
            if not isinstance(m, ast.FunctionDef) or m.name == '__init__' or m.decorator_list:
                continue

            class Sub(ast.NodeTransformer):
                def visit_Attribute(self, n):
                    if isinstance(n.value, ast.Name) and n.value.id == 'self':
                        kind = fields.get(n.attr)
                        if kind and kind[0] == 'arg' and n.attr not in rebound and isinstance(n.ctx, ast.Load):
                            return copy.deepcopy(kind[1])
                        if kind and kind[0] == 'container' and n.attr not in rebound and (F, n.attr) in props:
                            return ast.copy_location(ast.Attribute(value=ast.Name(id='self', ctx=ast.Load()), attr=props[(F, n.attr)], ctx=n.ctx), n)
                        return ast.copy_location(ast.Attribute(value=ast.Attribute(value=ast.Name(id='self', ctx=ast.Load()), attr=F, ctx=ast.Load()), attr=n.attr, ctx=n.ctx), n)
                    return self.generic_visit(n)
            m2 = ast.fix_missing_locations(Sub().visit(copy.deepcopy(m)))
            m2.name = f'_comp_{F}_{m.name}'
            helpers[('self', m2.name)] = m2
    return comps, helpers


class CompCalls(ast.NodeTransformer):
    """`self.F.m(args)` -> `self._comp_F_m(args)` for a component F"""

    def __init__(self, comps):
        self.comps = comps

    def visit_Call(self, n):
        self.generic_visit(n)
        f = n.func
        if isinstance(f, ast.Attribute) and isinstance(f.value, ast.Attribute) and isinstance(f.value.value, ast.Name) \
                and f.value.value.id == 'self' and f.value.attr in self.comps:
            n.func = ast.copy_location(ast.Attribute(value=ast.Name(id='self', ctx=ast.Load()), attr=f'_comp_{f.value.attr}_{f.attr}', ctx=ast.Load()), f)
        return n


def module_consts(tree):
    """module-level names bound exactly once, to a str/int literal, and never assigned anywhere else in the module"""
    cands, count = {}, {}
    for n in ast.walk(tree):
        if isinstance(n, ast.Name) and isinstance(n.ctx, (ast.Store, ast.Del)):
            count[n.id] = count.get(n.id, 0) + 1
        if isinstance(n, (ast.Global, ast.Nonlocal)):
            for x in n.names:
                count[x] = count.get(x, 0) + 2
    for st in tree.body:
        tgt = val = None
        if isinstance(st, ast.Assign) and len(st.targets) == 1:
            tgt, val = st.targets[0], st.value
        elif isinstance(st, ast.AnnAssign) and st.value is not None:
            tgt, val = st.target, st.value
        if isinstance(tgt, ast.Name) and isinstance(val, ast.Constant) and isinstance(val.value, (str, int)) \
                and not isinstance(val.value, bool):
            cands[tgt.id] = val
    return {k: v_ for k, v_ in cands.items() if count.get(k, 0) == 1}


def find_class(tree, cls):
    for n in tree.body:
        if isinstance(n, ast.ClassDef) and n.name == cls:
            return n
    return None


def generate(repo):
    base = os.path.join(repo, 'generation', 'src', 'proof_generation')
    trees = {}
    out = ['(** GENERATED by translators/kore_conv.py from generation/src/proof_generation/'
           '{k/kore_convertion/language_semantics.py, proof.py, k/execution_proof_generation.py} -- do not edit *)',
           'From Coq Require Import String Ascii NArith List Bool.',
           'From Pi2 Require Import K.Kore K.Exec K.GenPrims.',
           'Import ListNotations.', 'Open Scope list_scope.', '']
    for f in FUNCS:
        if f.file not in trees:
            with open(os.path.join(base, f.file)) as fh:
                trees[f.file] = ast.parse(fh.read())
        cls = find_class(trees[f.file], f.cls)
        m = next((x for x in (cls.body if cls else []) if isinstance(x, ast.FunctionDef) and x.name == f.name), None)
        if m is None:
            raise SystemExit(f'kore_conv: {f.cls}.{f.name} not found in {f.file}')
        if f.name == 'resolve_sort_param_metavar':
            const = [n for n in cls.body if isinstance(n, ast.Assign) and isinstance(n.targets[0], ast.Name)
                     and n.targets[0].id == 'SORT_PARAM_METAVAR']
            if len(const) != 1 or not isinstance(const[0].value, ast.Constant) or not isinstance(const[0].value.value, int):
                raise SystemExit('kore_conv: ConvertionScope.SORT_PARAM_METAVAR is not an integer constant')
            out.append(f'Definition gen_SORT_PARAM_METAVAR : N := {const[0].value.value}%N.')
        pnames = [a.arg for a in m.args.args]
        if pnames != [p for p, _ in f.params] or m.args.vararg or m.args.kwarg or m.args.kwonlyargs or m.args.defaults:
            die(f'{f.cls}.{f.name}', m, f'parameters changed (expected {[p for p, _ in f.params]})')
        # private static helpers of the same class that are not translated themselves: inlined at their call sites
        helpers = {}
        for x in cls.body:
            if isinstance(x, ast.FunctionDef) and x.name.startswith('_') and not x.name.startswith('__') and x.name not in BYNAME:
                decos = [dotted(d) for d in x.decorator_list]
                if decos == ['staticmethod']:
                    helpers[(f.cls, x.name)] = x
                elif not decos:
                    helpers[('self', x.name)] = x
        import copy
        counter = [0]
        comps, chelpers = component_helpers(cls, trees[f.file], f'{f.cls}.{f.name}')
        helpers.update(chelpers)
        stmts = [ast.fix_missing_locations(CompCalls(comps).visit(st)) for st in copy.deepcopy(m.body)] if comps else copy.deepcopy(m.body)
        for _round in range(6):                   # helpers may call helpers
            before = ast.dump(ast.Module(body=stmts, type_ignores=[]))
            stmts = inline_helpers(stmts, helpers, f'{f.cls}.{f.name}', counter)
            if ast.dump(ast.Module(body=stmts, type_ignores=[])) == before:
                break
        else:
            die(f'{f.cls}.{f.name}', m, 'helper inlining does not terminate (recursive helper)')
        stmts = desugar(stmts, counter)
        for st in ast.walk(ast.Module(body=stmts, type_ignores=[])):
            if isinstance(st, ast.Assign) and isinstance(st.targets[0], ast.Subscript) and isinstance(st.targets[0].value, ast.Name) \
                    and st.targets[0].value.id.startswith('dc'):
                st._key_first = True
        ctx = Ctx(f)
        ctx.consts = module_consts(trees[f.file])
        plist = f.extra + f.params
        if f.name == 'convert_substitutions':
            plist = f.params
        for n, t in plist:
            ctx.env[n] = (v(n), t)
        body = tr_stmts(stmts, ctx, lambda c: c.ret_wrap('tt') if f.ret == 'unit' else die(c.where, m, 'falls off the end'))
        if ctx.pure and 'None' in body:
            die(ctx.where, m, 'partial operation in a total property')
        params = ' '.join(f'({v(n)}:{COQTYPE[t]})' for n, t in f.extra + f.params)
        if ctx.pure:
            rt = COQTYPE[f.ret]
        elif f.state:
            stype = dict(f.params).get(f.state, 'gscope')
            rt = f'option ({COQTYPE[stype]} * {COQTYPE[f.ret]})' if f.ret != 'unit' else f'option {COQTYPE[stype]}'
        else:
            rt = f'option ({COQTYPE[f.ret]})'
        if f.rec:
            out.append(f'Fixpoint {f.coq} (fuel:nat) {params} {{struct fuel}} : {rt} :=\n  match fuel with O => None | S fuel =>\n  {body}\n  end.')
        elif f.fuel:
            out.append(f'Definition {f.coq} (fuel:nat) {params} : {rt} :=\n  {body}.')
        else:
            out.append(f'Definition {f.coq} {params} : {rt} :=\n  {body}.')
        out.append('')
    return '\n'.join(out)


if __name__ == '__main__':
    sys.stdout.write(generate(sys.argv[1] if len(sys.argv) > 1 else '/repo'))

"""Fail-closed translator: the judgement functions of `impl Pattern` in rust/src/lib.rs  ->  coq/Gen/Judge.v.

Translated functions: e_fresh, s_fresh, positive, negative, is_redundant_subst, well_formed.
The accepted Rust subset is exactly what these functions use (one `match self` whose arms are boolean
expressions, or blocks of `if c { return e; }`, `let x = e;`, `return e;` and a tail expression).
Anything else raises SystemExit naming the offending token: the proof stage is then broken.
"""
import os
import re
import sys

FUNCS = ['e_fresh', 's_fresh', 'positive', 'negative', 'is_redundant_subst', 'well_formed']
CTOR = {  # Rust constructor -> (Coq constructor, ordered field names)
    'EVar': ('EVar', ['0']), 'SVar': ('SVar', ['0']), 'Symbol': ('Sym', ['0']),
    'Implies': ('Imp', ['left', 'right']), 'App': ('App', ['left', 'right']),
    'Exists': ('Ex', ['var', 'subpattern']), 'Mu': ('Mu', ['var', 'subpattern']),
    'MetaVar': ('MVar', ['id', 'e_fresh', 's_fresh', 'positive', 'negative', 'app_ctx_holes']),
    'ESubst': ('ESub', ['pattern', 'evar_id', 'plug']), 'SSubst': ('SSub', ['pattern', 'svar_id', 'plug']),
}
TOK = re.compile(r'\s*(?:(//[^\n]*)|("(?:[^"\\]|\\.)*")|(::|=>|&&|\|\||!=|==|->|\.\.|[A-Za-z_][A-Za-z0-9_]*|[{}()\[\],;*&!.|=:<>]))')


def fail(msg):
    raise SystemExit('rust_judge translator: ' + msg)


def tokenize(src):
    pos, out = 0, []
    while pos < len(src):
        m = TOK.match(src, pos)
        if not m:
            if src[pos:].strip() == '':
                break
            fail(f'cannot tokenize at {src[pos:pos + 30]!r}')
        pos = m.end()
        if m.group(1):
            continue
        out.append(m.group(2) or m.group(3))
    return out


class P:
    def __init__(self, toks, fname):
        self.t, self.i, self.fname = toks, 0, fname

    def peek(self, k=0):
        return self.t[self.i + k] if self.i + k < len(self.t) else None

    def eat(self, x=None):
        tok = self.peek()
        if x is not None and tok != x:
            fail(f'in fn {self.fname}: expected {x!r}, got {tok!r} (context {" ".join(self.t[max(0, self.i - 6):self.i + 4])})')
        self.i += 1
        return tok

    # ---- function
    def function(self):
        self.eat('fn')
        name = self.eat()
        self.eat('(')
        self.eat('&')
        self.eat('self')
        arg = None
        if self.peek() == ',':
            self.eat(',')
            arg = self.eat()
            self.eat(':')
            self.eat('Id')
        self.eat(')')
        self.eat('->')
        self.eat('bool')
        self.eat('{')
        self.eat('match')
        self.eat('self')
        self.eat('{')
        arms = []
        while self.peek() != '}':
            arms.append(self.arm())
        self.eat('}')
        self.eat('}')
        return name, arg, arms

    def arm(self):
        pat = self.pattern()
        self.eat('=>')
        if self.peek() == '{':
            self.eat('{')
            body = self.block()
            self.eat('}')
        elif self.peek() == 'return':
            self.eat('return')
            body = self.expr()
        else:
            body = self.expr()
        if self.peek() == ',':
            self.eat(',')
        return pat, body

    def pattern(self):
        if self.peek() == '_':
            self.eat()
            return ('_',)
        self.eat('Pattern')
        self.eat('::')
        c = self.eat()
        if c not in CTOR:
            fail(f'in fn {self.fname}: unknown constructor {c}')
        fields = {}
        if self.peek() == '(':
            self.eat('(')
            fields['0'] = self.eat()
            self.eat(')')
        else:
            self.eat('{')
            while self.peek() != '}':
                tok = self.eat()
                if tok == '..':
                    pass
                else:
                    if tok not in CTOR[c][1]:
                        fail(f'in fn {self.fname}: unknown field {tok} of {c}')
                    fields[tok] = tok
                if self.peek() == ',':
                    self.eat(',')
            self.eat('}')
        return (c, fields)

    def block(self):
        """returns an expression tree"""
        tok = self.peek()
        if tok == 'if':
            self.eat('if')
            c = self.expr()
            self.eat('{')
            self.eat('return')
            e = self.expr()
            self.eat(';')
            self.eat('}')
            rest = self.block()
            return ('ite', c, e, rest)
        if tok == 'let':
            self.eat('let')
            v = self.eat()
            self.eat('=')
            e = self.expr()
            self.eat(';')
            return ('let', v, e, self.block())
        if tok == 'return':
            self.eat('return')
            e = self.expr()
            self.eat(';')
            if self.peek() != '}':
                fail(f'in fn {self.fname}: code after return')
            return e
        if tok == 'unimplemented':
            self.eat()
            self.eat('!')
            self.eat('(')
            depth = 1
            while depth:
                t = self.eat()
                depth += (t == '(') - (t == ')')
            if self.peek() == ';':
                self.eat(';')
            return ('panic',)
        e = self.expr()
        if self.peek() != '}':
            fail(f'in fn {self.fname}: expected end of block, got {self.peek()!r}')
        return e

    def expr(self):
        e = self.and_()
        while self.peek() == '||':
            self.eat()
            e = ('or', e, self.and_())
        return e

    def and_(self):
        e = self.unary()
        while self.peek() == '&&':
            self.eat()
            e = ('and', e, self.unary())
        return e

    def unary(self):
        if self.peek() == '!':
            self.eat()
            return ('not', self.unary())
        return self.cmp()

    def cmp(self):
        a = self.prim()
        if self.peek() in ('==', '!='):
            op = self.eat()
            b = self.prim()
            return ('eq' if op == '==' else 'ne', a, b)
        return a

    def prim(self):
        tok = self.peek()
        if tok in ('true', 'false'):
            self.eat()
            return ('const', tok)
        if tok == '(':
            self.eat('(')
            e = self.expr()
            self.eat(')')
            return e
        if tok == '*':
            self.eat('*')
            return ('var', self.eat())
        if tok == 'matches':
            self.eat()
            self.eat('!')
            self.eat('(')
            v = self.eat()
            self.eat('.')
            self.eat('as_ref')
            self.eat('(')
            self.eat(')')
            self.eat(',')
            alts = []
            while True:
                self.eat('Pattern')
                self.eat('::')
                c = self.eat()
                self.eat('{')
                self.eat('..')
                self.eat('}')
                alts.append(c)
                if self.peek() == '|':
                    self.eat('|')
                else:
                    break
            self.eat(')')
            return ('matches', v, alts)
        if tok in ('evar', 'svar') and self.peek(1) == '(':
            self.eat()
            self.eat('(')
            self.eat('*')
            v = self.eat()
            self.eat(')')
            return ('mkvar', tok, v)
        if tok == 'unimplemented':
            return self.block()
        if not re.fullmatch(r'[A-Za-z_][A-Za-z0-9_]*', tok or ''):
            fail(f'in fn {self.fname}: unexpected token {tok!r}')
        name = self.eat()
        e = ('var', name)
        while self.peek() == '.':
            self.eat('.')
            m = self.eat()
            self.eat('(')
            if m == 'contains':
                if self.peek() == '&':
                    self.eat('&')
                a = self.eat()
                self.eat(')')
                e = ('contains', e, ('var', a))
            elif m == 'into_iter':
                self.eat(')')
                self.eat('.')
                self.eat('any')
                self.eat('(')
                self.eat('|')
                v = self.eat()
                self.eat('|')
                body = self.expr()
                self.eat(')')
                e = ('any', e, v, body)
            elif m in FUNCS:
                if self.peek() == ')':
                    self.eat(')')
                    e = ('call', m, e, None)
                else:
                    if self.peek() == '*':
                        self.eat('*')
                    a = self.eat()
                    self.eat(')')
                    e = ('call', m, e, ('var', a))
            else:
                fail(f'in fn {self.fname}: unknown method .{m}()')
        return e


def find_fn(src, name):
    m = re.search(r'\n    fn ' + name + r'\(&self', src)
    if not m:
        fail(f'fn {name} not found in impl Pattern')
    start = m.start() + 1
    i = src.index('{', start)
    depth = 0
    j = i
    while True:
        if src[j] == '{':
            depth += 1
        elif src[j] == '}':
            depth -= 1
            if depth == 0:
                break
        j += 1
    return src[start:j + 1]


def V(name):
    return 'f_' + name if name != 'self' else 'p'


def emit(e, fname, patty):
    k = e[0]
    if k == 'const':
        return e[1]
    if k == 'var':
        return V(e[1])
    if k == 'or':
        return f'({emit(e[1], fname, patty)} || {emit(e[2], fname, patty)})'
    if k == 'and':
        return f'({emit(e[1], fname, patty)} && {emit(e[2], fname, patty)})'
    if k == 'not':
        return f'(negb {emit(e[1], fname, patty)})'
    if k in ('eq', 'ne'):
        a, b = e[1], e[2]
        if a[0] == 'mkvar':
            ctor = 'EVar' if a[1] == 'evar' else 'SVar'
            r = f'(pat_eqb ({ctor} {V(a[2])}) {emit(b, fname, patty)})'
        else:
            r = f'(N.eqb {emit(a, fname, patty)} {emit(b, fname, patty)})'
        return r if k == 'eq' else f'(negb {r})'
    if k == 'contains':
        return f'(mem {emit(e[2], fname, patty)} {emit(e[1], fname, patty)})'
    if k == 'any':
        return f'(existsb (fun {V(e[2])} => {emit(e[3], fname, patty)}) {emit(e[1], fname, patty)})'
    if k == 'call':
        if e[3] is None:
            return f'(gen_{e[1]} {emit(e[2], fname, patty)})'
        return f'(gen_{e[1]} {emit(e[2], fname, patty)} {emit(e[3], fname, patty)})'
    if k == 'matches':
        alts = ' | '.join(CTOR[c][0] + ' _' * len(CTOR[c][1]) for c in e[2])
        return f'(match {V(e[1])} with {alts} => true | _ => false end)'
    if k == 'ite':
        return f'(if {emit(e[1], fname, patty)} then {emit(e[2], fname, patty)} else {emit(e[3], fname, patty)})'
    if k == 'let':
        return f'(let {V(e[1])} := {emit(e[2], fname, patty)} in {emit(e[3], fname, patty)})'
    fail(f'in fn {fname}: cannot emit {k}')


def has_panic(arms):
    return any(b == ('panic',) for _, b in arms)


def gen_function(name, arg, arms, keyword):
    partial = has_panic(arms)
    lines = []
    sig = f'{keyword} gen_{name} (p:pat)' + (f' ({V(arg)}:N)' if arg else '') + (' {struct p}' if keyword in ('Fixpoint', 'with') else '') \
        + (' : option bool :=' if partial else ' : bool :=')
    lines.append(sig)
    lines.append('  match p with')
    for pat, body in arms:
        if pat == ('_',):
            lhs = '_'
        else:
            c, fields = pat
            coq, order = CTOR[c]
            lhs = coq + ''.join(' ' + (V(fields[f]) if f in fields else '_') for f in order)
        if body == ('panic',):
            rhs = 'None'
        else:
            rhs = emit(body, name, None)
            if partial:
                rhs = f'Some {rhs}'
        lines.append(f'  | {lhs} => {rhs}')
    lines.append('  end')
    return '\n'.join(lines)


def generate(repo):
    src = open(os.path.join(repo, 'rust/src/lib.rs')).read()
    parsed = {}
    for f in FUNCS:
        text = find_fn(src, f)
        p = P(tokenize(text), f)
        name, arg, arms = p.function()
        if p.peek() is not None:
            fail(f'in fn {f}: trailing tokens')
        parsed[f] = (arg, arms)
    out = ['(** GENERATED by translators/rust_judge.py from rust/src/lib.rs (impl Pattern) — do not edit *)',
           'From Coq Require Import NArith List Bool.', 'From Pi2 Require Import ML.Syntax.', 'Import ListNotations.', 'Open Scope N_scope.', '']
    out.append(gen_function('e_fresh', *parsed['e_fresh'], 'Fixpoint') + '.\n')
    out.append(gen_function('s_fresh', *parsed['s_fresh'], 'Fixpoint') + '.\n')
    out.append(gen_function('positive', *parsed['positive'], 'Fixpoint') + '\n' + gen_function('negative', *parsed['negative'], 'with') + '.\n')
    out.append(gen_function('is_redundant_subst', *parsed['is_redundant_subst'], 'Definition') + '.\n')
    out.append(gen_function('well_formed', *parsed['well_formed'], 'Definition') + '.\n')
    return '\n'.join(out)


if __name__ == '__main__':
    sys.stdout.write(generate(sys.argv[1] if len(sys.argv) > 1 else '/repo'))

"""Fail-closed translator: the judgement functions of `impl Pattern` in rust/src/lib.rs  ->  coq/Gen/Judge.v  (expression level).

Translated functions: e_fresh, s_fresh, positive, negative, is_redundant_subst, well_formed. Each is `match self { ARMS }`; arms may be
alternatives (`A | B`), guarded, or the wildcard, and are compiled per constructor of [pat] with Rust's first-match semantics. A body is a boolean
expression or a block of `let x = BOOL;`, `if C { return BOOL; }`, `return BOOL;` and a tail expression; boolean expressions are built from
`true false && || ! == !=`, `LIST.contains(&x)`, recursive / sibling judgement calls `sub.judge(x)`, `self.is_redundant_subst()`,
`LIST.iter().any/all(|h| ..)`, `matches!(sub.as_ref(), A | B ..)`, and pattern equalities `evar(id) == *plug` / `**plug == Pattern::EVar(id)`.
`unimplemented!`/`panic!` is `None` (only `well_formed` may panic). Renaming, merged or reordered disjoint arms, `!any` vs `all(!)`, folded early
returns change at most bound names or boolean structure (the agreement proofs decide boolean equivalence by case analysis); a dropped conjunct,
a different list or judgement, a swapped polarity changes the function.
"""
import os
import re
import sys

sys.path.insert(0, os.path.dirname(os.path.abspath(__file__)))
from rust_exec import norm, split_stmts, split_arms, split_top, match_close  # noqa: E402

FUNCS = ['e_fresh', 's_fresh', 'positive', 'negative', 'is_redundant_subst', 'well_formed']
CTORS = [('EVar', 'EVar', ['0']), ('SVar', 'SVar', ['0']), ('Symbol', 'Sym', ['0']), ('Implies', 'Imp', ['left', 'right']),
         ('App', 'App', ['left', 'right']), ('Exists', 'Ex', ['var', 'subpattern']), ('Mu', 'Mu', ['var', 'subpattern']),
         ('MetaVar', 'MVar', ['id', 'e_fresh', 's_fresh', 'positive', 'negative', 'app_ctx_holes']),
         ('ESubst', 'ESub', ['pattern', 'evar_id', 'plug']), ('SSubst', 'SSub', ['pattern', 'svar_id', 'plug'])]
COQC = {r: c for r, c, _ in CTORS}
NFIELDS = {r: len(f) for r, _, f in CTORS}
GEN = {'e_fresh': 'gen_e_fresh', 's_fresh': 'gen_s_fresh', 'positive': 'gen_positive', 'negative': 'gen_negative'}
PATCON = {'evar': 'EVar', 'svar': 'SVar', 'symbol': 'Sym'}


def fail(msg):
    raise SystemExit('rust_judge translator: ' + msg)


def find_method(src, name):
    m = re.search(r'\n    fn ' + name + r'\(', src)
    if not m:
        fail(f'fn {name} not found in impl Pattern')
    i = src.index('{', m.start())
    return src[m.start() + 1:match_close(src, i) + 1]


def parse_alt(alt):
    alt = alt.strip()
    if alt == '_':
        return '_', {}
    m = re.fullmatch(r'Pattern::(\w+)\((\w+)\)', alt)
    if m:
        return m.group(1), ({} if m.group(2) == '_' else {m.group(2): '0'})
    m = re.fullmatch(r'Pattern::(\w+) \{ ?(.*?) ?\}', alt)
    if m:
        bind = {}
        for g in [x.strip() for x in m.group(2).split(',')]:
            if g == '..' or not g:
                continue
            if ':' in g:
                k, val = [x.strip() for x in g.split(':', 1)]
            else:
                k = val = g
            if val != '_':
                bind[val] = k
        return m.group(1), bind
    fail('unrecognised arm pattern: ' + alt)


class Fn:
    def __init__(self, name, param):
        self.name, self.param = name, param
        self.partial = name == 'well_formed'

    def ident(self, x, env):
        x = x.strip().lstrip('&*')
        if x == self.param and self.param:
            return 'q_' + x
        if x in env:
            return env[x]
        if re.fullmatch(r'\d+', x):
            return x
        fail(f'in fn {self.name}: unbound name {x}')

    def patexpr(self, e, env):
        """a pattern-valued expression (only in equalities)"""
        e = e.strip()
        while e.startswith('*') or e.startswith('&'):
            e = e[1:]
        m = re.fullmatch(r'(evar|svar|symbol)\((.*)\)', e)
        if m:
            return f'({PATCON[m.group(1)]} {self.ident(m.group(2), env)})'
        m = re.fullmatch(r'Pattern::(EVar|SVar|Symbol)\((.*)\)', e)
        if m:
            return f"({ {'EVar': 'EVar', 'SVar': 'SVar', 'Symbol': 'Sym'}[m.group(1)] } {self.ident(m.group(2), env)})"
        if re.fullmatch(r'\w+', e) and e in env and env[e].startswith('c_'):
            return env[e]
        if e == 'self':
            return 'p'
        return None

    def bexp(self, e, env):
        e = e.strip()
        parts = split_top(e.replace('||', '\x00'), '\x00')
        if len(parts) > 1:
            return '(' + ' || '.join(self.bexp(x, env) for x in parts) + ')'
        parts = split_top(e.replace('&&', '\x00'), '\x00')
        if len(parts) > 1:
            return '(' + ' && '.join(self.bexp(x, env) for x in parts) + ')'
        if e.startswith('(') and match_close(e, 0) == len(e) - 1:
            return self.bexp(e[1:-1], env)
        if e in ('true', 'false'):
            return e
        if e.startswith('!') and not e.startswith('!='):
            return f'(negb {self.bexp(e[1:], env)})'
        m = re.fullmatch(r'matches!\((\w+)\.as_ref\(\), (.*)\)', e)
        if m:
            alts = [parse_alt(a)[0] for a in split_top(m.group(2), '|')]
            pats = ' | '.join(COQC[a] + ' _' * NFIELDS[a] for a in alts)
            return f'(match {self.ident(m.group(1), env)} with {pats} => true | _ => false end)'
        m = re.fullmatch(r'(\w+)\.(?:into_iter|iter)\(\)\.(any|all)\(\|&?(\w+)\| (.*)\)', e)
        if m:
            lst, q, var, body = m.groups()
            env2 = dict(env)
            env2[var] = 'h_' + var
            return f"({'existsb' if q == 'any' else 'forallb'} (fun h_{var} => {self.bexp(body, env2)}) {self.ident(lst, env)})"
        m = re.fullmatch(r'(\w+)\.contains\((.*)\)', e)
        if m:
            return f'(mem {self.ident(m.group(2), env)} {self.ident(m.group(1), env)})'
        m = re.fullmatch(r'(\w+)\.(e_fresh|s_fresh|positive|negative)\((.*)\)', e)
        if m:
            return f'({GEN[m.group(2)]} {self.ident(m.group(1), env)} {self.ident(m.group(3), env)})'
        if e == 'self.is_redundant_subst()':
            return '(gen_is_redundant_subst p)'
        m = re.fullmatch(r'(.*?) (==|!=) (.*)', e)
        if m:
            a, op, b = m.groups()
            pa, pb = self.patexpr(a, env), self.patexpr(b, env)
            if (pa is not None and pa.startswith('(')) or (pb is not None and pb.startswith('(')):
                if pa is None or pb is None:
                    fail(f'in fn {self.name}: pattern equality with a non-pattern side: {e}')
                # canonical: the constructed pattern first
                if not pa.startswith('('):
                    pa, pb = pb, pa
                r = f'(pat_eqb {pa} {pb})'
            else:
                r = f'(N.eqb {self.ident(a, env)} {self.ident(b, env)})'
            return r if op == '==' else f'(negb {r})'
        if re.fullmatch(r'\w+', e) and e in env and env[e].startswith('l_'):
            return env[e]
        fail(f'in fn {self.name}: unrecognised boolean expression: {e[:100]}')

    def block(self, stmts, env):
        """-> Coq term: bool (or option bool for well_formed)"""
        if not stmts:
            fail(f'in fn {self.name}: block without a value')
        s = stmts[0].strip().rstrip(';').strip()
        more = stmts[1:]
        if re.fullmatch(r'(unimplemented|panic|unreachable)!\(.*\)', s):
            if not self.partial:
                fail(f'fn {self.name} may panic')
            return 'None'
        m = re.fullmatch(r'let (\w+) = (.*)', s)
        if m and more:
            env2 = dict(env)
            env2[m.group(1)] = 'l_' + m.group(1)
            return f'(let l_{m.group(1)} := {self.bexp(m.group(2), env)} in {self.block(more, env2)})'
        m = re.fullmatch(r'if (.*?) \{ return (.*?);? \}', s)
        if m and more and match_close(s, s.index('{')) == len(s) - 1:
            return f'(if {self.bexp(m.group(1), env)} then {self.block([m.group(2)], env)} else {self.block(more, env)})'
        if more:
            fail(f'in fn {self.name}: statement not recognised: {s[:100]}')
        if s.startswith('return '):
            s = s[len('return '):]
        if s.startswith('if ') and s.endswith('}'):
            i = s.index('{')
            j = match_close(s, i)
            tail = s[j + 1:].strip()
            if tail.startswith('else'):
                k = tail.index('{')
                return (f'(if {self.bexp(s[3:i], env)} then {self.block(split_stmts(s[i + 1:j]), env)} '
                        f'else {self.block(split_stmts(tail[k + 1:-1]), env)})')
        b = self.bexp(s, env)
        return f'Some {b}' if self.partial else b


def translate(src, name):
    text = norm(find_method(src, name))
    m = re.fullmatch(r'fn ' + name + r'\(&self(?:, (\w+): Id)?\) -> bool \{ (?:return )?match self \{ (.*) \};? \}', text)
    if not m:
        fail(f'unexpected shape of fn {name}: ' + text[:160])
    param, body = m.groups()
    f = Fn(name, param)
    arms = []
    for pat, btext, is_block in split_arms(body):
        guard = None
        if ' if ' in pat:
            pat, guard = pat.split(' if ', 1)
        arms.append(([parse_alt(a) for a in split_top(pat, '|')], guard, btext, is_block))
    out = []
    for rust, coq, fields in CTORS:
        cvars = ['c_' + x for x in fields]
        chain = []
        for alts, guard, btext, is_block in arms:
            hit = [b for (c, b) in alts if c == rust or c == '_']
            if not hit:
                continue
            env = {loc: 'c_' + fld for loc, fld in hit[0].items()}
            for fld in env.values():
                if fld not in cvars:
                    fail(f'{name}: field {fld} of {rust}')
            stmts = split_stmts(btext) if is_block else [btext]
            b = f.block(stmts, env)
            if guard is None:
                chain.append((None, b))
                break
            chain.append((f.bexp(guard, env), b))
        if not chain or chain[-1][0] is not None:
            fail(f'{name}: no unguarded arm covers {rust}')
        code = chain[-1][1]
        for g, b in reversed(chain[:-1]):
            code = f'(if {g} then {b} else {code})'
        out.append(f'  | {coq} {" ".join(cvars)} => {code}')
    return param, out


def generate(repo):
    src = open(os.path.join(repo, 'rust/src/lib.rs')).read()
    src = src.split('\n#[cfg(test)]\nmod tests')[0]
    t = {n: translate(src, n) for n in FUNCS}

    def fix(name, kw='Fixpoint'):
        par, arms = t[name]
        return f'{kw} gen_{name} (p:pat) (q_{par}:N) {{struct p}} : bool :=\n  match p with\n' + '\n'.join(arms) + '\n  end'
    lines = ['(** GENERATED by translators/rust_judge.py from rust/src/lib.rs (impl Pattern) — do not edit *)',
             'From Coq Require Import NArith List Bool.', 'From Pi2 Require Import ML.Syntax.', 'Import ListNotations.', 'Open Scope N_scope.', '',
             fix('e_fresh') + '.', '', fix('s_fresh') + '.', '', fix('positive') + '\n' + fix('negative', 'with') + '.', '',
             'Definition gen_is_redundant_subst (p:pat) : bool :=\n  match p with\n' + '\n'.join(t['is_redundant_subst'][1]) + '\n  end.', '',
             'Definition gen_well_formed (p:pat) : option bool :=\n  match p with\n' + '\n'.join(t['well_formed'][1]) + '\n  end.', '']
    return '\n'.join(lines)


if __name__ == '__main__':
    sys.stdout.write(generate(sys.argv[1] if len(sys.argv) > 1 else '/repo'))
